#!/usr/bin/env python3
"""Translator: /repo source text -> lean/MoPepGen/Generated/*.lean

Everything that is a *table* or a *constant* in the source is extracted with
Python's `ast` from the files on disk (no import of moPepGen, so it is the text
of the working tree that counts) and emitted as Lean definitions.  Theorems in
MoPepGen/Props quantify over these generated tables, so a changed table
re-opens the proof obligations that mention it.

The translator refuses (exit 3, message on stderr) anything outside its
grammar; `check` treats that as a broken translation.
"""
import ast
import hashlib
import json
import os
import sys

REPO = os.environ.get('VERIF_REPO', '/repo')
HERE = os.path.dirname(os.path.abspath(__file__))
OUT = os.path.join(HERE, '..', 'lean', 'MoPepGen', 'Generated')


class TranslationError(Exception):
    pass


# ---------------------------------------------------------------- ast helpers
def module_assignments(path):
    """name -> ast node of the value, for top-level (annotated) assignments."""
    with open(path, encoding='utf-8') as fh:
        tree = ast.parse(fh.read(), filename=path)
    out = {}
    for node in tree.body:
        if isinstance(node, ast.Assign) and len(node.targets) == 1 \
                and isinstance(node.targets[0], ast.Name):
            out[node.targets[0].id] = node.value
        elif isinstance(node, ast.AnnAssign) and isinstance(node.target, ast.Name) \
                and node.value is not None:
            out[node.target.id] = node.value
    return out, tree


def literal(node):
    try:
        return ast.literal_eval(node)
    except Exception as e:   # noqa
        raise TranslationError(f'not a literal: {ast.dump(node)[:200]}') from e


# ---------------------------------------------------------- regex normal form
# Grammar accepted (all that occurs in expasy_rules.py):
#   re    := alt ('|' alt)*
#   alt   := '(' alt ')' | item*
#   item  := '(?<=' atom* ')' | '(?=' atom* ')' | atom
#   atom  := class ('{' n '}')?
#   class := '[' '^'? letters ']' | '\w' | LETTER
# Normal form: list of alternatives, each (lb, core, la) with exactly one
# consumed class.  Cls = ('pos', 'ABC') | ('neg', 'ABC') | ('word',)
class RegexParser:
    def __init__(self, text):
        self.s = text
        self.i = 0

    def peek(self, k=1):
        return self.s[self.i:self.i + k]

    def eat(self, tok):
        if not self.s.startswith(tok, self.i):
            raise TranslationError(
                f'regex {self.s!r}: expected {tok!r} at {self.i}')
        self.i += len(tok)

    def parse(self):
        alts = [self.alt()]
        while self.peek() == '|':
            self.eat('|')
            alts.append(self.alt())
        if self.i != len(self.s):
            raise TranslationError(f'regex {self.s!r}: trailing text at {self.i}')
        return alts

    def alt(self):
        # a parenthesised alternative (plain group, not a look-around)
        if self.peek() == '(' and self.peek(2) != '(?':
            self.eat('(')
            a = self.alt()
            self.eat(')')
            return a
        lb, consumed, la = [], [], []
        state = 0   # 0: before core, 1: after core
        while self.i < len(self.s) and self.peek() not in '|)':
            if self.peek(4) == '(?<=':
                if consumed or la:
                    raise TranslationError(f'regex {self.s!r}: look-behind after core')
                self.eat('(?<=')
                lb += self.atoms(')')
                self.eat(')')
            elif self.peek(3) == '(?=':
                self.eat('(?=')
                la += self.atoms(')')
                self.eat(')')
                state = 1
            elif self.peek() == '(':
                raise TranslationError(f'regex {self.s!r}: nested group at {self.i}')
            else:
                if state == 1:
                    raise TranslationError(f'regex {self.s!r}: consumed after look-ahead')
                consumed += self.atom()
        return (lb, consumed, la)

    def atoms(self, stop):
        out = []
        while self.peek() != stop:
            if self.i >= len(self.s) or self.peek() in '(|':
                raise TranslationError(f'regex {self.s!r}: bad look-around at {self.i}')
            out += self.atom()
        return out

    def atom(self):
        c = self.peek()
        if c == '[':
            self.eat('[')
            neg = False
            if self.peek() == '^':
                neg = True
                self.eat('^')
            letters = ''
            while self.peek() != ']':
                ch = self.peek()
                if not (ch.isalpha() and ch.isupper()):
                    raise TranslationError(f'regex {self.s!r}: class member {ch!r}')
                letters += ch
                self.i += 1
            self.eat(']')
            if not letters:
                raise TranslationError(f'regex {self.s!r}: empty class')
            cls = ('neg' if neg else 'pos', letters)
        elif self.peek(2) == '\\w':
            self.eat('\\w')
            cls = ('word',)
        elif c.isalpha() and c.isupper():
            self.i += 1
            cls = ('pos', c)
        else:
            raise TranslationError(f'regex {self.s!r}: unsupported construct {c!r} at {self.i}')
        n = 1
        if self.peek() == '{':
            self.eat('{')
            num = ''
            while self.peek().isdigit():
                num += self.peek()
                self.i += 1
            self.eat('}')
            if not num:
                raise TranslationError(f'regex {self.s!r}: bad repetition')
            n = int(num)
        return [cls] * n


def parse_site_regex(text):
    alts = RegexParser(text).parse()
    out = []
    for lb, consumed, la in alts:
        if len(consumed) != 1:
            raise TranslationError(
                f'regex {text!r}: alternative consumes {len(consumed)} residues, '
                'the model requires exactly one')
        out.append((lb, consumed[0], la))
    return out


def parse_flat_regex(text):
    alts = RegexParser(text).parse()
    out = []
    for lb, consumed, la in alts:
        if lb or la:
            raise TranslationError(f'regex {text!r}: look-around in a range pattern')
        if not consumed:
            raise TranslationError(f'regex {text!r}: empty alternative')
        out.append(consumed)
    return out


# ------------------------------------------------------------------ Lean emit
def lean_str(s):
    return '"' + s.replace('\\', '\\\\').replace('"', '\\"') + '"'


def lean_cls(c):
    if c[0] == 'word':
        return 'Cls.word'
    return f'Cls.{c[0]} {lean_str(c[1])}.toList'


def lean_list(items):
    return '[' + ', '.join(items) + ']'


def emit_expasy(repo):
    path = os.path.join(repo, 'moPepGen', 'aa', 'expasy_rules.py')
    asg, _ = module_assignments(path)
    for name in ('EXPASY_RULES', 'EXPASY_RULES2', 'EXPASY_RULES_WINGS_SIZE'):
        if name not in asg:
            raise TranslationError(f'{name} not found in {path}')
    rules = literal(asg['EXPASY_RULES'])
    rules2 = literal(asg['EXPASY_RULES2'])
    wings = literal(asg['EXPASY_RULES_WINGS_SIZE'])
    lines = [
        '-- GENERATED by translator/gen_tables.py from moPepGen/aa/expasy_rules.py',
        '-- Do not edit. Regenerated on every check run.',
        'import MoPepGen.Model.Regex',
        'namespace MoPepGen.Generated',
        'open MoPepGen',
        '',
        '/-- EXPASY_RULES in normal form: name ↦ alternatives (look-behind, core, look-ahead). -/',
        'def expasyRules : List (String × Re) := [',
    ]
    ents = []
    for name, text in rules.items():
        alts = parse_site_regex(text)
        a = lean_list([
            '{ lb := ' + lean_list([lean_cls(c) for c in lb])
            + ', core := ' + lean_cls(core)
            + ', la := ' + lean_list([lean_cls(c) for c in la]) + ' }'
            for lb, core, la in alts])
        ents.append(f'  ({lean_str(name)}, {a})')
    lines.append(',\n'.join(ents))
    lines.append(']')
    lines.append('')
    lines.append('/-- EXPASY_RULES2 (range patterns): name ↦ alternatives, each a class sequence. -/')
    lines.append('def expasyRules2 : List (String × Re2) := [')
    ents = []
    for name, text in rules2.items():
        alts = parse_flat_regex(text)
        a = lean_list([lean_list([lean_cls(c) for c in alt]) for alt in alts])
        ents.append(f'  ({lean_str(name)}, {a})')
    lines.append(',\n'.join(ents))
    lines.append(']')
    lines.append('')
    lines.append('/-- EXPASY_RULES_WINGS_SIZE -/')
    lines.append('def expasyWings : List (String × (Nat × Nat)) := [')
    ents = []
    for name, w in wings.items():
        if not (isinstance(w, tuple) and len(w) == 2 and all(isinstance(x, int) and x >= 0 for x in w)):
            raise TranslationError(f'wings of {name!r}: {w!r}')
        ents.append(f'  ({lean_str(name)}, ({w[0]}, {w[1]}))')
    lines.append(',\n'.join(ents))
    lines.append(']')
    lines.append('')
    lines.append('end MoPepGen.Generated')
    return 'Expasy.lean', '\n'.join(lines) + '\n', {
        'rules': rules, 'rules2': rules2,
        'wings': {k: list(v) for k, v in wings.items()}}


def emit_weights():
    """Monoisotopic=False protein weights used by Bio.SeqUtils.molecular_weight,
    as integers in units of 1e-4 Da (the table has 4 decimals)."""
    from decimal import Decimal
    try:
        sys.path = [p for p in sys.path if p not in ('', HERE)]
        from Bio.Data import IUPACData
    except Exception as e:   # noqa
        raise TranslationError(f'cannot import Bio.Data.IUPACData: {e}') from e
    w = IUPACData.protein_weights
    water = 18.0153
    ents = []
    tab = {}
    for k in sorted(w):
        v = Decimal(repr(w[k])) * 10000
        if v != v.to_integral_value():
            raise TranslationError(f'protein weight {k}={w[k]} has more than 4 decimals')
        tab[k] = int(v)
        ents.append(f"  ('{k}', {int(v)})")
    lines = [
        '-- GENERATED by translator/gen_tables.py from Bio.Data.IUPACData.protein_weights',
        'namespace MoPepGen.Generated',
        '',
        '/-- average residue+water masses in 1e-4 Da -/',
        'def proteinWeights : List (Char × Nat) := [',
        ',\n'.join(ents),
        ']',
        '',
        f'def waterWeight : Nat := {int(Decimal(repr(water)) * 10000)}',
        '',
        'end MoPepGen.Generated',
    ]
    return 'Weights.lean', '\n'.join(lines) + '\n', {'weights': tab}


def emit_codon(_repo):
    """Standard genetic code as Bio.Seq.translate uses it (table 1)."""
    try:
        from Bio.Data import CodonTable
    except Exception as e:   # noqa
        raise TranslationError(f'cannot import Bio.Data.CodonTable: {e}') from e
    t = CodonTable.unambiguous_dna_by_id[1]
    ents = []
    tab = {}
    for a in 'ACGT':
        for b in 'ACGT':
            for c in 'ACGT':
                cod = a + b + c
                aa_ = '*' if cod in t.stop_codons else t.forward_table[cod]
                tab[cod] = aa_
                ents.append(f"  (('{a}', '{b}', '{c}'), '{aa_}')")
    lines = [
        '-- GENERATED by translator/gen_tables.py from Bio.Data.CodonTable (standard table, id 1)',
        'namespace MoPepGen.Generated',
        '',
        '/-- codon ↦ amino acid, `*` for stop -/',
        'def codonTable : List ((Char × Char × Char) × Char) := [',
        ',\n'.join(ents),
        ']',
        '',
        'end MoPepGen.Generated',
    ]
    return 'Codon.lean', '\n'.join(lines) + '\n', {'codons': tab}


def lean_chars(s):
    """a Python str as an explicit Lean `List Char` literal"""
    def ch(c):
        if c == "'":
            return r"'\''"
        if c == '\\':
            return r"'\\'"
        if not (32 <= ord(c) < 127):
            raise TranslationError(f'non-printable character in constant {s!r}')
        return f"'{c}'"
    return '[' + ', '.join(ch(c) for c in s) + ']'


def _find_func(tree, name):
    for node in ast.walk(tree):
        if isinstance(node, ast.FunctionDef) and node.name == name:
            return node
    raise TranslationError(f'function {name} not found')


def emit_constants(repo):
    """moPepGen/constant.py lists used by the GVF writer/reader, and the attribute key
    under which the circRNA writer emits / the circRNA reader looks up the genomic
    position (C13)."""
    assigns, _ = module_assignments(os.path.join(repo, 'moPepGen', 'constant.py'))
    out = {}
    for name in ('ATTRS_POSITION', 'SINGLE_NUCLEOTIDE_SUBSTITUTION'):
        if name not in assigns:
            raise TranslationError(f'constant.{name} not found')
        val = literal(assigns[name])
        if not (isinstance(val, list) and all(isinstance(x, str) for x in val)):
            raise TranslationError(f'constant.{name} is not a list of str')
        out[name] = val
    # reader: `genomic_location = attrs.get('<KEY>', '')` in circ/io.py:line_to_circ_model
    with open(os.path.join(repo, 'moPepGen', 'circ', 'io.py'), encoding='utf-8') as fh:
        tree = ast.parse(fh.read())
    fn = _find_func(tree, 'line_to_circ_model')
    rkeys = []
    for node in ast.walk(fn):
        if isinstance(node, ast.Assign) and len(node.targets) == 1 \
                and isinstance(node.targets[0], ast.Name) \
                and node.targets[0].id == 'genomic_location':
            c = node.value
            ok = (isinstance(c, ast.Call) and isinstance(c.func, ast.Attribute)
                  and c.func.attr == 'get' and isinstance(c.func.value, ast.Name)
                  and c.func.value.id == 'attrs' and len(c.args) == 2
                  and all(isinstance(a, ast.Constant) and isinstance(a.value, str)
                          for a in c.args) and c.args[1].value == '')
            if not ok:
                raise TranslationError(
                    'circ/io.py: genomic_location is not `attrs.get(<str>, \'\')`: '
                    + ast.dump(c)[:200])
            rkeys.append(c.args[0].value)
    if len(rkeys) != 1:
        raise TranslationError(f'circ/io.py: expected one genomic_location lookup, got {rkeys}')
    # writer: f'...;<KEY>={self.genomic_position}' in CircRNA.to_string
    with open(os.path.join(repo, 'moPepGen', 'circ', 'CircRNA.py'), encoding='utf-8') as fh:
        tree = ast.parse(fh.read())
    fn = _find_func(tree, 'to_string')
    wkeys = []
    for node in ast.walk(fn):
        if isinstance(node, ast.JoinedStr):
            vals = node.values
            for i, v in enumerate(vals):
                if isinstance(v, ast.FormattedValue) and isinstance(v.value, ast.Attribute) \
                        and v.value.attr == 'genomic_position':
                    if i == 0 or not isinstance(vals[i - 1], ast.Constant):
                        raise TranslationError('CircRNA.to_string: no literal before genomic_position')
                    txt = vals[i - 1].value
                    if not txt.endswith('='):
                        raise TranslationError('CircRNA.to_string: genomic_position not written as KEY=')
                    wkeys.append(txt[:-1].split(';')[-1])
    if len(wkeys) != 1:
        raise TranslationError(f'CircRNA.to_string: expected one genomic_position field, got {wkeys}')
    out['CIRC_READER_KEY'] = rkeys[0]
    out['CIRC_WRITER_KEY'] = wkeys[0]
    lines = [
        '-- GENERATED by translator/gen_tables.py from moPepGen/constant.py,',
        '-- moPepGen/circ/io.py (line_to_circ_model) and moPepGen/circ/CircRNA.py (to_string)',
        '-- Do not edit. Regenerated on every check run.',
        'namespace MoPepGen.Generated',
        '',
        '/-- constant.ATTRS_POSITION -/',
        'def attrsPosition : List (List Char) := [',
        ',\n'.join('  ' + lean_chars(x) for x in out['ATTRS_POSITION']),
        ']',
        '',
        '/-- constant.SINGLE_NUCLEOTIDE_SUBSTITUTION -/',
        'def singleNucleotideSubstitution : List (List Char) := [',
        ',\n'.join('  ' + lean_chars(x) for x in out['SINGLE_NUCLEOTIDE_SUBSTITUTION']),
        ']',
        '',
        '/-- key looked up by circ.io.line_to_circ_model for the genomic position -/',
        f'def circReaderKey : List Char := {lean_chars(out["CIRC_READER_KEY"])}',
        '',
        '/-- key under which CircRNAModel.to_string writes the genomic position -/',
        f'def circWriterKey : List Char := {lean_chars(out["CIRC_WRITER_KEY"])}',
        '',
        'end MoPepGen.Generated',
    ]
    return 'Constants.lean', '\n'.join(lines) + '\n', out


# ------------------------------------------------------------ label constants
def lean_chars(s):
    def ch(c):
        if c == "'":
            return "'\\''"
        if c == '\\':
            return "'\\\\'"
        if not (32 <= ord(c) < 127):
            raise TranslationError(f'non printable-ASCII character in constant {s!r}')
        return f"'{c}'"
    return '[' + ', '.join(ch(c) for c in s) + ']'


def emit_labels(repo):
    """Header-grammar and source constants used by C18/C19:
    constant.VariantPrefix (+ ctbv / alt_translation), the alt_splice_types list in
    BaseVariantPeptideIdentifier.is_alternative_splicing, delimiters, internal
    sources, MUTUALLY_EXCLUSIVE_PARSERS."""
    cpath = os.path.join(repo, 'moPepGen', 'constant.py')
    ipath = os.path.join(repo, 'moPepGen', '__init__.py')
    vpath = os.path.join(repo, 'moPepGen', 'aa', 'VariantPeptideIdentifier.py')
    spath = os.path.join(repo, 'moPepGen', 'aa', 'PeptidePoolSummarizer.py')
    consts, ctree = module_assignments(cpath)
    members, methods = {}, {}
    for node in ctree.body:
        if isinstance(node, ast.ClassDef) and node.name == 'VariantPrefix':
            for b in node.body:
                if isinstance(b, ast.Assign) and isinstance(b.targets[0], ast.Name):
                    members[b.targets[0].id] = literal(b.value)
                elif isinstance(b, ast.FunctionDef) and b.name in ('ctbv', 'ntbv', 'alt_translation'):
                    ret = [x for x in b.body if isinstance(x, ast.Return)]
                    if len(ret) != 1 or not isinstance(ret[0].value, ast.List):
                        raise TranslationError(f'VariantPrefix.{b.name}: not a list return')
                    names = []
                    for el in ret[0].value.elts:
                        if not (isinstance(el, ast.Attribute) and isinstance(el.value, ast.Name)
                                and el.value.id == 'cls'):
                            raise TranslationError(f'VariantPrefix.{b.name}: element not cls.X')
                        names.append(el.attr)
                    methods[b.name] = names
    for k in ('FUSION', 'CIRC', 'CI'):
        if k not in members:
            raise TranslationError(f'VariantPrefix.{k} missing')
    for k in ('ctbv', 'alt_translation'):
        if k not in methods:
            raise TranslationError(f'VariantPrefix.{k} missing')
    for nm in methods['ctbv'] + methods['alt_translation']:
        if nm not in members:
            raise TranslationError(f'VariantPrefix.{nm} missing')
    ctbv = [members[n] for n in methods['ctbv']]
    altt = [members[n] for n in methods['alt_translation']]
    # alt_splice_types
    with open(vpath, encoding='utf-8') as fh:
        vtree = ast.parse(fh.read())
    splice = None
    for node in ast.walk(vtree):
        if isinstance(node, ast.FunctionDef) and node.name == 'is_alternative_splicing':
            for b in node.body:
                if isinstance(b, ast.Assign) and isinstance(b.targets[0], ast.Name) \
                        and b.targets[0].id == 'alt_splice_types':
                    splice = literal(b.value)
    if splice is None:
        raise TranslationError('alt_splice_types not found')
    iconsts, _ = module_assignments(ipath)
    delim = literal(iconsts['VARIANT_PEPTIDE_SOURCE_DELIMITER'])
    keysep = literal(iconsts['SPLIT_DATABASE_KEY_SEPARATER'])
    if delim != ' ' or keysep != '-':
        raise TranslationError('delimiters changed: the line protocol assumes " " and "-"')
    src_novel = literal(consts['SOURCE_NOVEL_ORF'])
    src_codon = literal(consts['SOURCE_CODON_REASSIGNMENT'])
    src_sect = literal(consts['SOURCE_SEC_TERMINATION'])
    sect_type = literal(consts['SEC_TERMINATION_TYPE'])
    codon_types = literal(consts['CODON_REASSIGNMENTS_TYPES'])
    sconsts, _ = module_assignments(spath)
    excl = literal(sconsts['MUTUALLY_EXCLUSIVE_PARSERS'])
    si = sconsts['SOURCES_INTERNAL']
    if not isinstance(si, ast.List):
        raise TranslationError('SOURCES_INTERNAL not a list')
    internal = []
    for el in si.elts:
        if not (isinstance(el, ast.Attribute) and el.attr in consts):
            raise TranslationError('SOURCES_INTERNAL element not constant.X')
        internal.append(literal(consts[el.attr]))
    L = lambda xs: '[' + ', '.join(lean_chars(x) for x in xs) + ']'
    S = lambda xs: '[' + ', '.join(lean_str(x) for x in xs) + ']'
    lines = [
        '-- GENERATED by translator/gen_tables.py from moPepGen/constant.py, __init__.py,',
        '-- aa/VariantPeptideIdentifier.py, aa/PeptidePoolSummarizer.py.  Do not edit.',
        'namespace MoPepGen.Generated',
        '',
        f'def pfxFusion : List Char := {lean_chars(members["FUSION"])}',
        f'def pfxCirc : List Char := {lean_chars(members["CIRC"])}',
        f'def pfxCi : List Char := {lean_chars(members["CI"])}',
        '/-- VariantPrefix.ctbv() -/',
        f'def pfxCtbv : List (List Char) := {L(ctbv)}',
        '/-- VariantPrefix.alt_translation() -/',
        f'def pfxAltTranslation : List (List Char) := {L(altt)}',
        '/-- alt_splice_types in BaseVariantPeptideIdentifier.is_alternative_splicing -/',
        f'def altSpliceTypes : List (List Char) := {L(splice)}',
        f'def sourceNovelOrf : String := {lean_str(src_novel)}',
        f'def sourceCodonReassign : String := {lean_str(src_codon)}',
        f'def sourceSecTermination : String := {lean_str(src_sect)}',
        f'def secTerminationType : List Char := {lean_chars(sect_type)}',
        f'def codonReassignTypes : List (List Char) := {L(codon_types)}',
        '/-- SOURCES_INTERNAL (PeptidePoolSummarizer) -/',
        f'def sourcesInternal : List String := {S(internal)}',
        '/-- MUTUALLY_EXCLUSIVE_PARSERS -/',
        'def mutuallyExclusiveParsers : List (String × List String) := [',
        ',\n'.join(f'  ({lean_str(k)}, {S(v)})' for k, v in excl.items()),
        ']',
        '',
        'end MoPepGen.Generated',
    ]
    meta = {'members': members, 'ctbv': ctbv, 'alt_translation': altt, 'alt_splice_types': splice,
            'internal': internal, 'exclusive': excl,
            'sources': [src_novel, src_codon, src_sect], 'sect_type': sect_type,
            'codon_types': codon_types}
    return 'Labels.lean', '\n'.join(lines) + '\n', meta


EMITTERS = [emit_codon, emit_constants, emit_labels]


def main():
    repo = sys.argv[1] if len(sys.argv) > 1 else REPO
    os.makedirs(OUT, exist_ok=True)
    manifest = {}
    changed = []
    try:
        outs = [emit_expasy(repo), emit_weights()]
        for fn in EMITTERS:
            outs.append(fn(repo))
    except TranslationError as e:
        sys.stderr.write(f'TRANSLATION-ERROR: {e}\n')
        return 3
    for name, text, meta in outs:
        path = os.path.join(OUT, name)
        old = None
        if os.path.exists(path):
            with open(path, encoding='utf-8') as fh:
                old = fh.read()
        if old != text:
            with open(path, 'w', encoding='utf-8') as fh:
                fh.write(text)
            changed.append(name)
        manifest[name] = {
            'sha256': hashlib.sha256(text.encode()).hexdigest(), 'meta': meta}
    with open(os.path.join(OUT, 'manifest.json'), 'w', encoding='utf-8') as fh:
        json.dump(manifest, fh, indent=1, sort_keys=True)
    print(json.dumps({'changed': changed, 'files': sorted(manifest)}))
    return 0


if __name__ == '__main__':
    sys.exit(main())
