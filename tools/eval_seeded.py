#!/usr/bin/env python3
"""Evaluate seeded defects: usage eval_seeded.py <mutout dir> <prop> <A|B> [extra props…]
 1. demo on the clean /repo must exit 0;  2. apply the diff, demo must fail;
 3. run ./check <prop> (quick) with the diff applied;  4. undo.  Records everything in
 /verif/seeded/<prop>_<letter>/ (patch.diff, demo.py, meta.json)."""
import json, os, shutil, subprocess, sys, time
out_dir, prop, letter = sys.argv[1:4]
extra = sys.argv[4:]
# evaluated on a scratch worktree of /repo's HEAD (other processes may be reading /repo)
REPO = f'/tmp/eval_repo_{prop}_{letter}'
def sh(cmd, cwd=None, timeout=3000, env=None):
    p = subprocess.run(cmd, shell=True, cwd=cwd, capture_output=True, text=True, timeout=timeout, env=env)
    return p.returncode, (p.stdout + p.stderr)
sh(f'git -C /repo worktree remove --force {REPO}')
rc_, o_ = sh(f'git -C /repo worktree add -q --detach {REPO} HEAD'); assert rc_ == 0, o_
diff = os.path.join(out_dir, f'{letter}.diff'); demo = os.path.join(out_dir, f'demo_{letter}.py')
meta = json.load(open(os.path.join(out_dir, f'meta_{letter}.json')))
res = {'agent_meta': meta, 'runs': []}
rc0, o0 = sh(f'/venv/bin/python {demo}', REPO, 600)
res['demo_clean_rc'] = rc0
rc, o = sh(f'git apply {diff}', REPO)
if rc != 0:
    res['apply_failed'] = o[-500:]
else:
    try:
        rc1, o1 = sh(f'/venv/bin/python {demo}', REPO, 600)
        res['demo_mutant_rc'] = rc1
        res['demo_mutant_tail'] = o1[-600:]
        for p in [prop] + extra:
            t = time.time()
            rcc, oc = sh(f'./check {p} --tier quick', '/verif', 3000, env=dict(os.environ, VERIF_REPO=REPO))
            lines = [l for l in oc.split('\n') if l.startswith(('VIOLATION', 'OK ', 'KNOWN-FINDING', 'ERROR'))]
            r = {'check': p, 'rc': rcc, 'lines': lines[:6], 'wall_s': round(time.time() - t, 1)}
            for l in lines:
                if l.startswith('VIOLATION') and 'replay=' in l:
                    rp = l.split('replay=')[1].split()[0]
                    try:
                        d = json.load(open(rp)); r['first_replay_what'] = (d.get('what') or '')[:400]
                    except Exception:
                        pass
                    break
            res['runs'].append(r)
    finally:
        pass
sh(f'git -C /repo worktree remove --force {REPO}')
dst = f'/verif/seeded/{prop}_{letter}'
os.makedirs(dst, exist_ok=True)
shutil.copy(diff, os.path.join(dst, 'patch.diff')); shutil.copy(demo, os.path.join(dst, 'demo.py'))
res['property'] = prop
res['confirmed'] = (res.get('demo_clean_rc') == 0 and res.get('demo_mutant_rc', 0) != 0)
res['caught_by'] = [r['check'] for r in res['runs'] if r['rc'] == 1]
json.dump(res, open(os.path.join(dst, 'meta.json'), 'w'), indent=1)
print(prop, letter, 'confirmed' if res['confirmed'] else 'NOT-CONFIRMED', 'caught_by', res['caught_by'],
      [(r['check'], r['rc'], r.get('first_replay_what', '')[:150]) for r in res['runs']])
