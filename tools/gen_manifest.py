#!/usr/bin/env python3
"""Regenerate MANIFEST.json from tools/claims.json (one entry per claimed property)."""
import json, os
HERE = os.path.dirname(os.path.abspath(__file__))
V = os.path.dirname(HERE)
claims = json.load(open(os.path.join(HERE, 'claims.json')))
props = [json.loads(l)['id'] for l in open(os.path.join(V, 'properties.jsonl'))]
checks = []
for pid in props:
    c = claims['claimed'].get(pid)
    if not c:
        continue
    checks.append({
        'property_id': pid,
        'quick_cmd': f'./check {pid} --tier quick',
        'thorough_cmd': f'./check {pid} --tier thorough',
        'evidence_file': f'evidence/{pid}.json',
        'replay_cmd_template': f'./check {pid} --replay {{path}}',
        'engine': 'lean-proof+correspondence',
        'level_claimed': {'category': 'proof', 'text': c['text'], 'design_ref': c.get('design_ref', f'DESIGN.md §4 {pid}')},
        'level_note': c['note'],
        'technique': c.get('technique', 'Lean 4 proof + model/code correspondence'),
    })
na = [{'property_id': p, 'reason': claims['not_applicable'].get(p, 'check not built yet in this round (planned, see DESIGN.md §9); no claim is made')}
      for p in props if p not in claims['claimed']]
man = {
    'version': 1,
    'setup_cmd': 'cd /verif && /venv/bin/python translator/gen_tables.py /repo && cd lean && lake build',
    'hooks': claims['hooks'],
    'engines': [{'name': 'lean-proof+correspondence', 'path': 'check',
                 'serves_properties': [c['property_id'] for c in checks],
                 'kind_free_text': 'Lean 4 theorems over hand-written models and tables regenerated from the source; models tied to /repo by differential execution of the real code against a native Lean driver (line protocol)'}],
    'checks': checks,
    'notes': claims.get('notes', ''),
    'not_applicable': na,
}
json.dump(man, open(os.path.join(V, 'MANIFEST.json'), 'w'), indent=1)
print('claimed', [c['property_id'] for c in checks])
