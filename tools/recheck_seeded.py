#!/usr/bin/env python3
"""Re-run every seeded defect against the CURRENT checks: for each seeded/<Prop>_<L>/patch.diff a
scratch worktree of /repo's HEAD gets the patch, the property's own quick check runs against it
(VERIF_REPO), the result goes to seeded/SUMMARY.json.  usage: recheck_seeded.py [-j N] [ids…]"""
import json, os, subprocess, sys, time
from concurrent.futures import ThreadPoolExecutor
V = os.path.dirname(os.path.dirname(os.path.abspath(__file__)))
args = sys.argv[1:]
jobs = 3
if args[:1] == ['-j']:
    jobs = int(args[1]); args = args[2:]
ids = sorted(args or (d for d in os.listdir(os.path.join(V, 'seeded')) if os.path.isdir(os.path.join(V, 'seeded', d))),
             key=lambda d: (d.split('_')[1], d))   # neighbours in the queue belong to different properties


def sh(cmd, **kw):
    p = subprocess.run(cmd, shell=True, capture_output=True, text=True, **kw)
    return p.returncode, p.stdout + p.stderr


def one(sid):
    prop = sid.split('_')[0]
    repo = f'/tmp/recheck_repo_{sid}'
    sh(f'git -C /repo worktree remove --force {repo}')
    rc, o = sh(f'git -C /repo worktree add -q --detach {repo} HEAD')
    if rc != 0:
        return sid, {'error': o[-300:]}
    try:
        rc, o = sh(f'git apply {V}/seeded/{sid}/patch.diff', cwd=repo)
        if rc != 0:
            return sid, {'apply_failed': o[-300:]}
        t = time.time()
        env = dict(os.environ, VERIF_REPO=repo, VERIF_REPLAY_DIR=f'/tmp/recheck_replay_{sid}')
        rc, o = sh(f'./check {prop} --tier quick', cwd=V, env=env, timeout=3000)
        lines = [l for l in o.split('\n') if l.startswith(('VIOLATION', 'OK ', 'ERROR'))]
        return sid, {'rc': rc, 'wall_s': round(time.time() - t, 1), 'lines': lines[:3]}
    finally:
        sh(f'git -C /repo worktree remove --force {repo}')


with ThreadPoolExecutor(jobs) as ex:
    res = dict(ex.map(one, ids))
out = os.path.join(V, 'seeded', 'SUMMARY.json')
old = json.load(open(out)) if os.path.exists(out) else {}
old.update(res)
head = subprocess.run('git -C /repo rev-parse --short HEAD', shell=True, capture_output=True, text=True).stdout.strip()
old['_repo_head'] = head
json.dump(old, open(out, 'w'), indent=1, sort_keys=True)
caught = [k for k, v in res.items() if v.get('rc') == 1]
print(f'{len(caught)}/{len(res)} caught; not caught:', sorted(k for k in res if k not in caught))
