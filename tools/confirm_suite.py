#!/usr/bin/env python3
"""Confirm that a seeded change keeps the pinned test suite passing: for each <out_dir>/<L>.diff a
scratch worktree of /repo's HEAD gets the patch, the BASELINE command runs there (junit), and every
test of BASELINE.stable_pass must still pass.  usage: confirm_suite.py [-j N] <out_dir>:<L> …
Prints one line per change and writes <out_dir>/suite_<L>.json."""
import json, os, subprocess, sys, xml.etree.ElementTree as ET
from concurrent.futures import ThreadPoolExecutor
args = sys.argv[1:]
jobs = 4
if args[:1] == ['-j']:
    jobs = int(args[1]); args = args[2:]
BASE = json.load(open('/root/.vp/BASELINE.json'))
STABLE = set(BASE['stable_pass'])


def sh(cmd, **kw):
    p = subprocess.run(cmd, shell=True, capture_output=True, text=True, **kw)
    return p.returncode, p.stdout + p.stderr


def one(spec):
    out_dir, letter = spec.split(':')
    tag = os.path.basename(out_dir.rstrip('/')) + '_' + letter
    repo = f'/tmp/suite_repo_{tag}'
    sh(f'git -C /repo worktree remove --force {repo}')
    rc, o = sh(f'git -C /repo worktree add -q --detach {repo} HEAD')
    if rc != 0:
        return spec, {'error': o[-300:]}
    try:
        rc, o = sh(f'git apply {out_dir}/{letter}.diff', cwd=repo)
        if rc != 0:
            return spec, {'apply_failed': o[-300:]}
        xml = f'/tmp/suite_{tag}.xml'
        sh(f'/venv/bin/python -m pytest -ra -q -p no:cacheprovider --timeout=900 '
           f'--continue-on-collection-errors --junitxml={xml}', cwd=repo, timeout=3000)
        passed, failed = set(), set()
        for tc in ET.parse(xml).getroot().iter('testcase'):
            tid = (tc.get('classname') or '') + '::' + (tc.get('name') or '')
            if tc.find('failure') is not None or tc.find('error') is not None:
                failed.add(tid)
            elif tc.find('skipped') is None:
                passed.add(tid)
        os.remove(xml)
        lost = sorted(STABLE - (passed - failed))
        res = {'stable_pass': len(STABLE), 'still_passing': len(STABLE) - len(lost), 'lost': lost[:10]}
        json.dump(res, open(os.path.join(out_dir, f'suite_{letter}.json'), 'w'), indent=1)
        return spec, res
    finally:
        sh(f'git -C /repo worktree remove --force {repo}')


with ThreadPoolExecutor(jobs) as ex:
    for spec, res in ex.map(one, args):
        print(spec, 'SUITE-OK' if res.get('lost') == [] else 'SUITE-CHANGED', json.dumps(res)[:300])
