#!/usr/bin/env python3
"""integrate a builder's working copy: tools/integrate.py <copy> <PROP> [<PROP>…]
copies new files, adds Main/MoPepGen imports, merges claims + known findings."""
import json, os, re, shutil, subprocess, sys
W = sys.argv[1]; props = sys.argv[2:]
V = '/verif'
st = subprocess.run(['git', 'status', '--short'], cwd=W, capture_output=True, text=True).stdout
new = [l[3:] for l in st.split('\n') if l.startswith('??') and not l[3:].startswith('evidence')]
for f in new:
    src = os.path.join(W, f); dst = os.path.join(V, f)
    if os.path.isdir(src):
        shutil.copytree(src, dst, dirs_exist_ok=True)
    else:
        os.makedirs(os.path.dirname(dst), exist_ok=True); shutil.copy(src, dst)
    print('copied', f)
def added(path):
    d = subprocess.run(['git', 'diff', path], cwd=W, capture_output=True, text=True).stdout
    return [l[1:] for l in d.split('\n') if l.startswith('+') and not l.startswith('+++')]
m = open(f'{V}/lean/Main.lean').read()
for l in added('lean/Main.lean'):
    if l.startswith('import') and l not in m:
        m = m.replace('\n\n/--', '\n' + l + '\n\n/--', 1) if False else m.replace('import MoPepGen.Driver.C10\n', 'import MoPepGen.Driver.C10\n' + l + '\n', 1)
    elif l.strip().startswith('|') and l not in m:
        mm = re.match(r'\s*\| "(\w+)" :: args => (\S+) args', l)
        l2 = f'  | "{mm.group(1)}" :: args => (st, {mm.group(2)} args)' if mm else l
        if l2 not in m:
            m = m.replace('  | _ => (st, "bad-stream")', l2 + '\n  | _ => (st, "bad-stream")', 1)
open(f'{V}/lean/Main.lean', 'w').write(m)
r = open(f'{V}/lean/MoPepGen.lean').read()
for l in added('lean/MoPepGen.lean'):
    if l.startswith('import') and l not in r:
        r += l + '\n'
for f in new:
    mm = re.match(r'lean/(MoPepGen/.*)\.lean$', f)
    if mm:
        imp = 'import ' + mm.group(1).replace('/', '.')
        if imp not in r and 'Generated' not in imp:
            r += imp + '\n'
open(f'{V}/lean/MoPepGen.lean', 'w').write(r)
c = json.load(open(f'{V}/tools/claims.json')); w = json.load(open(f'{W}/tools/claims.json'))
for p in props:
    c['claimed'][p] = w['claimed'][p]
json.dump(c, open(f'{V}/tools/claims.json', 'w'), indent=1)
k = json.load(open(f'{V}/known_findings.json'))
have = {(x.get('property'), x.get('id')) for x in k}
for x in json.load(open(f'{W}/known_findings.json')):
    if x.get('property') in props and (x.get('property'), x.get('id')) not in have:
        k.append(x); print('finding', x.get('property'), x.get('id'))
json.dump(k, open(f'{V}/known_findings.json', 'w'), indent=1)
