#!/usr/bin/env python3
"""merge <out_dir>/suite_<L>.json (tools/confirm_suite.py) into seeded/<prop>_<L>/meta.json"""
import json, sys
out_dir, prop, letter = sys.argv[1:4]
m = f'/verif/seeded/{prop}_{letter}/meta.json'
d = json.load(open(m))
d['pinned_suite_with_change'] = json.load(open(f'{out_dir}/suite_{letter}.json'))
json.dump(d, open(m, 'w'), indent=1)
