"""C08 — callNovelORF equals the definitional ORF digest; ORF FASTA consistent."""
import argparse
import multiprocessing as mp
import random
import shutil
import traceback
from pathlib import Path

from . import common, gen_ref, pipe


KF_ORF = 'orf-fasta-lists-orfs-without-peptides'
KF_EXC = 'exception-context-split-across-nodes'


def worker(job):
    seed, tier = job
    rng = random.Random(seed)
    out = {'stats': {}, 'seed': seed, 'violations': []}
    case = gen_ref.Case(gen_ref.work_dir('c08'))
    try:
        with gen_ref.quiet():
            gen_ref.make_reference(case, seed, rng.choice([1, 2, 3, 4]))
            if rng.random() < 0.5:
                # GENCODE lines also carry a transcript_type, which may differ from the gene_type
                # (retained_intron isoform of a protein-coding gene …): the biotype filters of the
                # command look at the GENE biotype
                lines_ = open(case.gtf).read().split('\n')
                nc_ = sorted({[a.strip().split(' ')[1] for a in ln.split('\t')[8].split(';')
                               if a.strip().startswith('transcript_id')][0]
                              for ln in lines_ if '\ttranscript\t' in ln and 'is_protein_coding false' in ln})
                tt_ = {t: rng.choice(['retained_intron', 'processed_transcript', 'IG_V_gene', 'protein_coding',
                                      'lncRNA', 'misc_RNA']) for t in nc_ if rng.random() < 0.8}
                out_ = []
                for ln in lines_:
                    f = ln.split('\t')
                    if len(f) > 8:
                        t = [a.strip().split(' ')[1] for a in f[8].split(';') if a.strip().startswith('transcript_id')]
                        if t and t[0] in tt_ and f[2] != 'gene':
                            ln = ln + f' transcript_type {tt_[t[0]]};'
                    out_.append(ln)
                with open(case.gtf, 'wt') as fh:
                    fh.write('\n'.join(out_))
                if tt_:
                    out['stats']['transcript_type_differs_from_gene_type'] = len(
                        [t for t, v in tt_.items() if v != 'lncRNA'])
            genome, anno, proteome = gen_ref.load_reference(case)
        kw = dict(cleavage_rule='trypsin', cleavage_exception=rng.choice([None, None, 'auto']),
                  miscleavage=rng.choice([0, 1, 2, 2, 3, 3]), min_mw=rng.choice([300., 500., 800.]),
                  min_length=rng.choice([5, 7, 9]), max_length=rng.choice([15, 25, 40]))
        coding_orf = rng.random() < 0.35
        if coding_orf and kw['cleavage_exception'] is None and rng.random() < 0.7:
            # --coding-novel-orf re-derives the peptides of the annotated proteins: put the maximum
            # length exactly ONE BELOW an N-terminal cleavage product (with 0..miscleavage missed
            # sites, initiator Met included) of one of them — its Met-removed form then has exactly
            # the maximum length, is canonical, and must not be reported
            import re as _re
            prots = [str(v.seq) for k, v in proteome.items()
                     if str(v.seq).startswith('M') and k in anno.transcripts
                     and not anno.transcripts[k].is_cds_start_nf()]
            cands = []
            for pr in prots:
                pr = pr.split('*')[0]
                sites = [m.end() for m in _re.finditer(r'([KR](?=[^P]))|((?<=W)K(?=P))|((?<=M)R(?=P))', pr)]
                for e_ in (sites + [len(pr)])[:kw['miscleavage'] + 1]:
                    if 8 <= e_ - 1 <= 60:
                        cands.append(e_ - 1)
            if cands:
                kw['max_length'] = rng.choice(cands)
                out['stats']['max_length_one_below_an_n_terminal_product'] = 1
        args = gen_ref.call_variant_args(case, case.dir / 'orf.fasta', **kw)
        args.command = 'callNovelORF'
        args.min_tx_length = rng.choice([21, 21, 300, 900])
        args.orf_assignment = rng.choice(['max', 'min'])
        args.w2f_reassignment = rng.random() < 0.4
        args.coding_novel_orf = coding_orf
        incl = excl = None
        r = rng.random()
        if r < 0.2:
            incl = ['lncRNA']
        elif r < 0.3:
            incl = ['protein_coding']
        r = rng.random()
        if r < 0.2:
            excl = ['lncRNA']
        elif r < 0.3:
            excl = ['IG_V_gene']
        for nm, val in (('inclusion_biotypes', incl), ('exclusion_biotypes', excl)):
            if val is None:
                setattr(args, nm, None)
            else:
                p = case.dir / f'{nm}.txt'
                p.write_text('\n'.join(val) + '\n')
                setattr(args, nm, p)
        args.output_orf = case.dir / 'orf_seqs.fasta'
        from moPepGen.cli.call_novel_orf import call_novel_orf_peptide
        if rng.random() < 0.5:
            # CANONICAL COLLISIONS: a preliminary run tells which peptides the command reports; a
            # few of them (a plain one, and the W>F image of a two-tryptophan one in its FIRST
            # tryptophan) are then made canonical by synthetic proteome entries — they must vanish
            # from the real output and nothing else may
            pre = argparse.Namespace(**vars(args))
            pre.output_path = case.dir / 'pre.fasta'
            pre.output_orf = None
            try:
                with gen_ref.quiet():
                    call_novel_orf_peptide(pre)
                got = sorted(gen_ref.read_fasta(pre.output_path).keys())
            except BaseException as e:   # noqa
                if isinstance(e, KeyboardInterrupt):
                    raise
                got = []
            picks = []
            ww = [q for q in got if q.count('W') >= 2]
            if ww:
                q = rng.choice(ww)
                i = q.index('W')
                picks.append(q[:i] + 'F' + q[i + 1:])
            if got:
                picks.append(rng.choice(got))
            if picks:
                with open(case.proteome, 'at') as fh:
                    for n_, q in enumerate(picks):
                        fh.write(f'>COLLP{n_}|COLLT{n_}|COLLG{n_}|XXX\nMAGGSK{q}\n')
                out['stats']['canonical_collision_inputs'] = 1
                out['stats']['canonical_collisions'] = len(picks)
        # "canonical" is judged by the digest MODEL of C10 (Lean peptidePool on the proteome text and
        # the cds_start_NF flags), not by the pool the code under test builds
        canon = pipe.lean_canonical_pool(case, **kw)
        if canon is None:
            out['stats']['lean_pool_unavailable'] = 1
            canon = pipe.canonical_pool(case, **kw)
        else:
            out['stats']['lean_pool_inputs'] = 1
        status = 'ok'
        try:
            with gen_ref.quiet():
                call_novel_orf_peptide(args)
        except BaseException as e:   # noqa
            if isinstance(e, KeyboardInterrupt):
                raise
            status = f'crash:{type(e).__name__}: {str(e)[:200]}'
        desc = {'seed': seed, 'kw': kw, 'min_tx_length': args.min_tx_length,
                'orf_assignment': args.orf_assignment, 'w2f': args.w2f_reassignment,
                'coding_novel_orf': args.coding_novel_orf, 'inclusion': incl, 'exclusion': excl}
        out['desc'] = desc
        if status != 'ok':
            out['stats']['crash'] = 1
            out['violations'].append((f'callNovelORF crashed on a valid reference: {status}', desc))
            return out
        fasta = gen_ref.read_fasta(args.output_path)
        orfs = gen_ref.read_fasta(args.output_orf)
        # --- selection per the property text (harness' own reading)
        default_excl = None
        if excl is None:
            import pkg_resources
            pth = pkg_resources.resource_filename('moPepGen', 'data/gencode_hs_exclusion_list.txt')
            default_excl = [l.rstrip() for l in open(pth)]
        ex = excl if excl is not None else default_excl
        lines, txs, lines_b = [], [], []
        exc = kw['cleavage_exception']
        exc = 'trypsin_exception' if exc == 'auto' else exc
        for tx_id, m in anno.transcripts.items():
            coding = bool(m.is_protein_coding)
            bt = 'protein_coding' if coding else 'lncRNA'
            if coding:
                sel = args.coding_novel_orf
            else:
                sel = ((not incl or bt in incl) and not (ex and bt in ex)
                       and tx_id not in proteome and m.transcript_len() >= args.min_tx_length)
            out['stats']['tx_selected' if sel else 'tx_not_selected'] = \
                out['stats'].get('tx_selected' if sel else 'tx_not_selected', 0) + 1
            if not sel:
                continue
            seq = str(m.get_transcript_sequence(genome[m.transcript.chrom]).seq)
            txs.append((tx_id, seq))
            def ln(e):
                return '\t'.join(['S', 'novelorf', seq, kw['cleavage_rule'], e or '-',
                                  str(kw['miscleavage']), str(pipe.mw_int(kw['min_mw'])),
                                  str(kw['min_length']), str(kw['max_length']),
                                  '1' if args.w2f_reassignment else '0', ','.join(sorted(canon))])
            lines.append(ln(exc))
            if exc:
                lines_b.append(ln(None))
        out['lines'] = lines
        out['lines_b'] = lines_b
        out['txs'] = [t for t, _ in txs]
        out['real'] = sorted(fasta.keys())
        out['stats']['runs'] = 1
        out['stats']['real_peptides'] = len(fasta)
        # --- ORF FASTA consistency (direct)
        from Bio.Seq import Seq
        seqs = dict(txs)
        orf_ids = set()
        for oseq, hdrs in orfs.items():
            for h in hdrs:
                parts = h.split('|')
                if len(parts) != 4:
                    out['violations'].append((f'malformed ORF header {h}', desc))
                    continue
                tx, gene, oid, span = parts
                a, b = [int(x) for x in span.split('-')]
                orf_ids.add((tx, oid))
                if tx not in seqs:
                    out['violations'].append((f'ORF {h} belongs to a transcript that is not selected', desc))
                    continue
                tr = str(Seq(seqs[tx][a:b]).translate())
                if tr != oseq or not tr.startswith('M'):
                    out['violations'].append((
                        f'ORF FASTA entry {h}: coordinates {a}-{b} translate to {tr[:30]}… not to the '
                        f'listed sequence {oseq[:30]}…', desc))
        used = set()
        for pseq, hdrs in fasta.items():
            for h in hdrs:
                for e in h.split(' '):
                    parts = e.split('|')
                    oid = [x for x in parts if x.startswith('ORF')]
                    if oid:
                        used.add((parts[0], oid[0]))
        if used - orf_ids:
            out['violations'].append((f'peptides are attributed to ORFs missing from the ORF FASTA: '
                                      f'{sorted(used - orf_ids)[:3]}', desc))
        if orf_ids - used:
            out['violations'].append((f'the ORF FASTA lists ORFs no peptide is attributed to: '
                                      f'{sorted(orf_ids - used)[:3]}', desc))
        return out
    except Exception:   # noqa
        out['stats']['worker_error'] = 1
        out['error'] = traceback.format_exc()[-1500:]
        return out
    finally:
        case.cleanup()


def run(ctx: common.Ctx):
    ctx.coverage['rule'] = (
        'references from moPepGen.fake with 1-4 genes (coding and lncRNA, both strands); options '
        'grid: miscleavage, limits, exception, orf-assignment, w2f, coding-novel-orf, biotype '
        'inclusion/exclusion files, min-tx-length; real callNovelORF peptide set must EQUAL the union '
        'over the selected transcripts of Spec.novelOrfPeptides (Lean driver); ORF FASTA entries '
        'must translate to their sequence and match the ORFs named in peptide headers. '
        'non-trivial = >= 1 peptide reported or expected')
    n = ctx.n(150, 3000)
    jobs = [(ctx.rng('job', i).randrange(1 << 30), ctx.tier) for i in range(n)]
    with mp.get_context('fork').Pool(14) as pool:
        res = pool.map(worker, jobs)
    stats = {}
    for r in res:
        for k, v in r['stats'].items():
            stats[k] = stats.get(k, 0) + v
        for what, d in r['violations'][:2]:
            key = KF_ORF if what.startswith('the ORF FASTA lists ORFs no peptide') else None
            ctx.add_violation(what, d, finding_key=key)
    ctx.coverage['worker_stats'] = stats
    errs = [r['error'] for r in res if 'error' in r]
    if errs:
        ctx.coverage['worker_errors'] = errs[:3]
    done = [r for r in res if 'lines' in r]
    lines, idx = [], []
    for i, r in enumerate(done):
        for ln in r['lines']:
            lines.append(ln)
            idx.append((i, 'A'))
        for ln in r['lines_b']:
            lines.append(ln)
            idx.append((i, 'B'))
    outs = ctx.lean(lines)
    if outs is None:
        ctx.add_broken('correspondence', 'novelorf', 'native driver unavailable')
        outs = [''] * len(lines)
    spec = [set() for _ in done]
    spec_b = [set() for _ in done]
    for (i, which), o in zip(idx, outs):
        if o:
            (spec if which == 'A' else spec_b)[i] |= set(o.split(','))
    for r, S, SB in zip(done, spec, spec_b):
        real = set(r['real'])
        if r['lines_b']:
            # known finding shared with callVariant: cleavage-exception context lost at node
            # boundaries; tolerated only between the two readings of the exception
            core_missing = (S & SB) - real
            bad_extra = real - (S | SB)
            if not core_missing and not bad_extra and real != S:
                ctx.evaluated('novelorf', str(r['seed']), True, None)
                ctx.add_violation('callNovelORF: cleavage-exception context split across graph nodes: '
                                  f'missing {sorted(S - real)[:3]}, unexpected {sorted(real - S)[:3]}',
                                  dict(r['desc'], transcripts=r['txs']), finding_key=KF_EXC)
                continue
        ctx.evaluated('novelorf', str(r['seed']), bool(real or S),
                      dict(r['desc'], transcripts=r['txs'], n_expected=len(S), n_reported=len(real)))
        if real != S and ctx.driver_ok:
            ctx.add_violation(
                f'callNovelORF output differs from the definitional ORF digest: missing '
                f'{sorted(S - real)[:3]} ({len(S - real)}), unexpected {sorted(real - S)[:3]} ({len(real - S)})',
                dict(r['desc'], transcripts=r['txs'], missing=sorted(S - real)[:20],
                     unexpected=sorted(real - S)[:20]))
    shutil.rmtree(gen_ref.WORK, ignore_errors=True)
    ctx.assumptions += ['PARTIAL: the unknown-ORF traversal is not modelled; equality with the definition '
                        'is decided per generated reference',
                        'biotypes of the generated references are protein_coding / lncRNA only']
