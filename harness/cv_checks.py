"""Runs the callVariant differential (cv_explore workers) and evaluates the Lean
definition on every case; shared by C01, C02, C03, C05."""
from __future__ import annotations
import json
import multiprocessing as mp
import os
import shutil
from typing import Dict, List, Optional, Set

from . import common, gen_ref, cv_explore

KF_EXC = 'exception-context-split-across-nodes'
KF_NOLA = 'no-lookahead-enzyme-crash'
KF_WIDE = 'wide-lookahead-rule-context-split'
KF_NESTED = 'record-inside-splicing-insertion'
KF_NESTED_EDGE = 'record-on-edge-of-inserted-stretch'


def has_nested(r: dict) -> bool:
    """the input has a small record inside the stretch an alternative-splicing Insertion /
    Substitution record inserts"""
    return bool(r.get('stats', {}).get('with_nested_in_splicing_insertion'))


def has_edge_nested(r: dict) -> bool:
    """the input has a small record inside the stretch a splicing Insertion / Substitution inserts
    whose first base is the first inserted base or whose last base is the last inserted base"""
    return bool(r.get('stats', {}).get('with_record_on_edge_of_inserted_stretch'))


def rule_tables():
    man = json.load(open(os.path.join(common.LEAN_DIR, 'MoPepGen', 'Generated', 'manifest.json')))
    return man['Expasy.lean']['meta']['rules']


def enzymes_all() -> List[str]:
    return [n for n in rule_tables() if n != 'trypsin_exception']


def has_lookahead(enzyme: str) -> bool:
    return '(?=' in rule_tables()[enzyme]


def wide_lookahead(enzyme: str) -> bool:
    """some alternative of the rule looks ahead two or more residues (from the regenerated
    rule table): pepsin ph1.3, pepsin ph2.0, thrombin"""
    import re as _re
    for m in _re.finditer(r'\(\?=([^)]*)\)', rule_tables()[enzyme]):
        body = m.group(1)
        n = len(_re.findall(r'\[[^\]]*\]|\\w|[A-Z]', body))
        if n >= 2:
            return True
    return False


def to_set(s: str) -> Set[str]:
    return set(s.split(',')) if s else set()


def explore(ctx: common.Ctx, n_jobs: int, opts: dict, procs: int = 14) -> List[dict]:
    """run the workers, then the Lean definition on every completed case; each result gets
    'S_A' (definition with the requested exception), 'S_B' (exception ignored; = S_A when none)
    and 'witness_no' (entries the Lean witness check rejects)."""
    jobs = [(ctx.rng('cvjob', i).randrange(1 << 30), ctx.tier, opts) for i in range(n_jobs)]
    with mp.get_context('fork').Pool(min(procs, max(1, n_jobs))) as pool:
        res = pool.map(cv_explore.cv_worker, jobs)
    for r_, j_ in zip(res, jobs):
        r_['_job'] = ('cv', j_)
    stats: Dict[str, int] = {}
    errors = []
    for r in res:
        for k, v in r['stats'].items():
            stats[k] = stats.get(k, 0) + v
        if 'error' in r:
            errors.append(r['error'])
    ctx.coverage['worker_stats'] = stats
    if errors:
        ctx.coverage['worker_errors'] = errors[:3]
        ctx.notes.append(f'{len(errors)} worker(s) hit a harness error (cases not counted)')
    done = [r for r in res if 'line_A' in r]
    # ---- Lean: definition
    lines, idx = [], []
    for i, r in enumerate(done):
        lines.append(r['line_A'])
        idx.append((i, 'S_A'))
        if r['line_B']:
            lines.append(r['line_B'])
            idx.append((i, 'S_B'))
        for j, v in enumerate(r.get('variations', [])):
            if v.get('line_A'):
                lines.append(v['line_A'])
                idx.append((i, ('var', j)))
    outs = ctx.lean(lines)
    if outs is None:
        ctx.add_broken('correspondence', 'cv', 'native driver unavailable: Spec.callVariant not evaluated')
        outs = [''] * len(lines)
        for r in done:
            r['no_spec'] = True
    for (i, key), o in zip(idx, outs):
        if isinstance(key, tuple):
            done[i]['variations'][key[1]]['S_A'] = to_set(o)
        else:
            done[i][key] = to_set(o)
    for r in done:
        r.setdefault('S_B', r.get('S_A', set()))
        r['real_set'] = set(r['real'])
    # ---- Lean: Layer G checkpoints on the graphs the real run built
    glines, gidx = [], []
    for i, r in enumerate(done):
        for st, ln, npaths in r.get('cp', []):
            if ln is None:
                stats['cp_skipped_too_many_paths'] = stats.get('cp_skipped_too_many_paths', 0) + 1
                continue
            glines.append(ln)
            gidx.append((i, st, npaths))
    if glines:
        gouts = ctx.lean(glines)
        for r in done:
            r['cp_res'] = []
        if gouts is None:
            ctx.add_broken('correspondence', 'G', 'native driver unavailable: checkpoints not evaluated')
        else:
            for (i, st, npaths), o in zip(gidx, gouts):
                done[i]['cp_res'].append((st, npaths, o))
    # ---- Lean: witnesses (stateful: set, then w…)
    if opts.get('witness', False):
        wlines, widx = [], []
        for i, r in enumerate(done):
            ws = [w for w in r['witness'] if w[0]]
            if not ws:
                continue
            wlines.append(r['set_line'])
            widx.append(None)
            for w in ws:
                if len(w) > 4 and w[4]:
                    wlines.append(w[4])
                    widx.append(None)
                wlines.append(w[0])
                widx.append((i, w))
                if len(w) > 4 and w[4]:
                    wlines.append(r['set_line'])
                    widx.append(None)
        wouts = ctx.lean(wlines) or []
        for r in done:
            r['witness_no'] = [w for w in r['witness'] if w[0] is None]
            r['witness_checked'] = 0
        for k, o in zip(widx, wouts):
            if k is None:
                continue
            i, w = k
            done[i]['witness_checked'] += 1
            if o != 'yes':
                done[i]['witness_no'].append(w)
        # how do the rejected entries fail?  (smallest completion of the named ids)
        clines, cidx = [], []
        for i, r in enumerate(done):
            bad = [w for w in r.get('witness_no', []) if w[0]]
            if not bad:
                continue
            clines.append(r['set_line'])
            cidx.append(None)
            for w in bad[:6]:
                if len(w) > 4 and w[4]:
                    clines.append(w[4])
                    cidx.append(None)
                clines.append(w[0].replace('\tw\t', '\twsup\t', 1))
                cidx.append((i, w))
                if len(w) > 4 and w[4]:
                    clines.append(r['set_line'])
                    cidx.append(None)
        couts = ctx.lean(clines) or []
        for r in done:
            r['witness_completion'] = {}
        for k, o in zip(cidx, couts):
            if k is not None:
                done[k[0]]['witness_completion'][k[1][2]] = o
        # an entry for which NO completion exists: is a proper sub-collection of the named
        # records a witness (the label unions records of mutually exclusive alternatives)?
        import itertools as _it
        slines, sidx = [], []
        for i, r in enumerate(done):
            todo = [w for w in r.get('witness_no', []) if w[0]
                    and not r['witness_completion'].get(w[2], 'none').startswith('extra:')]
            if not todo:
                continue
            slines.append(r['set_line'])
            sidx.append(None)
            for w in todo[:6]:
                f = w[0].split('\t')
                ids = [x for x in f[4].split(',') if x]
                if not (2 <= len(ids) <= 6):
                    continue
                for k in range(len(ids) - 1, 0, -1):
                    for sub in _it.combinations(ids, k):
                        slines.append('\t'.join(f[:4] + [','.join(sub), f[5]]))
                        sidx.append((i, w, sub))
        souts = ctx.lean(slines) or []
        for r in done:
            r['subset_witness'] = {}
        for k, o in zip(sidx, souts):
            if k is not None and o == 'yes':
                done[k[0]]['subset_witness'].setdefault(k[1][2], list(k[2]))
        # does an omitted record lie inside the stretch encoding the peptide?
        ilines, iidx = [], []
        for i, r in enumerate(done):
            todo = [(w, r['witness_completion'].get(w[2], '')) for w in r.get('witness_no', []) if w[0]]
            todo = [(w, c) for w, c in todo if c.startswith('extra:') and c != 'extra:']
            if not todo:
                continue
            ilines.append(r['set_line'])
            iidx.append(None)
            for w, c in todo:
                f = w[0].split('\t')
                ilines.append('\t'.join(['S', 'winside', f[4], c[6:], f[5]]))
                iidx.append((i, w))
        iouts = ctx.lean(ilines) or []
        for r in done:
            r['omitted_inside'] = {}
        for k, o in zip(iidx, iouts):
            if k is not None:
                done[k[0]]['omitted_inside'][k[1][2]] = o
    shutil.rmtree(gen_ref.WORK, ignore_errors=True)
    return res


def judge_checkpoints(ctx: common.Ctx, res: List[dict], side: str):
    """Layer G.  `side` = 'missing' (C01: the graph lost a sequence / a required cut) or
    'extra' (C02: the graph denotes a sequence no combination yields).  A failed checkpoint is
    a broken correspondence (an internal representation changed or a stage went wrong), not a
    violation by itself: the end-to-end differential on the same input is the failing-input
    search."""
    import re as _re
    nbad = 0
    for r in res:
        for st, npaths, o in r.get('cp_res', []):
            enz = r['desc']['kw']['cleavage_rule']
            ctx.evaluated('G-' + st, f"{r['seed']}", npaths > 3, None)
            ctx.count('G-' + st, 'paths', npaths)
            if o == 'ok':
                continue
            m = _re.match(r'bad:(\w+) f=(\d)(?: extra=(\d+) missing=(\d+))?', o)
            kind = m.group(1) if m else 'other'
            extra = int(m.group(3) or 0) if m else 0
            missing = int(m.group(4) or 0) if m else 0
            if has_nested(r) and has_edge_nested(r) and side == 'missing' and kind == 'lang' \
                    and extra == 0 and missing > 0:
                # open finding record-on-edge-of-inserted-stretch: a record on the first / last base
                # of the inserted stretch is never applied, so already the graph after
                # create_variant_graph lacks its sequences (nothing the definition lacks is present)
                ctx.count('G-' + st, 'failed_known_nested_edge')
                ctx.add_violation(f'Layer G checkpoint {st} fails on an input with a record on the edge of '
                                  f'the stretch a splicing record inserts: {o[:200]}', describe(r),
                                  finding_key=KF_NESTED_EDGE)
                continue
            if has_nested(r) and st != 'tvg1':
                # known finding record-inside-splicing-insertion: create_variant_graph builds the
                # right graph (tvg1 is asserted), fit_into_codons loses / truncates paths
                ctx.count('G-' + st, 'failed_known_nested')
                ctx.add_violation(f'Layer G checkpoint {st} fails on an input with a record inside a '
                                  f'splicing insertion: {o[:200]}', describe(r), finding_key=KF_NESTED)
                continue
            if kind == 'cuts' and wide_lookahead(enz):
                # known finding wide-lookahead-rule-context-split: sites are decided on node
                # fragments for these three enzymes; the cut checkpoint is not asserted for them
                ctx.count('G-' + st, 'cuts_not_asserted_wide_lookahead')
                continue
            relevant = (side == 'missing' and (missing > 0 or kind in ('cuts', 'other'))) or \
                       (side == 'extra' and (extra > 0 or kind in ('codons', 'labels', 'other')))
            if not relevant:
                continue
            nbad += 1
            ctx.count('G-' + st, 'failed')
            if nbad <= 3:
                ctx.add_broken('correspondence', f'G:{st}',
                               json.dumps({'verdict': o, 'case': describe(r)}, default=str)[:2500])
    return nbad


def judge_tvgbuild(ctx: common.Ctx, res: List[dict], stream: str = 'G-tvgbuild') -> int:
    """Layer G, function level: the graph the real `create_variant_graph` built (dumped by the
    stage wrapper) against the graph of the Lean model `Tvg.createVariantGraph` on the same
    transcript and records, both in canonical form (structural equality up to node renaming).
    INTERNAL stream: a diff is a broken correspondence (model and code disagree), not a
    violation; the end-to-end differential on the same input is the failing-input search."""
    cases = []
    for r in res:
        tb = r.get('tvgbuild')
        if tb:
            cases.append((tb[0], tb[1], r))
        elif r.get('stats', {}).get('tvgbuild_skipped_not_small_records'):
            ctx.count(stream, 'skipped_not_only_small_records')
    if not cases:
        return 0

    def nontrivial(real: str) -> bool:
        return ':v' in real

    nd = ctx.diff_stream(stream, cases, False, describe, nontrivial,
                         'create_variant_graph: real graph differs from the function-level model')
    ctx.count(stream, 'compared', len(cases))
    ctx.count(stream, 'with_frameshift_bridge',
              sum(1 for _l, real, _r in cases
                  if any(e.endswith(':e') and e.split('>')[0][0] != e.split('>')[1][0]
                         for e in real.split('|E=')[1].split(';') if e)))
    return nd


def judge_tvglang(ctx: common.Ctx, res: List[dict], stream: str = 'G-tvglang') -> int:
    """Layer G, function level, path language: the record lists of ALL maximal paths of the graph
    the real `create_variant_graph` built (enumerated by walking the dump, per frame active from
    the start) against `Tvg.attachedSubs` of the Lean model's graph on the same transcript and
    records — the list that `Props.C01.tvg_attached_subs_spec` proves to be the record lists of
    the maximal paths and `tvg_create_variant_graph_attached_subs` proves to be every strictly
    separated combination.  INTERNAL stream (a diff is a broken correspondence)."""
    cases = []
    for r in res:
        tl = r.get('tvglang')
        if tl:
            if tl[1].startswith('skip:'):
                ctx.count(stream, 'skipped_' + tl[1][5:].replace('-', '_'))
            else:
                cases.append((tl[0], tl[1], r))
    if not cases:
        return 0

    def nontrivial(real: str) -> bool:
        return '|' in real          # some path takes two or more records

    nd = ctx.diff_stream(stream, cases, False, describe, nontrivial,
                         'create_variant_graph: the maximal paths of the real graph differ from attachedSubs of the model')
    ctx.count(stream, 'compared', len(cases))
    ctx.count(stream, 'record_lists', sum(real.count(',') + real.count('=') for _l, real, _r in cases))
    ctx.count(stream, 'single_frame_cases', sum(1 for _l, real, _r in cases if real.count(';') == 1))
    ctx.count(stream, 'pool_input_ok', sum(1 for _l, real, _r in cases if real.startswith('in=1;')))
    return nd


def judge_translate(ctx: common.Ctx, res: List[dict], stream: str = 'G-translate') -> int:
    """Layer G, function level, third stage: the peptide graph the real `ThreeFrameTVG.translate`
    returned (snapshot taken by the stage wrapper before create_cleavage_graph; nodes named by the
    input node they were translated from) against `Translate.translateGraph` of the Lean model run
    on the dump of the graph the real call found, both in canonical form.  INTERNAL stream: a diff is
    a broken correspondence (model and code disagree), not a violation."""
    cases = [(r['translate'][0], r['translate'][1], r) for r in res if r.get('translate')]
    if not cases:
        return 0

    def nontrivial(real: str) -> bool:
        # some node carries a variant (`ids.start.stop.off.off` in the variant field)
        return any(len(n.split(':')) > 4 and n.split(':')[4] for n in real.split('|E=')[0].split(';'))

    nd = ctx.diff_stream(stream, cases, False, describe, nontrivial,
                         'translate: real peptide graph differs from the function-level model')
    ctx.count(stream, 'compared', len(cases))
    from . import graph_stages as _gs
    for _l, real, _r in cases:
        for k_, v_ in _gs.translate_flags(real).items():
            if v_:
                ctx.count(stream, k_)
    ctx.count(stream, 'pvg_nodes', sum(real.split('|E=')[0].count(';') + 1 for _l, real, _r in cases))
    return nd


def describe(r: dict) -> dict:
    d = dict(r.get('desc', {}))
    d.pop('tx_seq', None)
    return d


def replay_of(r: dict, **extra) -> dict:
    d = dict(r.get('desc', {}))
    d['spec_protocol_line'] = r.get('line_A', '')[:200000]
    d.update(extra)
    return d


KF_CIRC = 'circ-copies-carry-different-variant-sets'
KF_FUSION_FS = 'frameshifts-in-both-retained-stretches-of-fusion'


def cv_backbone_vars_at() -> int:
    from . import cv_backbone
    return cv_backbone.CVB_VARS_AT


def fusion_both_fs_missing(ctx: common.Ctx, r: dict, missing: Set[str]) -> Set[str]:
    """open finding frameshifts-in-both-retained-stretches-of-fusion.  The input must carry the
    structural signature (cv_backbone.fusion_backbone: a frameshifting record inside the LEFT retained
    stretch and a frameshifting record inside the RIGHT retained stretch); a missing peptide is
    attributed to the finding only when it NEEDS a frameshifting record of both stretches: it is in no
    per-transcript set, and in neither of the backbone sets the Lean definition gives without the
    left-stretch frameshifting records / without the right-stretch ones.  Returns the attributed
    peptides (any other missing peptide stays a violation)."""
    bf = r.get('both_fs')
    if not bf or not missing or 'cvb' not in r or bf['vf_no_left_fs'] is None or bf['vf_no_right_fs'] is None:
        return set()
    lines = []
    for vf in (bf['vf_no_left_fs'], bf['vf_no_right_fs']):
        a = list(r['cvb'])
        a[cv_backbone_vars_at()] = vf
        lines.append('\t'.join(a + [r['deny'], r['canon']]))
    outs = ctx.lean(lines)
    if not outs or len(outs) != 2:
        return set()
    rest = to_set(outs[0]) | to_set(outs[1]) | r.get('S_main', set())
    return {p for p in missing if p not in rest}


def fusion_both_fs_extra(r: dict, extra: Set[str]) -> Set[str]:
    """the other direction of the same finding (the garbled paths also spell sequences no combination
    yields): a reported peptide outside the definition is attributed only when the input carries the
    structural signature and EVERY header entry of the peptide is an entry of the fusion that names a
    record at or behind the first frameshifting record of the right stretch"""
    bf = r.get('both_fs')
    if not bf or not extra:
        return set()
    out = set()
    for p in extra:
        # an entry reads <fusion id>|<k>-<record id>|…|<counter>
        ents = [e.split('|') for h in r['headers'].get(p, []) for e in h.split(' ')]
        if ents and all(e[0] == r['desc']['fusion'] and
                        any(x.endswith('-' + i) for x in e[1:] for i in bf['behind']) for e in ents):
            out.add(p)
    return out


KF_NONDET = 'run-to-run-nondeterminism'


def _rerun_one(wj):
    from . import cv_backbone
    which, job = wj
    worker = {'cv': cv_explore.cv_worker, 'fusion': cv_backbone.fusion_worker,
              'circ': cv_backbone.circ_worker, 'combo': cv_backbone.combo_worker}[which]
    r = worker(job)
    return sorted(r.get('real', []))


def unstable_output(r: dict, times: int = 6) -> Optional[List[int]]:
    """the SAME generated input (same worker seed, same interpreter hash seed) is run `times` more
    times in fresh worker processes: the sizes of the distinct peptide sets when they are not all
    equal to the first run's set (the command's output then varies from run to run), else None"""
    if '_job' not in r:
        return None
    with mp.get_context('fork').Pool(min(times, 6)) as pool:
        outs = pool.map(_rerun_one, [r['_job']] * times)
    first = sorted(r.get('real', []))
    distinct = {tuple(o) for o in outs} | {tuple(first)}
    if len(distinct) > 1:
        return sorted(len(d) for d in distinct)
    return None


def relation_flaky(worker, job, holds, times: int = 4) -> bool:
    """a metamorphic relation failed on the runs of `worker(job)`: the same job is run `times` more
    times (same generated input, same interpreter hash seed); True when the relation HOLDS in at
    least one of them — the failure then comes from the run-to-run variation of the command's output
    (open finding run-to-run-nondeterminism), not from the relation"""
    with mp.get_context('fork').Pool(min(times, 4)) as pool:
        outs = pool.map(worker, [job] * times)
    for o in outs:
        try:
            if holds(o):
                return True
        except Exception:   # noqa
            continue
    return False


def explore_backbone(ctx: common.Ctx, kind: str, n_jobs: int, opts: dict, procs: int = 14,
                     extra_seeds=()):
    """fusion / circRNA inputs: real FASTA vs the union of the per-transcript sets and the Lean
    backbone set.  Each completed result gets 'S' and 'real_set' (+ 'S_mixed' for circRNA cases
    that disagree).  `extra_seeds`: fixed worker seeds appended to the drawn ones (witness inputs of
    open findings, so that every run exercises their classification)."""
    from . import cv_backbone
    worker = {'fusion': cv_backbone.fusion_worker, 'circ': cv_backbone.circ_worker,
              'combo': cv_backbone.combo_worker}[kind]
    ops = {'fusion': ['cvb'], 'circ': ['cvc'], 'combo': ['cvb', 'cvc']}[kind]
    jobs = [(ctx.rng(kind + 'job', i).randrange(1 << 30), ctx.tier, opts) for i in range(n_jobs)]
    jobs += [(int(s_), ctx.tier, opts) for s_ in extra_seeds]
    with mp.get_context('fork').Pool(min(procs, max(1, n_jobs))) as pool:
        res = pool.map(worker, jobs)
    for r_, j_ in zip(res, jobs):
        r_['_job'] = (kind, j_)
    stats: Dict[str, int] = {}
    for r in res:
        for k, v in r['stats'].items():
            stats[k] = stats.get(k, 0) + v
    ctx.coverage.setdefault('worker_stats_backbone', {})[kind] = stats
    errs = [r['error'] for r in res if 'error' in r]
    if errs:
        ctx.coverage['worker_errors'] = errs[:3]
    done = [r for r in res if 'lines' in r]
    # pass 1: per-transcript sets and the donor/host reference peptides
    lines, idx = [], []
    for i, r in enumerate(done):
        for k, ln in r['lines']:
            lines.append(ln)
            idx.append((i, k))
    outs = ctx.lean(lines)
    if outs is None:
        ctx.add_broken('correspondence', kind, 'native driver unavailable')
        return res
    for r in done:
        r['S'] = set()
        r['S_main'] = set()
        r['deny'] = ''
    for (i, k), o in zip(idx, outs):
        if k == 'main':
            done[i]['S'] |= to_set(o)
            done[i]['S_main'] |= to_set(o)
        else:
            done[i]['deny'] = o
    # pass 2: the backbone
    lines, idx = [], []
    for i, r in enumerate(done):
        for op in ops:
            if op in r:
                lines.append('\t'.join(r[op] + [r['deny'], r['canon']]))
                idx.append(i)
    outs = ctx.lean(lines) or []
    for i, o in zip(idx, outs):
        done[i]['S'] |= to_set(o)
    for r in done:
        r['real_set'] = set(r['real'])
    if kind in ('circ', 'combo'):
        op = 'cvc'
        lines, idx = [], []
        for i, r in enumerate(done):
            # the classification set is cubic in the number of combinations: small cases only
            nv = len([x for x in r[op][3].split(';') if x]) if op in r else 0
            if r['real_set'] != r['S'] and op in r and nv <= 3 and len(lines) < 8:
                a = list(r[op])
                a[1] = 'cvcm'
                lines.append('\t'.join(a + [r['deny'], r['canon']]))
                idx.append(i)
        # (classification only: at most 8 cases, 5 minutes — what stays unclassified is reported)
        outs = ctx.lean(lines, timeout=300, soft=True) or []
        for i, o in zip(idx, outs):
            done[i]['S_mixed'] = to_set(o) | done[i]['S']
    shutil.rmtree(gen_ref.WORK, ignore_errors=True)
    return res


def circ_same_site_stream(ctx: common.Ctx, n_jobs: int, procs: int = 14):
    """two records at one nucleotide inside a small circRNA (cv_backbone.circ_same_site_worker): adding
    the second record only adds peptides"""
    from . import cv_backbone
    jobs = [(ctx.rng('csame', i).randrange(1 << 30), ctx.tier, {}) for i in range(n_jobs)]
    with mp.get_context('fork').Pool(min(procs, max(1, n_jobs))) as pool:
        res = pool.map(cv_backbone.circ_same_site_worker, jobs)
    st = ctx.coverage.setdefault('circ_same_site_stats', {})
    for r in res:
        for k, v in r.get('stats', {}).items():
            st[k] = st.get(k, 0) + v
        if 'runs' not in r:
            continue
        x, y, xy = (set(r['runs'][k]['real']) for k in ('x', 'y', 'xy'))
        ctx.evaluated('two-records-one-site-in-circRNA', str(r['seed']), bool(xy), r['desc'])
        if any(r['runs'][k]['status'] != 'ok' for k in ('x', 'y', 'xy')):
            if r['runs']['x']['status'] == 'ok' and r['runs']['y']['status'] == 'ok':
                ctx.add_violation(f'callVariant fails ({r["runs"]["xy"]["status"]}) with two records at one site of a '
                                  'circRNA', dict(r['desc'], kind='circ-same-site'))
            continue
        lost = (x | y) - xy
        if lost:
            def _ok(o):
                return not ((set(o['runs']['x']['real']) | set(o['runs']['y']['real'])) - set(o['runs']['xy']['real']))
            flaky = relation_flaky(cv_backbone.circ_same_site_worker, jobs[res.index(r)], _ok)
            ctx.add_violation(f'{len(lost)} peptide(s) reported for a circRNA with ONE record at a site are missing '
                              f'when a second record at the same nucleotide is supplied as well, e.g. {sorted(lost)[:3]}',
                              dict(r['desc'], kind='circ-same-site', lost=sorted(lost)[:20]),
                              finding_key=KF_NONDET if flaky else None)
    shutil.rmtree(gen_ref.WORK, ignore_errors=True)


def fusion_dense_stream(ctx: common.Ctx, n_jobs: int, procs: int = 14):
    """a cluster of 6-7 SNVs inside a fusion's accepter part (cv_backbone.fusion_dense_worker): adding
    the last SNV only adds peptides"""
    from . import cv_backbone
    jobs = [(ctx.rng('fdense', i).randrange(1 << 30), ctx.tier, {}) for i in range(n_jobs)]
    with mp.get_context('fork').Pool(min(procs, max(1, n_jobs))) as pool:
        res = pool.map(cv_backbone.fusion_dense_worker, jobs)
    st = ctx.coverage.setdefault('fusion_dense_stats', {})
    for r in res:
        for k, v in r.get('stats', {}).items():
            st[k] = st.get(k, 0) + v
        if 'runs' not in r:
            continue
        a, b = set(r['runs']['fewer']['real']), set(r['runs']['all']['real'])
        ctx.evaluated('dense-cluster-in-fusion', str(r['seed']), bool(b - a), r['desc'])
        if r['runs']['fewer']['status'] != 'ok' or r['runs']['all']['status'] != 'ok':
            if r['runs']['fewer']['status'] == 'ok':
                ctx.add_violation(f'callVariant fails ({r["runs"]["all"]["status"]}) when one more SNV is added to a '
                                  'cluster inside a fusion', dict(r['desc'], kind='dense-in-fusion'))
            continue
        lost = a - b
        if lost:
            def _ok(o):
                return not (set(o['runs']['fewer']['real']) - set(o['runs']['all']['real']))
            flaky = relation_flaky(cv_backbone.fusion_dense_worker, jobs[res.index(r)], _ok)
            ctx.add_violation(f'adding the SNV {r["desc"]["snvs"][-1]} to a cluster of {len(r["desc"]["snvs"]) - 1} SNVs '
                              f'inside the accepter part of a fusion removed {len(lost)} peptide(s), e.g. '
                              f'{sorted(lost)[:3]}', dict(r['desc'], kind='dense-in-fusion', lost=sorted(lost)[:20]),
                              finding_key=KF_NONDET if flaky else None)
    shutil.rmtree(gen_ref.WORK, ignore_errors=True)


def circ_dup_stream(ctx: common.Ctx, n_jobs: int, procs: int = 14):
    """the same circRNA record in two GVF files (cv_backbone.circ_dup_worker): entry strings stay
    unique, the peptide set is that of the file given once"""
    from . import cv_backbone
    jobs = [(ctx.rng('circdup', i).randrange(1 << 30), ctx.tier, {}) for i in range(n_jobs)]
    with mp.get_context('fork').Pool(min(procs, max(1, n_jobs))) as pool:
        res = pool.map(cv_backbone.circ_dup_worker, jobs)
    for r in res:
        if 'dups' not in r:
            continue
        ctx.evaluated('circ-record-in-two-files', str(r['seed']), bool(r['twice']), r['desc'])
        if r['status'] != ('ok', 'ok'):
            if r['status'][0] == 'ok':
                ctx.add_violation(f'callVariant fails ({r["status"][1]}) when the circRNA GVF is supplied twice',
                                  dict(r['desc'], kind='circ-twice'))
            continue
        if r['dups']:
            ctx.add_violation(f'header entry string(s) {r["dups"][:3]} occur more than once in the FASTA when '
                              'the same circRNA record is supplied in two GVF files',
                              dict(r['desc'], kind='circ-twice', entries=r['dups']))
        if r['once'] != r['twice']:
            a, b = set(r['once']), set(r['twice'])
            ctx.add_violation('supplying the same circRNA record in a second GVF file changes the peptide set: '
                              f'lost {sorted(a - b)[:3]} gained {sorted(b - a)[:3]}',
                              dict(r['desc'], kind='circ-twice'))
    shutil.rmtree(gen_ref.WORK, ignore_errors=True)


def collapse_stream(ctx: common.Ctx, n_jobs: int, side: str, procs: int = 14):
    """binding node-collapsing parameters on indel-rich clusters (cv_explore.collapse_worker);
    side 'lost' (C01) / 'gained' (C02) / 'both'"""
    jobs = [(ctx.rng('collapse', i).randrange(1 << 30), ctx.tier, {}) for i in range(n_jobs)]
    with mp.get_context('fork').Pool(min(procs, max(1, n_jobs))) as pool:
        res = pool.map(cv_explore.collapse_worker, jobs)
    st = ctx.coverage.setdefault('collapse_stream_stats', {})
    for r in res:
        for k, v in r.get('stats', {}).items():
            st[k] = st.get(k, 0) + v
        if 'runs' not in r:
            continue
        base = set(r['base']['real'])
        ctx.evaluated('collapse-parameters', str(r['seed']), bool(base), r['desc'])
        if r['base']['status'] != 'ok':
            continue
        for v in r['runs']:
            ctx.count('collapse-parameters', 'collapsed_runs')
            got = set(v['real'])
            lost, gained = base - got, got - base
            if v['status'] != 'ok':
                ctx.add_violation(f'callVariant crashed ({v["status"]}) with node-collapsing parameters '
                                  f'{v["what"]} on an input the default parameters handle',
                                  dict(r['desc'], kind='collapse', collapse=v['what']))
            elif (lost and side in ('lost', 'both')) or (gained and side in ('gained', 'both')):
                def _ok(o, what=v['what']):
                    b_ = set(o['base']['real'])
                    for v_ in o['runs']:
                        if v_['what'] == what:
                            return set(v_['real']) == b_
                    return False
                flaky = relation_flaky(cv_explore.collapse_worker, jobs[res.index(r)], _ok)
                ctx.add_violation(
                    f'node-collapsing parameters {v["what"]} changed the output: lost {sorted(lost)[:3]} '
                    f'({len(lost)}), gained {sorted(gained)[:3]} ({len(gained)})',
                    dict(r['desc'], kind='collapse', collapse=v['what'], lost=sorted(lost)[:20],
                         gained=sorted(gained)[:20]), finding_key=KF_NONDET if flaky else None)
    shutil.rmtree(gen_ref.WORK, ignore_errors=True)


def fusion_pairs(ctx: common.Ctx, n_jobs: int, procs: int = 14, unique_entries: bool = False,
                 metamorphic: bool = True):
    """two fusions from one donor breakpoint (see cv_backbone.fusion_pair_worker): violations
    are added here; returns the number of evaluated cases"""
    from . import cv_backbone
    jobs = [(ctx.rng('fpair', i).randrange(1 << 30), ctx.tier, {}) for i in range(n_jobs)]
    with mp.get_context('fork').Pool(min(procs, max(1, n_jobs))) as pool:
        res = pool.map(cv_backbone.fusion_pair_worker, jobs)
    n = 0
    st = ctx.coverage.setdefault('fusion_pair_stats', {})
    for r in res:
        for k, v in r.get('stats', {}).items():
            st[k] = st.get(k, 0) + v
        if 'runs' not in r:
            continue
        n += 1
        a, b, c = (set(r['runs'][k]['real']) for k in ('first', 'second', 'both'))
        ctx.evaluated('fusion-same-breakpoint', str(r['seed']), bool(a | b), r['desc'])
        bad = [k for k in ('first', 'second', 'both') if r['runs'][k]['status'] != 'ok']
        if bad:
            ctx.add_violation(f'callVariant crashed ({r["runs"][bad[0]]["status"]}) on an input with '
                              'two fusions from one donor breakpoint', dict(r['desc'], kind='crash'))
            continue
        if unique_entries:
            for k in ('first', 'second', 'both'):
                d = r['runs'][k].get('dup_entries')
                if d:
                    ctx.add_violation(f'header entry string(s) {d[:3]} occur more than once in the FASTA of an input '
                                      'with small records on a fusion donor', dict(r['desc'], kind='dup-entry', run=k,
                                                                                  entries=d),
                                      finding_key='fusion-donor-entries-numbered-twice')
                    break
        lost = (a | b) - c if metamorphic else set()
        if lost:
            how = ('a second fusion record whose ACCEPTER is the first record\'s donor transcript (chain; the donor\'s '
                   'breakpoint lies in an intron)' if r['desc'].get('chain') else
                   'a second fusion record with the same donor breakpoint (another acceptor, or another '
                   'position of the same acceptor)')
            def _ok(o):
                return 'runs' in o and not ((set(o['runs']['first']['real']) | set(o['runs']['second']['real']))
                                            - set(o['runs']['both']['real']))
            flaky = relation_flaky(cv_backbone.fusion_pair_worker, jobs[res.index(r)], _ok)
            ctx.add_violation(
                f'{len(lost)} peptide(s) reported for a fusion record alone are missing when {how} is '
                f'supplied as well, e.g. {sorted(lost)[:3]}',
                dict(r['desc'], kind='fusion-same-breakpoint', lost=sorted(lost)[:20]),
                finding_key=KF_NONDET if flaky else None)
    shutil.rmtree(gen_ref.WORK, ignore_errors=True)
    return n
