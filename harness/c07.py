"""C07 — --skip-failed isolates failures; without it failures abort.
Fault injection at the entry of the three per-unit callers (guarded hook
MOPEPGEN_VERIF_FAIL), every subset of units for inputs with few units; and the
other failure site of the command, an INVALID VARIANT SERIES (a record that
cannot be placed on its transcript: `pool[tx_id]` raises ValueError in
gather_data_for_call_variant), through plain input files."""
from . import common, pipe_checks, pipe_explore


def run(ctx: common.Ctx):
    ctx.coverage['rule'] = (
        'generated references (2-4 genes) with SNV/indel/AS/fusion/circRNA records; baseline run '
        'gives the unit list; EVERY non-empty subset of units is made to fail (inputs with <= 4 '
        'units quick / <= 6 thorough; singletons + random subsets beyond), with --skip-failed '
        '(threads 1 or 3) and, for singletons and a sample, without; direct checks: completes, '
        'output = fault-free output minus failing units, tally, abort + no FASTA without the flag; '
        'each run also replayed through the Lean model (stream run). Second failure site: one more GVF '
        'with a record that makes the variant series of ONE transcript invalid (gene position behind '
        'the gene end / coordinates of another gene / unknown gene) — the transcript that sorts LAST '
        'in dispatch order (with or without records of its own) or an inner one; --skip-failed with '
        'threads 1 and 2..4 chosen so that 1..threads-1 dispatches are pending (all of 1-4 thorough): '
        'output pairs and tally = run without that transcript\'s records, invalid count 1, Lean model '
        'with the transcript as "no dispatch"; without the flag: abort, no FASTA. non-trivial = run '
        'with >= 1 peptide or an abort')
    stats = pipe_checks.run_workers(ctx, pipe_explore.c07_worker, ctx.n(36, 400))
    ctx.coverage['fault_sets_explored'] = stats.get('fault_runs', 0)
    ctx.coverage['invalid_series_runs'] = stats.get('invalid_skip_runs', 0) + stats.get('invalid_noskip_runs', 0)
    ctx.assumptions += [
        'per-unit callers are data in the model: the deny-list coupling main -> circRNA of the same '
        'transcript (a circRNA unit may report peptides a failed main unit would have claimed) is '
        'outside the model and explicitly tolerated by the direct check',
        'process pool (pathos) behaviour under threads>1 is exercised, not modelled',
        'invalid series of a transcript that is also the fusion accepter of another transcript: the '
        'abort under --skip-failed is an open finding (known_findings.json); the isolation check then '
        'runs on the input without those fusion records']
