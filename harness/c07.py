"""C07 — --skip-failed isolates failures; without it failures abort.
Fault injection at the entry of the three per-unit callers (guarded hook
MOPEPGEN_VERIF_FAIL), every subset of units for inputs with few units; and the
other failure site of the command, an INVALID VARIANT SERIES (a record that
cannot be placed on its transcript: `pool[tx_id]` raises ValueError in
gather_data_for_call_variant), through plain input files."""
from . import common, pipe_checks, pipe_explore


def parser_stream(ctx: common.Ctx):
    """--skip-failed of parseVEP (anchor of the property): a VEP table with a few rows that cannot be
    converted (Location that is not `name:int[-int]`, position outside the gene).  With the flag the
    command completes, counts the rows as failed and writes the GVF of the table WITHOUT those rows;
    without it the command terminates with an error and leaves no GVF."""
    import argparse
    import shutil
    import tempfile
    from pathlib import Path
    from . import c14
    from moPepGen import cli, seqvar
    n_runs = 0
    for i in range(ctx.n(24, 240)):
        rng = ctx.rng('parsers', i)
        a = c14.gen_ref(rng, 700000 + i)
        tmp = tempfile.mkdtemp(prefix='c07p_')
        R = None
        try:
            R = c14.load_ref(a, tmp)
            good = []
            for g in a.genes:
                chrom = a.chroms[g.chrom]
                for t in g.txs[:2]:
                    for (es, ee) in t.exons:
                        for _ in range(2):
                            p0 = rng.randrange(es, ee)
                            ref = chrom[p0].upper()
                            alts = [c for c in 'ACGT' if c not in (ref, c14.COMP.get(ref, ref))]
                            if alts:
                                good.append(c14.vep_line(g, t, p0 + 1, p0 + 1, rng.choice(alts)))
            if len(good) < 3:
                continue
            good = rng.sample(good, min(len(good), rng.randint(3, 10)))
            g0 = a.genes[0]
            t0 = g0.txs[0]

            def bad_row(kind):
                f = c14.vep_line(g0, t0, g0.start + 1, g0.start + 1, 'A').split('\t')
                f[1] = {'not-a-number': f'{g0.chrom}:abc', 'colons': 'HLA-DRB1*15:01:01:01:1179',
                        'no-colon': g0.chrom, 'outside': f'{g0.chrom}:{len(a.chroms[g0.chrom]) + 50}',
                        'empty-range': f'{g0.chrom}:12-'}[kind]
                return '\t'.join(f)
            kinds = rng.sample(['not-a-number', 'colons', 'no-colon', 'outside', 'empty-range'], rng.randint(1, 2))
            rows = list(good)
            for k in kinds:
                rows.insert(rng.randrange(len(rows) + 1), bad_row(k))

            def run(lines, name, skip):
                pth = Path(tmp) / f'{name}.txt'
                pth.write_text('## VEP\n#Uploaded_variation\tLocation\tAllele\n' + '\n'.join(lines) + '\n')
                args = c14.vep_args(R, tmp, [pth], f'{name}.gvf', skip)
                msgs, exc = c14.run_cli(cli.parse_vep, args)
                recs = None
                if args.output_path.exists():
                    try:
                        recs = sorted(c14.canon_rec(r) for r in seqvar.io.parse(str(args.output_path)))
                    except Exception as e:   # noqa
                        recs = [f'unreadable:{type(e).__name__}']
                return msgs, exc, recs
            m0, exc0, ref_recs = run(good, 'ref', True)
            msgs, exc, recs = run(rows, 'skip', True)
            _m2, exc2, recs2 = run(rows, 'noskip', False)
            n_runs += 1
            desc = {'rows': rows, 'bad_kinds': kinds}
            ctx.evaluated('parser-skip-failed', str(i), True, desc if i < 2 else None)
            if exc0 is not None:
                ctx.add_broken('correspondence', 'parser-skip-failed', f'reference table failed: {exc0!r}')
                continue
            if exc is not None:
                ctx.add_violation(f'parseVEP --skip-failed was terminated by a row that cannot be converted '
                                  f'({kinds}): {exc!r}', dict(desc, kind='parser-skip-aborts'))
            else:
                if recs != ref_recs:
                    ctx.add_violation('parseVEP --skip-failed: the GVF differs from the GVF of the table without '
                                      'the failing rows', dict(desc, kind='parser-skip-output', gvf=(recs or [])[:10],
                                                               expected=(ref_recs or [])[:10]))
                keys = {'total': 'Totally records read', 'failed': 'Records failed'}
                tl, tl0 = c14.tally_from(msgs, keys), c14.tally_from(m0, keys)
                # (rows on the start / stop codon of the reference table are counted as failed too)
                want_failed = (tl0.get('failed') or 0) + len(kinds)
                if tl.get('total') != len(rows) or tl.get('failed') != want_failed:
                    ctx.add_violation(f'parseVEP --skip-failed tally {tl}: expected {len(rows)} rows read, '
                                      f'{want_failed} failed', dict(desc, kind='parser-skip-tally'))
            if exc2 is None:
                ctx.add_violation('parseVEP WITHOUT --skip-failed completed although a row cannot be converted',
                                  dict(desc, kind='parser-noskip-completes', gvf_written=recs2 is not None))
            elif recs2 is not None:
                ctx.add_violation('parseVEP without --skip-failed terminated with an error but left a GVF file',
                                  dict(desc, kind='parser-noskip-gvf'))
        finally:
            if R is not None:
                c14.close_ref(R)
            shutil.rmtree(tmp, ignore_errors=True)
    ctx.coverage['parser_skip_failed_tables'] = n_runs


def run(ctx: common.Ctx):
    ctx.coverage['rule'] = (
        'generated references (2-4 genes) with SNV/indel/AS/fusion/circRNA records; baseline run '
        'gives the unit list; EVERY non-empty subset of units is made to fail (inputs with <= 4 '
        'units quick / <= 6 thorough; singletons + random subsets beyond), with --skip-failed '
        '(threads 1 or 3) and, for singletons and a sample, without; direct checks: completes, '
        'output = fault-free output minus failing units, tally, abort + no FASTA without the flag; '
        'each run also replayed through the Lean model (stream run). Second failure site: one more GVF '
        'with a record that makes the variant series of ONE transcript invalid (gene position behind '
        'the gene end / coordinates of another gene / unknown gene) — the transcript that sorts LAST '
        'in dispatch order (with or without records of its own) or an inner one; --skip-failed with '
        'threads 1 and 2..4 chosen so that 1..threads-1 dispatches are pending (all of 1-4 thorough): '
        'output pairs and tally = run without that transcript\'s records, invalid count 1, Lean model '
        'with the transcript as "no dispatch"; without the flag: abort, no FASTA. non-trivial = run '
        'with >= 1 peptide or an abort')
    stats = pipe_checks.run_workers(ctx, pipe_explore.c07_worker, ctx.n(36, 400))
    parser_stream(ctx)
    ctx.coverage['fault_sets_explored'] = stats.get('fault_runs', 0)
    ctx.coverage['invalid_series_runs'] = stats.get('invalid_skip_runs', 0) + stats.get('invalid_noskip_runs', 0)
    ctx.assumptions += [
        'per-unit callers are data in the model: the deny-list coupling main -> circRNA of the same '
        'transcript (a circRNA unit may report peptides a failed main unit would have claimed) is '
        'outside the model and explicitly tolerated by the direct check',
        'process pool (pathos) behaviour under threads>1 is exercised, not modelled',
        'invalid series of a transcript that is also the fusion accepter of another transcript: the '
        'abort under --skip-failed is an open finding (known_findings.json); the isolation check then '
        'runs on the input without those fusion records']
