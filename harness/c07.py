"""C07 — --skip-failed isolates failures; without it failures abort.
Fault injection at the entry of the three per-unit callers (guarded hook
MOPEPGEN_VERIF_FAIL), every subset of units for inputs with few units."""
from . import common, pipe_checks, pipe_explore


def run(ctx: common.Ctx):
    ctx.coverage['rule'] = (
        'generated references (2-4 genes) with SNV/indel/AS/fusion/circRNA records; baseline run '
        'gives the unit list; EVERY non-empty subset of units is made to fail (inputs with <= 4 '
        'units quick / <= 6 thorough; singletons + random subsets beyond), with --skip-failed '
        '(threads 1 or 3) and, for singletons and a sample, without; direct checks: completes, '
        'output = fault-free output minus failing units, tally, abort + no FASTA without the flag; '
        'each run also replayed through the Lean model (stream run). non-trivial = run with >= 1 '
        'peptide or an abort')
    stats = pipe_checks.run_workers(ctx, pipe_explore.c07_worker, ctx.n(36, 400))
    ctx.coverage['fault_sets_explored'] = stats.get('fault_runs', 0)
    ctx.assumptions += [
        'per-unit callers are data in the model: the deny-list coupling main -> circRNA of the same '
        'transcript (a circRNA unit may report peptides a failed main unit would have claimed) is '
        'outside the model and explicitly tolerated by the direct check',
        'process pool (pathos) behaviour under threads>1 is exercised, not modelled']
