"""C01 — callVariant reports every variant peptide (completeness).
Real callVariant vs the Lean definition Spec.callVariant on generated inputs (dense variant
clusters, both strands, coding/non-coding, cds_start_NF, mRNA_end_NF, selenoproteins);
node-collapsing parameters must not change the output."""
from . import common, cv_checks, translate_direct
from .cv_checks import KF_EXC, KF_NOLA, KF_WIDE, KF_NESTED, KF_NESTED_EDGE


KF_SECANCHOR = 'sec-codon-touched-by-anchor-unlabelled-stop'
# worker seeds of the fusion stream (cv_backbone.fusion_worker) that reproduce the open finding
# frameshifts-in-both-retained-stretches-of-fusion on the unchanged tree
FUSION_WITNESS_SEEDS = (274891154, 337466784, 151238392)
KF_NOLA_MISC = 'no-lookahead-enzyme-miscleaved-missing'


def all_miscleaved(enz: str, peptides, w2f: bool = False) -> bool:
    """every peptide has a cleavage site of the enzyme's rule strictly inside; with W>F
    reassignment on, a peptide also counts when it is the W>F image of such a peptide of the
    same set (the tool derives the images from the peptide it did not report)"""
    import re as _re
    rule = cv_checks.rule_tables()[enz]

    def misc(p):
        return any(0 < m.end() < len(p) for m in _re.finditer(rule, p))
    peptides = list(peptides)
    for p in peptides:
        if misc(p):
            continue
        if w2f and any(len(q) == len(p) and q != p and misc(q)
                       and all(a == b or (a == 'W' and b == 'F') for a, b in zip(q, p))
                       for q in peptides):
            continue
        return False
    return True


def sec_anchor_only(r, missing) -> bool:
    """every missing peptide ends right in front of an annotated Sec codon whose LAST base is the
    anchor base of an insertion-type record (the codon itself is unchanged): the command reads
    that codon as a stop once the record is applied, but the peptide ending there carries no
    variant node and is not reported"""
    d = r['desc']
    if not d.get('coding') or not d.get('sec') or not d.get('orf'):
        return False
    from Bio.Seq import Seq
    seq = d.get('tx_seq')
    if not seq:
        return False
    o0 = d['orf'][0]
    cds = seq[o0:]
    aa = list(str(Seq(cds[:len(cds) // 3 * 3]).translate()))
    touched = []
    for s0 in d['sec']:
        k = (s0 - o0) // 3
        if (s0 - o0) % 3 == 0 and 0 <= k < len(aa):
            aa[k] = 'U'
            if any(v[0] == s0 + 2 and str(v[3]).startswith(str(v[2])) and len(v[3]) > len(v[2])
                   for v in d['vars']):
                touched.append(k)
    if not touched:
        return False
    prot = ''.join(aa)
    for p in missing:
        ok = False
        for k in touched:
            for q in (p, 'M' + p):
                if k - len(q) >= 0 and prot[k - len(q):k] == q:
                    ok = True
            # W>F images of such a peptide
            seg = prot[max(0, k - len(p)):k]
            if len(seg) == len(p) and all(a == b or (a == 'W' and b == 'F') for a, b in zip(seg, p)):
                ok = True
        if not ok:
            return False
    return True


def judge(ctx, res, stream):
    for r in res:
        if 'crash' in r:
            st, err = r['crash']
            enz = r['desc']['kw']['cleavage_rule']
            ctx.evaluated(stream, str(r['seed']), True, None)
            key = KF_NOLA if (st == 'crash:IndexError' and not cv_checks.has_lookahead(enz)) else None
            ctx.add_violation(f'callVariant crashed ({st}: {err}) on a valid input: nothing is reported',
                              cv_checks.replay_of(r, kind='crash'), finding_key=key)
            continue
        if 'line_A' not in r or r.get('no_spec'):
            continue
        SA, SB, real = r['S_A'], r['S_B'], r['real_set']
        ctx.evaluated(stream, str(r['seed']), bool(SA or real),
                      {'seed': r['seed'], 'kw': r['desc']['kw'], 'vars': r['desc']['vars'],
                       'n_expected': len(SA), 'n_reported': len(real)})
        core_missing = (SA & SB) - real
        exc_missing = (SA - real) - core_missing
        if core_missing and cv_checks.has_edge_nested(r):
            # open finding record-on-edge-of-inserted-stretch: the definition is evaluated once more
            # WITHOUT the forms of the splicing records that carry a record on the edge of the
            # inserted stretch; a missing peptide that disappears with them is explained by the
            # finding, any other missing peptide goes through the usual classification below
            edge_ids = {e[1] for e in r['desc'].get('edge_nested', [])}
            fields = r['line_A'].split('\t')
            forms = fields[9].split(';') if fields[9] else []
            keep = [f_ for f_, v in zip(forms, r['desc']['vars'])
                    if not (isinstance(v[5], (tuple, list)) and edge_ids & set(v[5][1:]))]
            if len(forms) == len(r['desc']['vars']) and len(keep) < len(forms):
                outs = ctx.lean(['\t'.join(fields[:9] + [';'.join(keep)] + fields[10:])])
                if outs is not None:
                    s_wo = cv_checks.to_set(outs[0])
                    on_edge = core_missing - s_wo
                    if on_edge:
                        ctx.add_violation(
                            f'{len(on_edge)} peptide(s) that need a record on the first / last base of the stretch '
                            f'a splicing record inserts are missing, e.g. {sorted(on_edge)[:3]}',
                            cv_checks.replay_of(r, kind='missing', missing=sorted(on_edge)),
                            finding_key=KF_NESTED_EDGE)
                        core_missing = core_missing - on_edge
        if core_missing:
            ctx.add_violation(
                f'{len(core_missing)} peptide(s) of the definition are missing from the callVariant '
                f'FASTA, e.g. {sorted(core_missing)[:3]}',
                cv_checks.replay_of(r, kind='missing', missing=sorted(core_missing)),
                finding_key=KF_WIDE if cv_checks.wide_lookahead(r['desc']['kw']['cleavage_rule'])
                else (KF_NESTED if cv_checks.has_nested(r)
                      else (KF_SECANCHOR if sec_anchor_only(r, sorted(core_missing))
                            else (KF_NOLA_MISC if (not cv_checks.has_lookahead(r['desc']['kw']['cleavage_rule'])
                                                   and not (real - (SA | SB))
                                                   and all_miscleaved(r['desc']['kw']['cleavage_rule'], core_missing,
                                                                      bool(r['desc']['kw'].get('w2f_reassignment'))))
                                  else (cv_checks.KF_NONDET if cv_checks.unstable_output(r) else None)))))
        elif exc_missing:
            ctx.add_violation(
                f'peptide(s) {sorted(exc_missing)[:3]} missing: cleavage-exception context split across '
                'graph nodes', cv_checks.replay_of(r, kind='missing-exception', missing=sorted(exc_missing)),
                finding_key=KF_EXC)
        for v in r.get('variations', []):
            if v['name'] == 'collapse':
                ctx.count(stream, 'collapse_runs')
                if v['status'] != 'ok' or set(v['real']) != real:
                    ctx.add_violation(
                        f'node-collapsing parameters {v["what"]} changed the output '
                        f'(status {v["status"]}; lost {sorted(real - set(v["real"]))[:3]}, '
                        f'gained {sorted(set(v["real"]) - real)[:3]})',
                        cv_checks.replay_of(r, kind='collapse', collapse=v['what']))


# ---------------------------------------------------------------------------------------------
# internal stream: the two enumerators of compatible combinations (Spec.haplotypes written out on
# `sublists` vs Spec.haplotypesFast / prunedSublists; `@[csimp] haplotypes_eq_fast` makes the
# compiled oracle run the pruned one).  The reference below is an independent statement of the
# DEFINITION in Python; the driver ops `S hap` / `S haptx` evaluate the definition by hand, the
# pruned enumerator by name and the constant `haplotypes` as compiled, and answer `ok …` only if
# all agree (and if (a) separated∘sort = pairwiseOk, (b) filter = pruned hold on every
# sub-collection of the pool).
HAP_MAX_POOL = 14
HAP_MAX_OUT = 4000
_CLS_LETTERS = ['S', 'S', 'I', 'I', 'D', 'O']


def _ref_sublists(xs):
    """all sub-collections in the order of Spec.sublists (`r ++ r.map (x :: ·)`)"""
    if len(xs) > HAP_MAX_POOL:
        raise ValueError('reference enumeration is exponential: pool too large')
    if not xs:
        return [[]]
    r = _ref_sublists(xs[1:])
    return r + [[xs[0]] + s_ for s_ in r]


def _ref_haplotypes(pool):
    """the definition: every sub-collection, put in ascending order of start (stable), kept when
    non-empty and each record ends strictly before the next one starts"""
    out = []
    for sub in _ref_sublists(pool):
        h = sorted(sub, key=lambda v: v['start'])
        if h and all(a['stop'] < b['start'] for a, b in zip(h, h[1:])):
            out.append(h)
    return out


def _render_var(v):
    return f"{v['start']}-{v['stop']}-" + '+'.join(str(i) for i in v['ids'])


def _render_hap(h):
    return ','.join(_render_var(v) for v in h)


def _render_haps(hs):
    return f'{len(hs)}|' + ';'.join(_render_hap(h) for h in hs)


def _var_field(v):
    return f"{v['start']}:{v['stop']}:{v['ref']}:{v['alt']}:{v['cls']}:" + '+'.join(str(i) for i in v['ids'])


def _ref_usable(t, v):
    """Spec.usable, restated: behind the start codon (an indel anchored on its last base is moved
    to its right end when the transcript has a base there), not touching the last annotated codon
    of an mRNA_end_NF transcript"""
    start_index = (t['orf'][0] if t['coding'] else 0) + 3
    if v['start'] + 1 == start_index and v['cls'] == 'I' and v['stop'] < len(t['seq']):
        v = dict(v, start=v['start'] + 1, stop=v['stop'] + 1)
    if v['start'] < start_index:
        return None
    tx_end = t['orf'][1] if t['coding'] else len(t['seq'])
    if t['end_nf'] and v['start'] < tx_end and max(tx_end - 3, 0) < v['stop']:
        return None
    return v


def _ref_pool(t, vs):
    us = [u for u in (_ref_usable(t, v) for v in vs) if u is not None]
    merged = [dict(start=a['start'], stop=b['stop'], ids=a['ids'] + b['ids'], cls='O', ref='', alt='')
              for a in us for b in us
              if a['stop'] == b['start'] and a['cls'] in ('S', 'I') and a['cls'] == b['cls']]
    return us + merged


def _gen_records(rng, n, lo, width):
    """n records around [lo, lo+width): plain, ties in start, adjacent, overlapping, duplicates,
    zero-length and stop < start"""
    recs = []
    for i in range(n):
        kind = rng.choice(['plain'] * 5 + ['tie', 'tie', 'adjacent', 'adjacent', 'dup', 'empty', 'inverted'])
        if not recs and kind in ('tie', 'adjacent', 'dup'):
            kind = 'plain'
        ids = [i] if rng.random() < 0.85 else [i, 100 + i]
        cls = rng.choice(_CLS_LETTERS)
        if kind == 'dup':
            recs.append(dict(rng.choice(recs)))
            continue
        if kind == 'tie':
            start = rng.choice(recs)['start']
        elif kind == 'adjacent':
            o = rng.choice(recs)
            start = o['stop']
            if rng.random() < 0.7:
                cls = o['cls']
        else:
            start = lo + rng.randrange(max(width, 1))
        if kind == 'empty':
            stop = start
        elif kind == 'inverted':
            stop = max(0, start - rng.randint(1, 6))
        else:
            stop = start + rng.choice([1, 1, 1, 2, 3, 5])
        ln = max(stop - start, 1)
        recs.append(dict(start=start, stop=stop, ref='A' * ln, alt=rng.choice(['C', 'CG', 'G']),
                         cls=cls, ids=ids))
    return recs


def hap_enumerators(ctx):
    sizes = [0, 1, 2, 2, 3, 3, 4, 4, 5, 5, 6, 6, 7, 8, 8, 9, 10, 11, 12, 13, 14]
    cases = []
    for k in range(ctx.n(260, 2500)):
        rng = ctx.rng('hap-enumerators', k)
        n = rng.choice(sizes)
        # dense pools (few compatible combinations) and loose ones
        width = rng.choice([3, 6, 10, 20, 40]) if n <= 10 else rng.choice([3, 6, 10, 16])
        pool = _gen_records(rng, n, rng.choice([0, 3, 7]), width)
        exp = _ref_haplotypes(pool)
        while len(exp) > HAP_MAX_OUT:
            pool.pop()
            exp = _ref_haplotypes(pool)
        line = '\t'.join(['S', 'hap', ';'.join(_var_field(v) for v in pool)])
        cases.append((line, 'ok ' + _render_haps(exp), {'pool': [_render_var(v) for v in pool],
                                                        'n_combinations': len(exp)}))
        ctx.count('hap-enumerators', f'pool_size_{len(pool)}')
        if any(v['stop'] < v['start'] for v in pool):
            ctx.count('hap-enumerators', 'with_stop_before_start')
        if len({v['start'] for v in pool}) < len(pool):
            ctx.count('hap-enumerators', 'with_tie_in_start')
    ctx.diff_stream('hap-enumerators', cases, observable=False, describe=lambda o: o,
                    nontrivial=lambda real: not real.startswith('ok 0|'))
    cases = []
    for k in range(ctx.n(140, 1500)):
        rng = ctx.rng('hap-enumerators-tx', k)
        ln = rng.choice([30, 45, 60])
        seq = ''.join(rng.choice('ACGT') for _ in range(ln))
        coding = rng.random() < 0.6
        o0 = rng.randrange(0, 7)
        o1 = rng.randrange(max(o0 + 3, ln - 12), ln + 1)
        t = dict(seq=seq, coding=coding, orf=(o0, o1) if coding else None, start_nf=rng.random() < 0.2,
                 end_nf=rng.random() < 0.4, sec=[])
        si = (o0 if coding else 0) + 3
        end = o1 if coding else ln
        where = rng.choice(['start', 'start', 'end', 'mid'])
        lo = max(0, si - 3) if where == 'start' else (max(0, end - 10) if where == 'end' else si + 5)
        vs = _gen_records(rng, rng.choice([1, 2, 3, 4, 5, 6, 7, 8, 9, 10]), lo, rng.choice([4, 8, 14]))
        pool = _ref_pool(t, vs)
        while len(pool) > HAP_MAX_POOL:     # merged pairs can multiply the pool: cap it BEFORE the
            vs.pop()                        # 2^n reference enumeration
            pool = _ref_pool(t, vs)
        exp = _ref_haplotypes(pool)
        while len(exp) > HAP_MAX_OUT:
            vs.pop()
            pool = _ref_pool(t, vs)
            exp = _ref_haplotypes(pool)
        line = '\t'.join(['S', 'haptx'] + cv_checks.cv_explore.tx_fields(t) + [';'.join(_var_field(v) for v in vs)])
        cases.append((line, 'pool ' + _render_hap(pool) + ' ok ' + _render_haps(exp),
                      {'tx': {k_: t[k_] for k_ in ('coding', 'orf', 'end_nf')}, 'len': ln,
                       'records': [_render_var(v) for v in vs], 'n_combinations': len(exp)}))
        ctx.count('hap-enumerators-tx', f'pool_size_{len(pool)}')
        if len(pool) > len([v for v in vs if _ref_usable(t, v) is not None]):
            ctx.count('hap-enumerators-tx', 'with_merged_pair')
        if len(pool) < len(vs):
            ctx.count('hap-enumerators-tx', 'with_unusable_record')
    ctx.diff_stream('hap-enumerators-tx', cases, observable=False, describe=lambda o: o,
                    nontrivial=lambda real: ' ok 0|' not in real)


def run(ctx: common.Ctx):
    ctx.coverage['rule'] = (
        'single-gene references from moPepGen.fake (both strands, coding with cds_start_NF / '
        'mRNA_end_NF / Sec sites, non-coding) + 1-7 SNV/insertion/deletion records (+ in 30% of the cases 1-2 alternative-splicing Insertion/Deletion/Substitution records from moPepGen.fake) clustered '
        'around start codon, stop codon, Sec codons, exon junctions or random points; random '
        'miscleavage 0-3, length / mass limits, SECT and W2F flags; streams: trypsin without '
        'exception (exact), trypsin with the default exception, all 35 enzymes; each case = real '
        'callVariant vs Spec.callVariant evaluated by the native Lean driver over ALL compatible '
        'subsets of the usable records; half of the cases are re-run with other node-collapsing '
        'parameters; plus two-gene inputs with ONE fusion (exonic / intronic breakpoints, coding and '
        'non-coding donors; 70% of the fusions with a SHORT retained intronic stretch of 8-45 nt on the donor and / or accepter side, '
        '60% of the inputs with a retained stretch carry 1-3 SNV / insertion / deletion records INSIDE it, >= 2 nt from its ends, half of '
        'those one more record on the accepter right behind the breakpoint; mapped onto the backbone by the harness), single-gene inputs with ONE circRNA / ciRNA, and two-gene inputs with a fusion AND a circRNA of the donor (three GVF files), each with small records: real '
        'FASTA vs union of Spec.callVariant per transcript and Spec.callBackbone / Spec.callCirc. '
        'non-trivial = definition or tool reports >= 1 peptide. Layer G: in the trypsin-noexc and '
        'all-enzymes streams the graphs the real run built after create_variant_graph / fit_into_codons / '
        'translate / create_cleavage_graph are dumped (method wrappers, no change to /repo) and the '
        'checkpoint predicates of Model/Graph.lean are evaluated on them by the driver (G-* streams: '
        'language of every reading frame = sequences of all compatible combinations; cleavage sites '
        'are node boundaries). Layer G, function level (internal stream G-tvgbuild): for every case of the '
        'trypsin-noexc stream whose records are all SNV / RNAEditingSite / INDEL, the graph the real '
        'create_variant_graph built (dump after the stage, with reference ranges and typed edges) is compared '
        'in canonical form - nodes keyed by frame / kind / range or record ids / sequence, typed edges as '
        'pairs of keys, sorted - with the graph of the Lean model Tvg.createVariantGraph on the same '
        'transcript fields and the same records in the order the real call received them; '
        'non-trivial = the graph has a variant node. Internal stream G-tvglang, same cases: the record lists of '
        'ALL maximal paths of the real graph after create_variant_graph (walked in the dump from the child of '
        'the frame root, per frame active from the start; graphs with more than 12 distinct records skipped) '
        'against Tvg.attachedSubs of the model graph (Props.C01.tvg_attached_subs_spec), prefixed by whether '
        'the input satisfies Tvg.poolInputOk (evaluated independently in Python on the real call arguments); '
        'non-trivial = some path takes two or more records. Layer G, function level, third stage (internal '
        'stream G-translate): for every case of the three stage-dumping streams the graph the real '
        'ThreeFrameTVG.translate FINDS (dumped on entry: DNA, typed out-edges in set order, variant and matched '
        'locations, level, branch, orf, reading_frames, has_known_orf, seq.orf, sect_variants, mrna_end_nf) is run '
        'through Translate.translateGraph (Model/Translate.lean) and compared with a snapshot of the graph the '
        'real call RETURNS (before create_cleavage_graph), nodes named by the input node they were translated '
        'from (node-level wrappers of TVGNode.translate / PVGNode.split_node), with sequence, frame, truncated, '
        'variant locations and offsets, selenocysteine positions, level, edges, reading_frames, known_orf; '
        'non-trivial = some node carries a variant. Internal stream G-translate-direct: the real stages '
        'init_three_frames / create_variant_graph / fit_into_codons / translate called in-process on 24-75 nt '
        'transcripts with ARBITRARY annotations (CDS end on a stop codon / another codon / out of frame, 0-3 Sec '
        'annotations on planted in-frame TGA, TGA in any frame or any position, sorted or not, mRNA_end_NF, '
        'non-coding) and 0-5 SNV / insertion / deletion records, half of them next to a Sec codon or the CDS end')
    ctx.coverage['rule'] += (
        '. Internal streams hap-enumerators / hap-enumerators-tx: generated record pools of 0-14 records '
        '(ties in start, adjacent, overlapping, duplicate, zero-length and stop < start records; with a '
        'transcript: records around the start codon / the last codon of mRNA_end_NF transcripts, merged '
        'adjacent pairs): the driver evaluates the body of Spec.haplotypes by hand (all 2^n sub-collections), '
        'Spec.haplotypesFast by name and the constant Spec.haplotypes as compiled (csimp) and must return '
        'the list an independent Python statement of the definition gives, in order; it also re-evaluates '
        'separated(sortByStart s) = pairwiseOk s and filter = prunedSublists on every sub-collection; '
        'non-trivial = at least one compatible combination')
    hap_enumerators(ctx)
    from . import rule_ref
    rule_ref.check_rule_tables(ctx)
    base = dict(vary=True, per_tx=(1, 7), max_size=6, window=24, witness=False, as_frac=0.3, junction_mnv=0.1, internal_met=0.2)
    res = cv_checks.explore(ctx, ctx.n(220, 4000), dict(base, exception=None, variations=['collapse'], stages=True,
                                                        tvgbuild=True))
    stats = dict(ctx.coverage['worker_stats'])
    judge(ctx, res, 'trypsin-noexc')
    cv_checks.judge_checkpoints(ctx, res, 'missing')
    # Layer G, function level: structural correspondence of the real graph after
    # create_variant_graph with Model/Tvg.lean (cases with only SNV / RNAEditingSite / INDEL records)
    cv_checks.judge_tvgbuild(ctx, res)
    # … and its path language: the record lists of all maximal paths of the real graph vs
    # `Tvg.attachedSubs` of the model's graph (Props.C01.tvg_attached_subs_spec)
    cv_checks.judge_tvglang(ctx, res)
    # Layer G, function level, third stage: the peptide graph the real `translate` returned vs
    # `Translate.translateGraph` (Model/Translate.lean) on the dumped input of the real call
    cv_checks.judge_translate(ctx, res)
    res = cv_checks.explore(ctx, ctx.n(120, 2000), dict(base, exception='auto'))
    judge(ctx, res, 'trypsin-exc')
    stats2 = dict(ctx.coverage['worker_stats'])
    res = cv_checks.explore(ctx, ctx.n(140, 2500),
                            dict(base, exception=None, enzymes=cv_checks.enzymes_all(), stages=True))
    judge(ctx, res, 'all-enzymes')
    cv_checks.judge_checkpoints(ctx, res, 'missing')
    cv_checks.judge_translate(ctx, res)
    stats3 = dict(ctx.coverage['worker_stats'])
    # every record of the case on or next to ONE special codon (Sec / first codon / stop codon /
    # exon junction), half of them exactly on its edges; Sec termination mostly on
    res = cv_checks.explore(ctx, ctx.n(300, 5000),
                            dict(base, exception=None, per_tx=(1, 4), special=['sec', 'sec', 'start', 'stop', 'junction'], sec_near_start=0.6, coding_only=True))
    judge(ctx, res, 'special-codons')
    stats4 = dict(ctx.coverage['worker_stats'])
    # Met>Lys at an internal methionine that starts a tryptic product (…K|M…): the variant peptide is
    # the reference product minus its first residue — not canonical (canonical set = Lean digest model)
    res = cv_checks.explore(ctx, ctx.n(140, 2000),
                            dict(base, exception=None, per_tx=(0, 2), max_size=4, as_frac=0.0, internal_met=1.0,
                                 junction_mnv=0.0, coding_only=True, variations=[], stages=False, tvgbuild=False))
    judge(ctx, res, 'internal-met-to-lys')
    # Sec termination inside the START node: Sec a few codons behind the ATG with no K / R in between, a
    # long in-frame 5'UTR run without K / R / stop in front of the ATG (the start codon lies in the
    # second half of its node), records between the ATG and the Sec, SECT on
    res = cv_checks.explore(ctx, ctx.n(200, 3000),
                            dict(base, exception=None, per_tx=(1, 3), max_size=4, window=16, as_frac=0.0,
                                 special=['sec_prefix', 'sec_prefix', 'start'], sec_near_start=0.9,
                                 start_context=1.0, coding_only=True, variations=[], stages=False,
                                 tvgbuild=False, kw=dict(selenocysteine_termination=True)))
    judge(ctx, res, 'sec-in-start-node')
    # small records INSIDE the stretch a splicing Insertion / Substitution inserts
    res = cv_checks.explore(ctx, ctx.n(60, 1500), dict(base, exception=None, per_tx=(1, 4), as_frac=1.0, nested_frac=1.0, stages=True))
    judge(ctx, res, 'nested-in-splicing')
    cv_checks.judge_checkpoints(ctx, res, 'missing')
    cv_checks.judge_translate(ctx, res)
    stats5 = dict(ctx.coverage['worker_stats'])
    for kind, n in (('fusion', ctx.n(110, 1800)), ('circ', ctx.n(90, 1500)), ('combo', ctx.n(70, 1200))):
        # fusion: + the witness inputs of the open finding frameshifts-in-both-retained-stretches-of-fusion
        bres = cv_checks.explore_backbone(ctx, kind, n, dict(exception=None),
                                          extra_seeds=FUSION_WITNESS_SEEDS if kind == 'fusion' else ())
        for r in bres:
            if 'crash' in r:
                ctx.evaluated(kind, str(r['seed']), True, None)
                ctx.add_violation(f'callVariant crashed ({r["crash"][0]}: {r["crash"][1]}) on a valid '
                                  f'{kind} input', dict(r.get('desc', {}), kind='crash'))
                continue
            if 'S' not in r:
                continue
            ctx.evaluated(kind, str(r['seed']), bool(r['S'] or r['real_set']),
                          dict(r['desc'], n_expected=len(r['S']), n_reported=len(r['real_set'])))
            missing = r['S'] - r['real_set']
            if r.get('stats', {}).get('with_records_in_retained_stretch'):
                ctx.count(kind, 'with_records_in_retained_intronic_stretch')
                ctx.count(kind, 'records_in_retained_intronic_stretch', r['stats']['records_in_retained_stretch'])
                ctx.count(kind, 'frameshifting_records_in_retained_intronic_stretch',
                          r['stats'].get('frameshifting_in_retained_stretch', 0))
            known = cv_checks.fusion_both_fs_missing(ctx, r, missing) if missing else set()
            if known:
                ctx.add_violation(
                    f'{len(known)} peptide(s) of the fusion definition that need a frameshifting record of the LEFT '
                    f'and of the RIGHT retained intronic stretch are missing, e.g. {sorted(known)[:3]}',
                    dict(r['desc'], kind='missing-' + kind, missing=sorted(known)[:20]),
                    finding_key=cv_checks.KF_FUSION_FS)
                missing = missing - known
            if missing:
                d_ = r['desc']
                sec_end = kind in ('fusion', 'combo') and d_.get('breakpoint_tx') is not None and any(
                    s_ + 3 == d_['breakpoint_tx'] for s_ in d_.get('donor_sec', []))
                key = 'sec-codon-ends-at-fusion-breakpoint' if sec_end else None
                extra_txt = ''
                if key is None:
                    # the command's output on this very input may vary from run to run (open finding):
                    # the same input is run six more times
                    sizes = cv_checks.unstable_output(r)
                    if sizes:
                        key = cv_checks.KF_NONDET
                        extra_txt = f' — repeated runs of the same input give peptide sets of sizes {sizes}'
                ctx.add_violation(
                    f'{len(missing)} peptide(s) of the {kind} definition are missing from the callVariant '
                    f'FASTA, e.g. {sorted(missing)[:3]}{extra_txt}', dict(r['desc'], kind='missing-' + kind,
                                                                         missing=sorted(missing)[:20]),
                    finding_key=key)
    cv_checks.fusion_pairs(ctx, ctx.n(40, 600))
    # Layer G, function level, third stage, DIRECT: the real stages called in-process on small
    # transcripts with ARBITRARY annotations (CDS end on a stop codon or not, Sec annotations on
    # in-frame TGA / out of frame / anywhere, mRNA_end_NF): real `translate` vs `Translate.translateGraph`
    translate_direct.run_stream(ctx, ctx.n(4000, 60000))
    # binding node-collapsing parameters on indel-rich clusters: nothing may be lost
    cv_checks.collapse_stream(ctx, ctx.n(240, 3000), 'lost')
    ctx.coverage['worker_stats'] = {'trypsin-noexc': stats, 'trypsin-exc': stats2,
                                    'all-enzymes': stats3, 'special-codons': stats4,
                                    'nested-in-splicing': stats5}
    ctx.assumptions += [
        'PARTIAL: of the graph construction create_variant_graph on small records (Model/Tvg.lean, tied structurally by the G-tvgbuild stream and, for its path language, by the G-tvglang stream; language theorem Props.C01.tvg_create_variant_graph_language_eq) and translate for linear transcripts (Model/Translate.lean, tied by the G-translate / G-translate-direct streams; structure and language theorems Props.C01.translate_paths / translate_language_eq / translate_cp3_of_cp2) are modelled function by function; the other stages (fit_into_codons, cleavage graph, traversal) are tied to the definition only by '
        'this differential and the Layer G checkpoints. Alternative-splicing records are in (without nested intronic variants); fusion and circRNA backbones have their own streams (one fusion / one circRNA per input, assembled by the harness from the record fields).',
        'transcript-level inputs of the definition come through the repository loaders '
        '(VariantRecordPool.load_variants, get_transcript_sequence): covered by C11/C13/C14',
        'canonical pool comes from the real create_unique_peptide_pool (C10)']
