"""C01 — callVariant reports every variant peptide (completeness).
Real callVariant vs the Lean definition Spec.callVariant on generated inputs (dense variant
clusters, both strands, coding/non-coding, cds_start_NF, mRNA_end_NF, selenoproteins);
node-collapsing parameters must not change the output."""
from . import common, cv_checks
from .cv_checks import KF_EXC, KF_NOLA, KF_WIDE, KF_NESTED


KF_SECANCHOR = 'sec-codon-touched-by-anchor-unlabelled-stop'
KF_NOLA_MISC = 'no-lookahead-enzyme-miscleaved-missing'


def all_miscleaved(enz: str, peptides, w2f: bool = False) -> bool:
    """every peptide has a cleavage site of the enzyme's rule strictly inside; with W>F
    reassignment on, a peptide also counts when it is the W>F image of such a peptide of the
    same set (the tool derives the images from the peptide it did not report)"""
    import re as _re
    rule = cv_checks.rule_tables()[enz]

    def misc(p):
        return any(0 < m.end() < len(p) for m in _re.finditer(rule, p))
    peptides = list(peptides)
    for p in peptides:
        if misc(p):
            continue
        if w2f and any(len(q) == len(p) and q != p and misc(q)
                       and all(a == b or (a == 'W' and b == 'F') for a, b in zip(q, p))
                       for q in peptides):
            continue
        return False
    return True


def sec_anchor_only(r, missing) -> bool:
    """every missing peptide ends right in front of an annotated Sec codon whose LAST base is the
    anchor base of an insertion-type record (the codon itself is unchanged): the command reads
    that codon as a stop once the record is applied, but the peptide ending there carries no
    variant node and is not reported"""
    d = r['desc']
    if not d.get('coding') or not d.get('sec') or not d.get('orf'):
        return False
    from Bio.Seq import Seq
    seq = d.get('tx_seq')
    if not seq:
        return False
    o0 = d['orf'][0]
    cds = seq[o0:]
    aa = list(str(Seq(cds[:len(cds) // 3 * 3]).translate()))
    touched = []
    for s0 in d['sec']:
        k = (s0 - o0) // 3
        if (s0 - o0) % 3 == 0 and 0 <= k < len(aa):
            aa[k] = 'U'
            if any(v[0] == s0 + 2 and str(v[3]).startswith(str(v[2])) and len(v[3]) > len(v[2])
                   for v in d['vars']):
                touched.append(k)
    if not touched:
        return False
    prot = ''.join(aa)
    for p in missing:
        ok = False
        for k in touched:
            for q in (p, 'M' + p):
                if k - len(q) >= 0 and prot[k - len(q):k] == q:
                    ok = True
            # W>F images of such a peptide
            seg = prot[max(0, k - len(p)):k]
            if len(seg) == len(p) and all(a == b or (a == 'W' and b == 'F') for a, b in zip(seg, p)):
                ok = True
        if not ok:
            return False
    return True


def judge(ctx, res, stream):
    for r in res:
        if 'crash' in r:
            st, err = r['crash']
            enz = r['desc']['kw']['cleavage_rule']
            ctx.evaluated(stream, str(r['seed']), True, None)
            key = KF_NOLA if (st == 'crash:IndexError' and not cv_checks.has_lookahead(enz)) else None
            ctx.add_violation(f'callVariant crashed ({st}: {err}) on a valid input: nothing is reported',
                              cv_checks.replay_of(r, kind='crash'), finding_key=key)
            continue
        if 'line_A' not in r or r.get('no_spec'):
            continue
        SA, SB, real = r['S_A'], r['S_B'], r['real_set']
        ctx.evaluated(stream, str(r['seed']), bool(SA or real),
                      {'seed': r['seed'], 'kw': r['desc']['kw'], 'vars': r['desc']['vars'],
                       'n_expected': len(SA), 'n_reported': len(real)})
        core_missing = (SA & SB) - real
        exc_missing = (SA - real) - core_missing
        if core_missing:
            ctx.add_violation(
                f'{len(core_missing)} peptide(s) of the definition are missing from the callVariant '
                f'FASTA, e.g. {sorted(core_missing)[:3]}',
                cv_checks.replay_of(r, kind='missing', missing=sorted(core_missing)),
                finding_key=KF_WIDE if cv_checks.wide_lookahead(r['desc']['kw']['cleavage_rule'])
                else (KF_NESTED if cv_checks.has_nested(r)
                      else (KF_SECANCHOR if sec_anchor_only(r, sorted(core_missing))
                            else (KF_NOLA_MISC if (not cv_checks.has_lookahead(r['desc']['kw']['cleavage_rule'])
                                                   and not (real - (SA | SB))
                                                   and all_miscleaved(r['desc']['kw']['cleavage_rule'], core_missing,
                                                                      bool(r['desc']['kw'].get('w2f_reassignment'))))
                                  else None))))
        elif exc_missing:
            ctx.add_violation(
                f'peptide(s) {sorted(exc_missing)[:3]} missing: cleavage-exception context split across '
                'graph nodes', cv_checks.replay_of(r, kind='missing-exception', missing=sorted(exc_missing)),
                finding_key=KF_EXC)
        for v in r.get('variations', []):
            if v['name'] == 'collapse':
                ctx.count(stream, 'collapse_runs')
                if v['status'] != 'ok' or set(v['real']) != real:
                    ctx.add_violation(
                        f'node-collapsing parameters {v["what"]} changed the output '
                        f'(status {v["status"]}; lost {sorted(real - set(v["real"]))[:3]}, '
                        f'gained {sorted(set(v["real"]) - real)[:3]})',
                        cv_checks.replay_of(r, kind='collapse', collapse=v['what']))


def run(ctx: common.Ctx):
    ctx.coverage['rule'] = (
        'single-gene references from moPepGen.fake (both strands, coding with cds_start_NF / '
        'mRNA_end_NF / Sec sites, non-coding) + 1-7 SNV/insertion/deletion records (+ in 30% of the cases 1-2 alternative-splicing Insertion/Deletion/Substitution records from moPepGen.fake) clustered '
        'around start codon, stop codon, Sec codons, exon junctions or random points; random '
        'miscleavage 0-3, length / mass limits, SECT and W2F flags; streams: trypsin without '
        'exception (exact), trypsin with the default exception, all 35 enzymes; each case = real '
        'callVariant vs Spec.callVariant evaluated by the native Lean driver over ALL compatible '
        'subsets of the usable records; half of the cases are re-run with other node-collapsing '
        'parameters; plus two-gene inputs with ONE fusion (exonic / intronic breakpoints, coding and '
        'non-coding donors), single-gene inputs with ONE circRNA / ciRNA, and two-gene inputs with a fusion AND a circRNA of the donor (three GVF files), each with small records: real '
        'FASTA vs union of Spec.callVariant per transcript and Spec.callBackbone / Spec.callCirc. '
        'non-trivial = definition or tool reports >= 1 peptide. Layer G: in the trypsin-noexc and '
        'all-enzymes streams the graphs the real run built after create_variant_graph / fit_into_codons / '
        'translate / create_cleavage_graph are dumped (method wrappers, no change to /repo) and the '
        'checkpoint predicates of Model/Graph.lean are evaluated on them by the driver (G-* streams: '
        'language of every reading frame = sequences of all compatible combinations; cleavage sites '
        'are node boundaries). Layer G, function level (internal stream G-tvgbuild): for every case of the '
        'trypsin-noexc stream whose records are all SNV / RNAEditingSite / INDEL, the graph the real '
        'create_variant_graph built (dump after the stage, with reference ranges and typed edges) is compared '
        'in canonical form - nodes keyed by frame / kind / range or record ids / sequence, typed edges as '
        'pairs of keys, sorted - with the graph of the Lean model Tvg.createVariantGraph on the same '
        'transcript fields and the same records in the order the real call received them; '
        'non-trivial = the graph has a variant node. Internal stream G-tvglang, same cases: the record lists of '
        'ALL maximal paths of the real graph after create_variant_graph (walked in the dump from the child of '
        'the frame root, per frame active from the start; graphs with more than 12 distinct records skipped) '
        'against Tvg.attachedSubs of the model graph (Props.C01.tvg_attached_subs_spec), prefixed by whether '
        'the input satisfies Tvg.poolInputOk (evaluated independently in Python on the real call arguments); '
        'non-trivial = some path takes two or more records')
    base = dict(vary=True, per_tx=(1, 7), max_size=6, window=24, witness=False, as_frac=0.3, junction_mnv=0.1)
    res = cv_checks.explore(ctx, ctx.n(220, 4000), dict(base, exception=None, variations=['collapse'], stages=True,
                                                        tvgbuild=True))
    stats = dict(ctx.coverage['worker_stats'])
    judge(ctx, res, 'trypsin-noexc')
    cv_checks.judge_checkpoints(ctx, res, 'missing')
    # Layer G, function level: structural correspondence of the real graph after
    # create_variant_graph with Model/Tvg.lean (cases with only SNV / RNAEditingSite / INDEL records)
    cv_checks.judge_tvgbuild(ctx, res)
    # … and its path language: the record lists of all maximal paths of the real graph vs
    # `Tvg.attachedSubs` of the model's graph (Props.C01.tvg_attached_subs_spec)
    cv_checks.judge_tvglang(ctx, res)
    res = cv_checks.explore(ctx, ctx.n(120, 2000), dict(base, exception='auto'))
    judge(ctx, res, 'trypsin-exc')
    stats2 = dict(ctx.coverage['worker_stats'])
    res = cv_checks.explore(ctx, ctx.n(140, 2500),
                            dict(base, exception=None, enzymes=cv_checks.enzymes_all(), stages=True))
    judge(ctx, res, 'all-enzymes')
    cv_checks.judge_checkpoints(ctx, res, 'missing')
    stats3 = dict(ctx.coverage['worker_stats'])
    # every record of the case on or next to ONE special codon (Sec / first codon / stop codon /
    # exon junction), half of them exactly on its edges; Sec termination mostly on
    res = cv_checks.explore(ctx, ctx.n(300, 5000),
                            dict(base, exception=None, per_tx=(1, 4), special=['sec', 'sec', 'start', 'stop', 'junction'], sec_near_start=0.6, coding_only=True))
    judge(ctx, res, 'special-codons')
    stats4 = dict(ctx.coverage['worker_stats'])
    # Sec termination inside the START node: Sec a few codons behind the ATG with no K / R in between, a
    # long in-frame 5'UTR run without K / R / stop in front of the ATG (the start codon lies in the
    # second half of its node), records between the ATG and the Sec, SECT on
    res = cv_checks.explore(ctx, ctx.n(200, 3000),
                            dict(base, exception=None, per_tx=(1, 3), max_size=4, window=16, as_frac=0.0,
                                 special=['sec_prefix', 'sec_prefix', 'start'], sec_near_start=0.9,
                                 start_context=1.0, coding_only=True, variations=[], stages=False,
                                 tvgbuild=False, kw=dict(selenocysteine_termination=True)))
    judge(ctx, res, 'sec-in-start-node')
    # small records INSIDE the stretch a splicing Insertion / Substitution inserts
    res = cv_checks.explore(ctx, ctx.n(60, 1500), dict(base, exception=None, per_tx=(1, 4), as_frac=1.0, nested_frac=1.0, stages=True))
    judge(ctx, res, 'nested-in-splicing')
    cv_checks.judge_checkpoints(ctx, res, 'missing')
    stats5 = dict(ctx.coverage['worker_stats'])
    for kind, n in (('fusion', ctx.n(90, 1500)), ('circ', ctx.n(90, 1500)), ('combo', ctx.n(70, 1200))):
        bres = cv_checks.explore_backbone(ctx, kind, n, dict(exception=None))
        for r in bres:
            if 'crash' in r:
                ctx.evaluated(kind, str(r['seed']), True, None)
                ctx.add_violation(f'callVariant crashed ({r["crash"][0]}: {r["crash"][1]}) on a valid '
                                  f'{kind} input', dict(r.get('desc', {}), kind='crash'))
                continue
            if 'S' not in r:
                continue
            ctx.evaluated(kind, str(r['seed']), bool(r['S'] or r['real_set']),
                          dict(r['desc'], n_expected=len(r['S']), n_reported=len(r['real_set'])))
            missing = r['S'] - r['real_set']
            if missing:
                ctx.add_violation(
                    f'{len(missing)} peptide(s) of the {kind} definition are missing from the callVariant '
                    f'FASTA, e.g. {sorted(missing)[:3]}', dict(r['desc'], kind='missing-' + kind,
                                                               missing=sorted(missing)[:20]))
    cv_checks.fusion_pairs(ctx, ctx.n(40, 600))
    # binding node-collapsing parameters on indel-rich clusters: nothing may be lost
    cv_checks.collapse_stream(ctx, ctx.n(240, 3000), 'lost')
    ctx.coverage['worker_stats'] = {'trypsin-noexc': stats, 'trypsin-exc': stats2,
                                    'all-enzymes': stats3, 'special-codons': stats4,
                                    'nested-in-splicing': stats5}
    ctx.assumptions += [
        'PARTIAL: of the graph construction only create_variant_graph on small records is modelled function by function (Model/Tvg.lean, tied structurally by the G-tvgbuild stream and, for its path language, by the G-tvglang stream; for the model the language theorem Props.C01.tvg_create_variant_graph_language_eq is proved); the later stages (fit_into_codons, translate, cleavage graph, traversal) are tied to the definition only by '
        'this differential and the Layer G checkpoints. Alternative-splicing records are in (without nested intronic variants); fusion and circRNA backbones have their own streams (one fusion / one circRNA per input, assembled by the harness from the record fields).',
        'transcript-level inputs of the definition come through the repository loaders '
        '(VariantRecordPool.load_variants, get_transcript_sequence): covered by C11/C13/C14',
        'canonical pool comes from the real create_unique_peptide_pool (C10)']
