"""C05 — options and inputs act monotonically on the peptide set (paired real runs)."""
import multiprocessing as mp
import random
import shutil
import traceback

from . import common, cv_checks, gen_ref, pipe, pipe_explore


def n_sites(seq, kw):
    from moPepGen.aa.AminoAcidSeqRecord import AminoAcidSeqRecord
    from Bio.Seq import Seq
    exc = kw.get('cleavage_exception')
    if exc == 'auto':
        exc = 'trypsin_exception' if kw['cleavage_rule'] == 'trypsin' else None
    s = AminoAcidSeqRecord(Seq(seq)).find_all_enzymatic_cleave_sites(kw['cleavage_rule'], exc)
    return len([x for x in s if x < len(seq)])


def mass(seq):
    from Bio.SeqUtils import molecular_weight
    return molecular_weight(seq, 'protein')


def judge(ctx, res, stream):
    for r in res:
        if 'line_A' not in r or r.get('no_spec'):
            continue
        base = r['real_set']
        kw = r['desc']['kw']
        ctx.evaluated(stream, str(r['seed']), bool(base), None)
        for v in r.get('variations', []):
            name = v['name']
            ctx.count(stream, name + '_pairs')
            if v['status'] != 'ok':
                ctx.add_violation(f'paired run ({name}: {v["what"]}) crashed: {v["status"]}',
                                  cv_checks.replay_of(r, kind=name, what=v['what']))
                continue
            other = set(v['real'])
            if name == 'addvar':
                # `other` was run on a SUBSET of the records: it must be contained in the full run
                lost = other - base
                if lost:
                    # known class: with a cleavage exception in force the command follows, per graph
                    # shape, the reading with or without the exception (open finding
                    # exception-context-split-across-nodes).  A lost peptide that is a product ONLY
                    # when the exception is ignored (in S_B, not in S_A of the full record set — the
                    # haplotypes of the subset are among those of the full set) belongs to it.
                    key = None
                    if kw.get('cleavage_exception') and r.get('S_B') is not None \
                            and all(p_ in r['S_B'] and p_ not in r['S_A'] for p_ in lost):
                        key = cv_checks.KF_EXC
                    ctx.add_violation(
                        f'adding GVF records removed peptide(s) {sorted(lost)[:3]} (records added: '
                        f'{v["added_ids"][:3]})', cv_checks.replay_of(r, kind='addvar', what=v['what']),
                        finding_key=key)
                added = base - other
                bad = []
                for p in sorted(added):
                    ents = [e for h in r['headers'].get(p, []) for e in h.split(' ')]
                    if not any(any(a in e.split('|') for a in v['added_ids']) for e in ents):
                        bad.append((p, ents))
                if bad:
                    ctx.add_violation(
                        f'peptide {bad[0][0]} appears only after adding records {v["added_ids"][:3]} but '
                        f'none of its header entries {bad[0][1][:2]} names an added record',
                        cv_checks.replay_of(r, kind='addvar-attribution', what=v['what']),
                        finding_key='label-omits-required-records')
                if added:
                    ctx.evaluated(stream + ':' + name, str(r['seed']), True,
                                  {'seed': r['seed'], 'pair': name, 'what': v['what'],
                                   'n_added': len(added)})
                continue
            if name == 'cno':
                lost = base - other
                if lost:
                    ctx.add_violation(f'enabling --coding-novel-orf removed peptide(s) {sorted(lost)[:3]}',
                                      cv_checks.replay_of(r, kind='cno', what=v['what']))
                added = other - base
                noorf = [p for p in sorted(added)
                         if not any(any(x.startswith('ORF') for x in e.split('|'))
                                    for h in v['headers'].get(p, []) for e in h.split(' '))]
                if noorf:
                    ctx.add_violation(
                        f'peptide {noorf[0]} appears only with --coding-novel-orf but no header entry '
                        f'{v["headers"].get(noorf[0])} carries an ORF tag',
                        cv_checks.replay_of(r, kind='cno-attribution', what=v['what']))
                unreal = [p for p in sorted(added) if p not in v.get('S_A', set()) and p not in r['S_A']]
                if unreal and not cv_checks.has_nested(r):
                    ctx.add_violation(
                        f'with --coding-novel-orf callVariant reports {unreal[:3]}, not a digestion product '
                        'of any compatible combination read from any ATG',
                        cv_checks.replay_of(r, kind='cno-unrealizable', what=v['what']))
                if added:
                    ctx.evaluated(stream + ':cno', str(r['seed']), True,
                                  {'seed': r['seed'], 'pair': 'cno', 'n_added': len(added)})
                continue
            # relaxed configuration
            S2 = v.get('S_A', set())
            lost = base - other
            unexplained = [p for p in lost if p in S2]      # the definition keeps it: must be there
            if unexplained:
                ctx.add_violation(
                    f'relaxing {v["what"]} removed peptide(s) {sorted(unexplained)[:3]} that the definition '
                    'still contains under the relaxed setting',
                    cv_checks.replay_of(r, kind=name, what=v['what']))
            elif lost:
                ctx.count(stream, 'lost_but_excluded_by_relaxed_reference_or_canonical', len(lost))
            added = other - base
            bad = []
            for p in sorted(added):
                ents = [e for h in v['headers'].get(p, []) for e in h.split(' ')]
                if name == 'sect':
                    ok = any('SECT-' in e for e in ents)
                elif name == 'w2f':
                    ok = any('W2F-' in e for e in ents)
                elif name == 'minlen':
                    ok = len(p) < kw['min_length']
                elif name == 'maxlen':
                    ok = len(p) > kw['max_length']
                elif name == 'minmw':
                    ok = mass(p) < kw['min_mw']
                elif name == 'misc':
                    # the count on the isolated string can miss context (e.g. the Met-removed twin
                    # of MRP…): fall back on the definition — by Props.C05.added_outside_stricter a
                    # peptide outside the definition's stricter set is not realizable there
                    ok = n_sites(p, kw) > kw['miscleavage'] or p not in r['S_A']
                else:
                    ok = True
                if not ok and p in r['S_A']:
                    # the definition owes the peptide under the STRICTER setting already, yet it only
                    # shows after the relaxation: tolerated only where an open completeness finding of
                    # C01 explains the stricter run (cleavage exception in force, a record nested in a
                    # splicing insertion); otherwise the relaxation "added" something it cannot own
                    from .cv_explore import resolve_exc
                    ok = resolve_exc(kw) is not None or cv_checks.has_nested(r)
                    if not ok:
                        ctx.count(stream, 'added_within_stricter_limit')
                if not ok:
                    bad.append((p, ents))
            if bad:
                ctx.add_violation(
                    f'peptide {bad[0][0]} (entries {bad[0][1][:2]}) appears after relaxing {v["what"]} but is '
                    'not attributable to the relaxation', cv_checks.replay_of(r, kind=name + '-attribution',
                                                                               what=v['what']))
            if added or lost:
                ctx.evaluated(stream + ':' + name, str(r['seed']), True,
                              {'seed': r['seed'], 'pair': name, 'what': v['what'],
                               'n_added': len(added), 'n_lost': len(lost)})


def restrict_worker(job):
    """restrictive switches on multi-unit inputs (fusion / circRNA): subset relation"""
    seed, tier = job
    rng = random.Random(seed)
    out = {'stats': {}, 'violations': [], 'seed': seed}
    case = pipe_explore.build_case(seed, rng.choice([2, 3, 4]),
                                   dict(per_tx=(0, 3), fusion_frac=0.5, circ_frac=0.6, alt_splice_frac=0.2))
    if case is None:
        return out
    try:
        with gen_ref.quiet():
            gen_ref.write_gvfs(case, case.meta['records'])
        if not case.gvfs:
            return out
        base = gen_ref.run_call_variant(case, tag='b')
        if base.status != 'ok':
            out['stats']['baseline_crash'] = 1
            return out
        out['stats']['runs'] = 1
        B = set(base.fasta)
        out['nontrivial'] = bool(B)
        for name, kw in (('noncanonical_transcripts', dict(noncanonical_transcripts=True)),
                         ('backsplicing_only', dict(backsplicing_only=True))):
            r = gen_ref.run_call_variant(case, tag='r', **kw)
            out['stats'][name + '_pairs'] = 1
            if r.status != 'ok':
                out['violations'].append((f'--{name} run crashed: {r.status} {r.error}', {'seed': seed}))
                continue
            extra = set(r.fasta) - B
            if extra:
                out['violations'].append((
                    f'--{name.replace("_", "-")} reports peptide(s) {sorted(extra)[:3]} that the unrestricted '
                    'run does not', {'seed': seed, 'switch': name,
                                     'headers': [r.fasta[p] for p in sorted(extra)[:3]]}))
            if len(r.fasta) < len(B):
                out['stats'][name + '_strictly_smaller'] = 1
        return out
    except Exception:   # noqa
        out['stats']['worker_error'] = 1
        out['error'] = traceback.format_exc()[-1200:]
        return out
    finally:
        case.cleanup()


def collision_worker(job):
    """limits placed EXACTLY on peptides that are canonical: a preliminary run tells which peptides
    the command reports; up to three of them (ending in K / R, trypsin) are made canonical by
    synthetic proteome entries without an annotated transcript — one as the N-terminal product
    behind the start methionine (`M` + q: the Met-removed form is q, the form with M is one residue
    longer), the others as internal products.  Then max_length = |q| vs |q| + 1 / + 4 and
    min_length = |q| vs |q| - 1 / - 2: the run with the stricter limit must be contained in the
    relaxed one (the canonical products within the strict limit are canonical under the relaxed one
    too, see Props.C05.callVariant_mono_limits_partial)."""
    from . import cv_explore
    seed, tier = job
    rng = random.Random(seed)
    out = {'stats': {}, 'violations': [], 'seed': seed, 'pairs': []}
    case = gen_ref.Case(gen_ref.work_dir('c05col'))
    try:
        with gen_ref.quiet():
            gen_ref.make_reference(case, seed, 1)
            genome, anno, _ = gen_ref.load_reference(case)
            tx_id = list(anno.transcripts.keys())[0]
            recs = gen_ref.dense_variants(anno, genome, tx_id, rng, rng.randint(2, 6), max_size=4, window=60)
            gen_ref.write_gvfs(case, recs)
        if not case.gvfs:
            return out
        kw = cv_explore.default_kw(rng, False, None)
        kw['max_length'] = 30
        kw['min_length'] = 6
        pre = gen_ref.run_call_variant(case, tag='pre', **kw)
        if pre.status != 'ok':
            out['stats']['baseline_crash'] = 1
            return out
        cand = sorted(q for q in pre.fasta if q[-1] in 'KR' and 'X' not in q and '*' not in q
                      and 8 <= len(q) <= 24 and not q.startswith('M'))
        if not cand:
            out['stats']['no_candidate'] = 1
            return out
        picks = rng.sample(cand, min(3, len(cand)))
        with open(case.proteome, 'at') as fh:
            for n_, q in enumerate(picks):
                body = ('M' + q) if n_ == 0 else ('MAGGSK' + q)
                fh.write(f'>COLLP{n_}|COLLT{n_}|COLLG{n_}|XXX\n{body}AAGGSAAGGSR\n')
        out['stats']['runs'] = 1
        out['desc'] = {'seed': seed, 'made_canonical': picks, 'n_terminal': picks[0]}
        for q in picks:
            n = len(q)
            for what, strict, relaxed in (
                    ('max_length', dict(max_length=n), dict(max_length=n + 1)),
                    ('max_length', dict(max_length=n), dict(max_length=n + 4)),
                    ('min_length', dict(min_length=n), dict(min_length=n - 1)),
                    ('min_length', dict(min_length=n), dict(min_length=n - 2))):
                a = gen_ref.run_call_variant(case, tag='s', **dict(kw, **strict))
                b = gen_ref.run_call_variant(case, tag='r', **dict(kw, **relaxed))
                out['pairs'].append({'q': q, 'what': what, 'strict': strict, 'relaxed': relaxed,
                                     'status': (a.status, b.status),
                                     'strict_real': sorted(a.fasta) if a.status == 'ok' else [],
                                     'relaxed_real': sorted(b.fasta) if b.status == 'ok' else []})
        return out
    except Exception:   # noqa
        out['stats']['worker_error'] = 1
        out['error'] = traceback.format_exc()[-1200:]
        return out
    finally:
        case.cleanup()


def as_twin_worker(job):
    """two alternative-splicing insertions of ONE transcript with the same anchor and the same donor
    start but different donor ends (two alternative splice sites of one retained stretch), under
    their own ids, plus 0-3 small records: the run with one of them (one file) and the runs with
    both (one file / two files in either order) — adding the second record or its file may only
    add peptides."""
    import copy as _copy
    import random as _r
    seed, tier = job
    rng = random.Random(seed)
    out = {'stats': {}, 'seed': seed, 'runs': {}}
    case = gen_ref.Case(gen_ref.work_dir('c05tw'))
    try:
        from moPepGen import fake as _fake
        with gen_ref.quiet():
            gen_ref.make_reference(case, seed, 1)
            genome, anno, _ = gen_ref.load_reference(case)
        tx_id = list(anno.transcripts.keys())[0]
        if len(anno.transcripts[tx_id].exon) < 3:
            out['stats']['too_few_exons'] = 1
            return out
        a0 = None
        _r.seed(rng.randrange(1 << 30))
        for _ in range(6):
            try:
                with gen_ref.quiet():
                    a0 = _fake.fake_intron_insertion(anno, genome, tx_id, 'RI')
                break
            except Exception:   # noqa
                a0 = None
        if a0 is None:
            out['stats']['no_insertion'] = 1
            return out
        ds, de = int(a0.attrs['DONOR_START']), int(a0.attrs['DONOR_END'])
        k = rng.randint(1, 7)
        if de - ds <= k + 3:
            out['stats']['stretch_too_short'] = 1
            return out
        twin = _copy.deepcopy(a0)
        twin.attrs['DONOR_END'] = de - k
        twin.id = f'{a0.id}-ALT{k}'
        with gen_ref.quiet():
            small = gen_ref.dense_variants(anno, genome, tx_id, rng, rng.randint(0, 3), max_size=3, window=80)
        out['desc'] = {'seed': seed, 'tx': tx_id, 'first': a0.id, 'second': twin.id,
                       'donor': [ds, de], 'second_donor_end': de - k, 'small': [r.id for r in small]}
        first, second = (a0, twin) if rng.random() < 0.5 else (twin, a0)
        out['desc']['base_record'] = first.id
        layouts = {'one': ([first] + small, None),
                   'both-one-file': ([first, second] + small, None),
                   'both-two-files': ([first, second] + small, [[0] + list(range(2, 2 + len(small))), [1]]),
                   'both-two-files-reversed': ([second, first] + small, [[0], [1] + list(range(2, 2 + len(small)))])}
        for name, (recs, layout) in layouts.items():
            with gen_ref.quiet():
                gen_ref.write_gvfs(case, recs, layout=layout)
            r = gen_ref.run_call_variant(case, tag=name.replace('-', '_'))
            out['runs'][name] = {'status': r.status, 'real': sorted(r.fasta) if r.status == 'ok' else []}
        out['stats']['runs'] = 1
        return out
    except Exception:   # noqa
        out['stats']['worker_error'] = 1
        out['error'] = traceback.format_exc()[-1200:]
        return out
    finally:
        case.cleanup()


def as_twin_stream(ctx, n_jobs, stream='as-records-sharing-anchor-and-donor-start'):
    jobs = [(ctx.rng('twjob', i).randrange(1 << 30), ctx.tier) for i in range(n_jobs)]
    with mp.get_context('fork').Pool(14) as pool:
        res = pool.map(as_twin_worker, jobs)
    stats = {}
    for r, job in zip(res, jobs):
        for k, v in r['stats'].items():
            stats[k] = stats.get(k, 0) + v
        if 'error' in r:
            ctx.coverage.setdefault('worker_errors', []).append(r['error'])
        if not r['runs']:
            continue
        one = r['runs']['one']
        if one['status'] != 'ok':
            continue
        base = set(one['real'])
        for name, rr in r['runs'].items():
            if name == 'one':
                continue
            ctx.count(stream, 'pairs')
            ctx.evaluated(stream, f"{r['seed']}:{name}", bool(set(rr['real']) - base), dict(r['desc'], pair=name))
            if rr['status'] != 'ok':
                ctx.add_violation(f'callVariant fails ({rr["status"]}) when a second splicing record with the same anchor '
                                  f'and donor start is supplied ({name})', dict(r['desc'], kind='as-twin', pair=name))
                continue
            lost = base - set(rr['real'])
            if lost:
                def _ok(o, name=name):
                    return not (set(o['runs']['one']['real']) - set(o['runs'][name]['real']))
                flaky = cv_checks.relation_flaky(as_twin_worker, job, _ok)
                ctx.add_violation(
                    f'adding the record {r["desc"]["second"] if r["desc"]["base_record"] == r["desc"]["first"] else r["desc"]["first"]} '
                    f'({name}) removed {len(lost)} peptide(s) of the record {r["desc"]["base_record"]}, e.g. {sorted(lost)[:3]}',
                    dict(r['desc'], kind='as-twin', pair=name, lost=sorted(lost)[:20]),
                    finding_key=cv_checks.KF_NONDET if flaky else None)
    ctx.coverage.setdefault('worker_stats_extra', {})[stream] = stats
    shutil.rmtree(gen_ref.WORK, ignore_errors=True)


def collision_stream(ctx, n_jobs, stream='canonical-on-the-limit'):
    jobs = [(ctx.rng('coljob', i).randrange(1 << 30), ctx.tier) for i in range(n_jobs)]
    with mp.get_context('fork').Pool(14) as pool:
        res = pool.map(collision_worker, jobs)
    stats = {}
    for r, job in zip(res, jobs):
        for k, v in r['stats'].items():
            stats[k] = stats.get(k, 0) + v
        if 'error' in r:
            ctx.coverage.setdefault('worker_errors', []).append(r['error'])
        if not r['pairs']:
            continue
        ctx.evaluated(stream, str(r['seed']), True, r.get('desc'))
        reported = 0
        for pr in r['pairs']:
            ctx.count(stream, pr['what'] + '_pairs')
            if pr['status'] != ('ok', 'ok'):
                ctx.add_violation(f'paired run ({pr["what"]} {pr["strict"]} -> {pr["relaxed"]}) crashed: {pr["status"]}',
                                  dict(r['desc'], kind='canonical-on-the-limit', pair=pr))
                continue
            lost = set(pr['strict_real']) - set(pr['relaxed_real'])
            if len(pr['relaxed_real']) > len(pr['strict_real']):
                ctx.count(stream, 'pairs_with_added_peptides')
            if lost and reported < 2:
                reported += 1

                def _ok(o, pr=pr):
                    for p2 in o['pairs']:
                        if p2['q'] == pr['q'] and p2['strict'] == pr['strict'] and p2['relaxed'] == pr['relaxed']:
                            return not (set(p2['strict_real']) - set(p2['relaxed_real']))
                    return False
                flaky = cv_checks.relation_flaky(collision_worker, job, _ok)
                ctx.add_violation(
                    f'relaxing {pr["what"]} {pr["strict"]} -> {pr["relaxed"]} removed peptide(s) {sorted(lost)[:3]} '
                    f'(proteome entries make {r["desc"]["made_canonical"]} canonical; {pr["q"]} lies exactly on the strict limit)',
                    dict(r['desc'], kind='canonical-on-the-limit', pair={k: pr[k] for k in ('q', 'what', 'strict', 'relaxed')},
                         lost=sorted(lost)[:20]),
                    finding_key=cv_checks.KF_NONDET if flaky else None)
    ctx.coverage.setdefault('worker_stats_extra', {})[stream] = stats
    shutil.rmtree(gen_ref.WORK, ignore_errors=True)


def run(ctx: common.Ctx):
    ctx.coverage['rule'] = (
        'paired REAL runs on generated inputs: (a) same input under a configuration and a relaxed one '
        '(miscleavage +1/+2, min-length -1..-3, max-length +1..+10, min-mw -100/-200, SECT on, W2F on, --coding-novel-orf on for coding transcripts: superset, added peptides carry an ORF tag and are products of some combination read from some ATG), '
        '(b) a random strict subset of the GVF records vs all records, (b2) a GVF FILE added: inputs with small records + one fusion + one circRNA of the donor in three files, run without the fusion file / without the circRNA file vs all files, (c) --noncanonical-transcripts and '
        '--backsplicing-only vs the unrestricted run on multi-unit inputs with fusions and circRNAs. '
        'Relaxed/added runs must contain the stricter run except for peptides the Lean definition itself '
        'excludes under the relaxed setting; every added peptide must be attributable (SECT/W2F entry, '
        'outside the stricter limit, header names an added record). non-trivial = pair with a non-empty '
        'difference')
    base = dict(vary=True, per_tx=(2, 7), max_size=6, window=24, witness=False, exception=None,
                as_frac=0.3, junction_mnv=0.25)
    res = cv_checks.explore(ctx, ctx.n(130, 3000),
                            dict(base, variations=['misc', 'minlen', 'maxlen', 'minmw', 'sect', 'w2f', 'addvar', 'cno']))
    s1 = dict(ctx.coverage['worker_stats'])
    judge(ctx, res, 'config-pairs')
    res = cv_checks.explore(ctx, ctx.n(60, 1000),
                            dict(base, exception='auto', variations=['misc', 'addvar']))
    judge(ctx, res, 'config-pairs-exc')
    s2 = dict(ctx.coverage['worker_stats'])
    res = cv_checks.explore(ctx, ctx.n(200, 4000),
                            dict(base, per_tx=(1, 4), special=['sec', 'sec', 'start', 'stop', 'junction'], sec_near_start=0.6, coding_only=True,
                                 kw={'selenocysteine_termination': False},
                                 variations=['sect', 'addvar']))
    judge(ctx, res, 'special-codons')
    s2b = dict(ctx.coverage['worker_stats'])
    # Sec termination switched on for selenoproteins whose Sec sits a few codons behind the
    # start codon (planted, with a cleavage site between them) and records clustered around it
    res = cv_checks.explore(ctx, ctx.n(200, 4000),
                            dict(base, per_tx=(1, 4), as_frac=0.0, special=['sec'], sec_near_start=1.0,
                                 coding_only=True, kw={'selenocysteine_termination': False},
                                 variations=['sect']))
    judge(ctx, res, 'sec-near-start')
    s2c = dict(ctx.coverage['worker_stats'])
    # the same selenoproteins with Sec termination ON in both runs and a SMALL maximum length that
    # is then relaxed: products cut short by the Sec must not depend on the untruncated length
    res = cv_checks.explore(ctx, ctx.n(160, 3000),
                            dict(base, per_tx=(1, 4), as_frac=0.0, special=['sec'], sec_near_start=1.0,
                                 coding_only=True, kw={'selenocysteine_termination': True},
                                 kw_choices={'max_length': [9, 11, 13, 15, 17, 19], 'min_length': [5, 7],
                                             'miscleavage': [1, 2, 3]},
                                 variations=['maxlen', 'maxlen']))
    judge(ctx, res, 'sect-maxlen')
    s2d = dict(ctx.coverage['worker_stats'])
    # adding a GVF FILE: fusion + circRNA of the donor + small records in three files; the run
    # without the fusion file (without the circRNA file) must be contained in the full run
    bres = cv_checks.explore_backbone(ctx, 'combo', ctx.n(70, 1200), dict(exception=None))
    for r in bres:
        if 'sub' not in r or 'real' not in r:
            continue
        full = set(r['real'])
        for name, sr in r['sub'].items():
            ctx.evaluated('add-gvf-file', f"{r['seed']}:{name}", bool(full - set(sr['real'])),
                          dict(r['desc'], pair=name))
            if sr['status'] != 'ok':
                ctx.add_violation(f'run {name} crashed: {sr["status"]}', dict(r['desc'], kind=name))
                continue
            lost = set(sr['real']) - full
            if lost:
                ctx.add_violation(
                    f'adding the GVF file ({name} -> all files) removed {len(lost)} peptide(s), e.g. '
                    f'{sorted(lost)[:3]}', dict(r['desc'], kind='add-file-removes', pair=name,
                                               lost=sorted(lost)[:20]))
    # a second fusion record from the same donor breakpoint may only add peptides
    cv_checks.fusion_pairs(ctx, ctx.n(40, 600))
    cv_checks.fusion_dense_stream(ctx, ctx.n(48, 600))
    cv_checks.circ_same_site_stream(ctx, ctx.n(90, 1000))
    collision_stream(ctx, ctx.n(28, 500))
    as_twin_stream(ctx, ctx.n(42, 600))
    n = ctx.n(30, 400)
    jobs = [(ctx.rng('rjob', i).randrange(1 << 30), ctx.tier) for i in range(n)]
    with mp.get_context('fork').Pool(14) as pool:
        rres = pool.map(restrict_worker, jobs)
    s3 = {}
    for r in rres:
        for k, v in r['stats'].items():
            s3[k] = s3.get(k, 0) + v
        if r['stats'].get('runs'):
            ctx.evaluated('restrictive-switches', str(r['seed']), r.get('nontrivial', False),
                          {'seed': r['seed']})
        for what, d in r['violations'][:2]:
            ctx.add_violation(what, d)
    ctx.coverage['worker_stats'] = {'config-pairs': s1, 'config-pairs-exc': s2, 'special-codons': s2b, 'sec-near-start': s2c, 'sect-maxlen': s2d,
                                    'restrictive-switches': s3}
    shutil.rmtree(gen_ref.WORK, ignore_errors=True)
    ctx.assumptions += [
        'PARTIAL: monotonicity is proved for the definition (Props.C05), for the real command it is '
        'observed on paired runs',
        'the unconditional "relaxing only adds" is false for the definition itself '
        '(Props.C05.relaxing_misc_can_remove); a peptide lost on relaxation is tolerated iff the Lean '
        'definition excludes it under the relaxed setting']
