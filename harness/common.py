"""Shared machinery of the checks: translator run, Lean build, axiom audit,
native driver, evidence writer, known findings, replay files.

Run with /venv/bin/python (moPepGen and Biopython are importable there).
"""
from __future__ import annotations
import hashlib
import json
import os
import random
import re
import subprocess
import sys
import time
from typing import Callable, Dict, Iterable, List, Optional, Sequence, Tuple

VERIF = os.path.dirname(os.path.dirname(os.path.abspath(__file__)))
LEAN_DIR = os.path.join(VERIF, 'lean')
REPO = os.environ.get('VERIF_REPO', '/repo')
# the code under test is imported from REPO, never from an installed copy: put it first on the
# path before anything can import moPepGen
if REPO not in sys.path:
    sys.path.insert(0, REPO)
DRIVER = os.path.join(LEAN_DIR, '.lake', 'build', 'bin', 'mpgdriver')
PY = '/venv/bin/python'
GUARD = 'MOPEPGEN_VERIF'
ALLOWED_AXIOMS = {'propext', 'Classical.choice', 'Quot.sound'}
FORBIDDEN = re.compile(
    r'\bsorry\b|\badmit\b|^\s*axiom\s|native_decide|bv_decide|implemented_by'
    r'|\bunsafe\s|maxHeartbeats\s+0', re.M)

TRUSTED_BASE = [
    'Lean 4.33.0 kernel (theorems re-checked by `lake build`; thorough tier also leanchecker)',
    'axioms limited to propext, Classical.choice, Quot.sound (audited by #print axioms on every run)',
    'translator/gen_tables.py (source text -> Generated/*.lean)',
    'correspondence harness (generators, canonicalisation, adapters calling the real code)',
]


# --------------------------------------------------------------------- utils
def rng_for(seed: int, prop: str, stream: str = '', case: int = 0) -> random.Random:
    h = hashlib.sha256(f'{seed}|{prop}|{stream}|{case}'.encode()).digest()
    return random.Random(int.from_bytes(h[:8], 'big'))


def strip_lean_comments(text: str) -> str:
    # nested block comments
    out = []
    i, depth = 0, 0
    n = len(text)
    while i < n:
        if text.startswith('/-', i):
            depth += 1
            i += 2
        elif depth and text.startswith('-/', i):
            depth -= 1
            i += 2
        elif depth:
            i += 1
        elif text.startswith('--', i):
            j = text.find('\n', i)
            i = n if j < 0 else j
        else:
            out.append(text[i])
            i += 1
    return ''.join(out)


def run(cmd: Sequence[str], cwd: Optional[str] = None, timeout: Optional[float] = None,
        env: Optional[dict] = None, inp: Optional[str] = None) -> Tuple[int, str, str]:
    p = subprocess.run(cmd, cwd=cwd, timeout=timeout, env=env, input=inp,
                       capture_output=True, text=True)
    return p.returncode, p.stdout, p.stderr


# ------------------------------------------------------------------- context
class Broken:
    """A proof obligation or correspondence stream that no longer checks."""
    def __init__(self, kind: str, name: str, detail: str):
        self.kind, self.name, self.detail = kind, name, detail

    def to_json(self):
        return {'kind': self.kind, 'name': self.name, 'detail': self.detail[:4000]}


class Violation:
    def __init__(self, what: str, replay: dict, finding_key: Optional[str] = None):
        self.what, self.replay, self.finding_key = what, replay, finding_key


class Ctx:
    def __init__(self, prop: str, tier: str, seed: int):
        self.prop, self.tier, self.seed = prop, tier, seed
        self.t0 = time.time()
        self.broken: List[Broken] = []
        self.violations: List[Violation] = []
        self.known_hits: List[str] = []
        self.coverage: Dict = {'evaluations': 0, 'distinct_nontrivial': 0,
                               'samples': [], 'streams': {}}
        self.assumptions: List[str] = []
        self.obligations: List[dict] = []
        self.driver_ok = False
        self._nontrivial = set()
        self.notes: List[str] = []

    # -- scale helper
    def n(self, quick: int, thorough: int) -> int:
        return thorough if self.tier == 'thorough' else quick

    def rng(self, stream: str = '', case: int = 0) -> random.Random:
        return rng_for(self.seed, self.prop, stream, case)

    # -- bookkeeping
    def count(self, stream: str, key: str, k: int = 1):
        d = self.coverage['streams'].setdefault(stream, {})
        d[key] = d.get(key, 0) + k

    def evaluated(self, stream: str, canon: str, nontrivial: bool, sample=None):
        self.coverage['evaluations'] += 1
        self.count(stream, 'evaluations')
        if nontrivial:
            h = hashlib.sha1((stream + '|' + canon).encode()).digest()[:10]
            if h not in self._nontrivial:
                self._nontrivial.add(h)
                self.count(stream, 'distinct_nontrivial')
        if sample is not None and nontrivial and self.coverage['streams'][stream].get('_ns', 0) < 2:
            self.coverage['streams'][stream]['_ns'] = \
                self.coverage['streams'][stream].get('_ns', 0) + 1
            self.coverage['samples'].append({'stream': stream, 'case': sample})

    def add_broken(self, kind: str, name: str, detail: str):
        self.broken.append(Broken(kind, name, detail))

    def add_violation(self, what: str, replay: dict, finding_key: Optional[str] = None):
        if isinstance(replay, dict):
            replay.setdefault('pythonhashseed', os.environ.get('PYTHONHASHSEED'))
        self.violations.append(Violation(what, replay, finding_key))

    # -- lean driver
    def lean(self, lines: List[str], timeout: Optional[int] = None, soft: bool = False) -> Optional[List[str]]:
        """Pipe protocol lines through the native driver. None if unavailable.  `soft`: a batch
        that only CLASSIFIES already found discrepancies may give up after `timeout` seconds (None is
        returned, the discrepancies then stay unclassified, i.e. are reported)"""
        if not self.driver_ok or not lines:
            return None if not self.driver_ok else []
        for ln in lines:
            if '\n' in ln:
                raise ValueError('newline in protocol line')
        for _attempt in range(60):      # the binary is briefly absent while another build relinks it
            if os.path.exists(DRIVER):
                break
            time.sleep(2)
        # a driver call that does not come back is an infrastructure failure (exit 2), never a
        # violation claim
        tmo = timeout or int(os.environ.get('VERIF_DRIVER_TIMEOUT', '7200' if self.tier == 'thorough' else '1500'))
        max_rss_kb = int(float(os.environ.get('VERIF_DRIVER_MAXRSS_GB', '14')) * 1024 * 1024)
        proc = subprocess.Popen([DRIVER], stdin=subprocess.PIPE, stdout=subprocess.PIPE,
                                stderr=subprocess.PIPE, text=True)
        blown = []

        def watchdog():
            # a definitional evaluation that needs more memory than the machine can give is an
            # infrastructure failure (exit 2), not a verdict
            while proc.poll() is None:
                try:
                    with open(f'/proc/{proc.pid}/status') as fh:
                        for ln in fh:
                            if ln.startswith('VmRSS:'):
                                if int(ln.split()[1]) > max_rss_kb:
                                    blown.append(int(ln.split()[1]))
                                    proc.kill()
                                break
                except OSError:
                    return
                time.sleep(1)
        import threading
        th = threading.Thread(target=watchdog, daemon=True)
        th.start()
        try:
            so, se = proc.communicate('\n'.join(lines) + '\n', timeout=tmo)
        except subprocess.TimeoutExpired:
            proc.kill()
            proc.communicate()
            if soft:
                self.notes.append(f'a classification batch of {len(lines)} driver lines was given up after {tmo} s')
                return None
            raise
        if blown:
            raise MemoryError(f'native driver exceeded {max_rss_kb // (1024 * 1024)} GB resident memory '
                              f'on a batch of {len(lines)} lines')
        p = subprocess.CompletedProcess([DRIVER], proc.returncode, so, se)
        out = p.stdout.split('\n')
        if out and out[-1] == '':
            out.pop()
        if p.returncode != 0 or len(out) != len(lines):
            self.add_broken('driver', 'mpgdriver',
                            f'rc={p.returncode} lines_in={len(lines)} lines_out={len(out)} '
                            f'stderr={p.stderr[:500]}')
            return None
        return out

    def diff_stream(self, stream: str, cases: List[Tuple[str, str, object]],
                    observable: bool, describe: Callable[[object], dict],
                    nontrivial: Callable[[str], bool] = lambda o: True,
                    what: str = '') -> int:
        """cases: (protocol line, real output (canonical), case object).
        Observable streams: a diff IS a failing input of the property
        (the model side is proved equal to the specification).
        Internal streams: a diff is a broken correspondence."""
        outs = self.lean([c[0] for c in cases])
        ndiff = 0
        if outs is None:
            for line, real, obj in cases:
                self.evaluated(stream, line, nontrivial(real), describe(obj))
            if self.driver_ok:
                return 0
            self.add_broken('correspondence', stream, 'native driver unavailable')
            return 0
        for (line, real, obj), model in zip(cases, outs):
            self.evaluated(stream, line, nontrivial(real), describe(obj))
            if model != real:
                ndiff += 1
                self.count(stream, 'diffs')
                if ndiff <= 3:
                    rp = {'stream': stream, 'protocol_line': line, 'real': real,
                          'model': model, 'case': describe(obj)}
                    if observable:
                        self.add_violation(
                            what or f'{stream}: implementation differs from the proved model/spec',
                            rp)
                    else:
                        self.add_broken('correspondence', stream, json.dumps(rp)[:3000])
        return ndiff


# --------------------------------------------------------- translator + build
def run_translator(ctx: Ctx) -> bool:
    rc, out, err = run([PY, os.path.join(VERIF, 'translator', 'gen_tables.py'), REPO])
    if rc != 0:
        ctx.add_broken('translation', 'translator/gen_tables.py', (err or out).strip())
        return False
    return True


def lake_build(ctx: Ctx, targets: List[str]) -> bool:
    rc, out, err = run(['lake', 'build'] + targets, cwd=LEAN_DIR, timeout=3000)
    if rc != 0:
        text = out + err
        m = re.search(r'error: (.*?):(\d+):(\d+): (.*)', text)
        first = m.group(0) if m else text[-800:]
        ctx.add_broken('build', ' '.join(targets), first + '\n' + text[-1500:])
        return False
    return True


def theorem_names(prop: str) -> List[str]:
    path = os.path.join(LEAN_DIR, 'MoPepGen', 'Props', f'{prop}.lean')
    if not os.path.exists(path):
        return []
    text = strip_lean_comments(open(path, encoding='utf-8').read())
    return re.findall(r'^\s*theorem\s+([A-Za-z_][\w\.\']*)', text, re.M)


def forbidden_scan(ctx: Ctx):
    hits = []
    for root, _dirs, files in os.walk(os.path.join(LEAN_DIR, 'MoPepGen')):
        for f in files:
            if f.endswith('.lean'):
                p = os.path.join(root, f)
                text = strip_lean_comments(open(p, encoding='utf-8').read())
                for m in FORBIDDEN.finditer(text):
                    hits.append(f'{os.path.relpath(p, LEAN_DIR)}: {m.group(0).strip()}')
    if hits:
        ctx.add_broken('audit', 'forbidden-token', '; '.join(hits[:20]))
    return hits


def audit(ctx: Ctx) -> Tuple[int, int]:
    """#print axioms on every theorem of Props/<prop>.lean."""
    prop = ctx.prop
    names = theorem_names(prop)
    forbidden_scan(ctx)
    if not names:
        ctx.add_broken('audit', f'Props/{prop}.lean', 'no theorems found')
        return 0, 0
    ns = f'MoPepGen.Props.{prop}'
    src = f'import MoPepGen.Props.{prop}\n' + ''.join(
        f'#print axioms {ns}.{n}\n' for n in names)
    os.makedirs(os.path.join(LEAN_DIR, '.lake', 'audit'), exist_ok=True)
    fn = os.path.join(LEAN_DIR, '.lake', 'audit', f'Audit_{prop}.lean')
    with open(fn, 'w') as fh:
        fh.write(src)
    rc, out, err = run(['lake', 'env', 'lean', fn], cwd=LEAN_DIR, timeout=1800)
    text = out + err
    discharged = 0
    # messages may wrap over several lines
    flat = re.sub(r'\s+', ' ', text)
    for n in names:
        full = f'{ns}.{n}'
        m = re.search(r"'" + re.escape(full) + r"' depends on axioms: \[([^\]]*)\]", flat)
        m0 = re.search(r"'" + re.escape(full) + r"' does not depend on any axioms", flat)
        if m0:
            axs = []
        elif m:
            axs = [a.strip() for a in m.group(1).split(',') if a.strip()]
        else:
            ctx.add_broken('obligation', full, 'theorem not found in built library: '
                           + text[:500])
            ctx.obligations.append({'theorem': full, 'ok': False})
            continue
        bad = [a for a in axs if a not in ALLOWED_AXIOMS]
        if bad:
            ctx.add_broken('obligation', full, f'depends on disallowed axioms {bad}')
            ctx.obligations.append({'theorem': full, 'ok': False, 'axioms': axs})
        else:
            discharged += 1
            ctx.obligations.append({'theorem': full, 'ok': True, 'axioms': axs})
    return len(names), discharged


def leanchecker(ctx: Ctx):
    rc, out, err = run(['lake', 'env', 'leanchecker', f'MoPepGen.Props.{ctx.prop}'],
                       cwd=LEAN_DIR, timeout=3000)
    ctx.coverage['leanchecker_rc'] = rc
    if rc != 0:
        ctx.add_broken('obligation', 'leanchecker', (out + err)[-1500:])


def prepare(ctx: Ctx):
    """translator -> build -> audit. Sets ctx.driver_ok."""
    ok_t = run_translator(ctx)
    ok_b = lake_build(ctx, [f'MoPepGen.Props.{ctx.prop}'])
    # a refused translation leaves the last successfully generated tables in place (the
    # translator writes nothing on failure): the driver built from them is the reference for
    # the failing-input search — a concrete input on which the changed source behaves
    # differently from those tables — while the broken translation itself stays recorded
    ok_d = lake_build(ctx, ['mpgdriver'])
    ctx.driver_ok = ok_d and os.path.exists(DRIVER)
    if not ok_t:
        ctx.notes.append('translation refused: streams ran against the last successfully generated '
                         'tables (failing-input search)')
    nobl, ndis = (0, 0)
    if ok_b:
        nobl, ndis = audit(ctx)
        if ctx.tier == 'thorough':
            leanchecker(ctx)
    else:
        nobl = len(theorem_names(ctx.prop))
    ctx.coverage['obligations'] = nobl
    ctx.coverage['discharged'] = ndis


# ------------------------------------------------------------ known findings
def load_known() -> List[dict]:
    p = os.path.join(VERIF, 'known_findings.json')
    if not os.path.exists(p):
        return []
    return json.load(open(p))


def finish(ctx: Ctx) -> int:
    """Write evidence, print KNOWN-FINDING / VIOLATION lines, return exit code."""
    prop = ctx.prop
    os.makedirs(os.path.join(VERIF, 'evidence'), exist_ok=True)
    os.makedirs(os.path.join(VERIF, 'replay'), exist_ok=True)
    known = [k for k in load_known() if k.get('property') == prop and k.get('status') == 'open']
    known_keys = {k['id']: k for k in known}
    new_viol = []
    for v in ctx.violations:
        if v.finding_key and v.finding_key in known_keys:
            if v.finding_key not in ctx.known_hits:
                ctx.known_hits.append(v.finding_key)
        else:
            new_viol.append(v)
    for k in ctx.known_hits:
        print(f'KNOWN-FINDING: property={prop} {known_keys[k]["what"]}')
    rc = 0
    lines = []
    stamp = f'{prop}_{ctx.tier}_{ctx.seed}'
    for i, v in enumerate(new_viol[:5]):
        rp = os.path.join(VERIF, 'replay', f'{stamp}_{i}.json')
        with open(rp, 'w') as fh:
            json.dump({'property': prop, 'what': v.what, 'replay': v.replay,
                       'seed': ctx.seed, 'tier': ctx.tier}, fh, indent=1, default=str)
        lines.append(f'VIOLATION property={prop} replay={rp}')
        rc = 1
    if ctx.broken and not new_viol:
        rp = os.path.join(VERIF, 'replay', f'{stamp}_broken.json')
        with open(rp, 'w') as fh:
            json.dump({'property': prop,
                       'what': 'proof obligation or correspondence no longer checks; '
                               'the failing-input search found no concrete input',
                       'broken': [b.to_json() for b in ctx.broken],
                       'seed': ctx.seed, 'tier': ctx.tier}, fh, indent=1)
        lines.append(f'VIOLATION property={prop} replay={rp} no-failing-input-found')
        rc = 1
    cov = ctx.coverage
    for s in cov['streams'].values():
        s.pop('_ns', None)
    cov['distinct_nontrivial'] = len(ctx._nontrivial)
    cov.setdefault('rule', '')
    cov['checker_cmd'] = (f'cd lean && lake build MoPepGen.Props.{prop} && '
                          f'lake env lean .lake/audit/Audit_{prop}.lean  # #print axioms'
                          + (f' && lake env leanchecker MoPepGen.Props.{prop}'
                             if ctx.tier == 'thorough' else ''))
    cov['trusted_base'] = TRUSTED_BASE + ctx.assumptions
    cov['theorems'] = ctx.obligations
    cov['broken'] = [b.to_json() for b in ctx.broken]
    cov['known_findings_hit'] = ctx.known_hits
    if ctx.notes:
        cov['notes'] = ctx.notes
    if not cov['samples']:
        cov['samples'] = [{'obligations': [o['theorem'] for o in ctx.obligations[:5]]}]
    ev = {
        'property_id': prop, 'tier': ctx.tier, 'seed': ctx.seed, 'level': 'proof',
        'coverage': cov, 'assumptions': ctx.assumptions,
        'wall_s': round(time.time() - ctx.t0, 2), 'violations': len(new_viol) + (1 if (ctx.broken and not new_viol) else 0),
    }
    with open(os.path.join(VERIF, 'evidence', f'{prop}.json'), 'w') as fh:
        json.dump(ev, fh, indent=1, default=str)
    for ln in lines:
        print(ln)
    if rc == 0:
        print(f'OK property={prop} tier={ctx.tier} seed={ctx.seed} '
              f'obligations={cov.get("obligations")} discharged={cov.get("discharged")} '
              f'evaluations={cov["evaluations"]} distinct_nontrivial={cov["distinct_nontrivial"]} '
              f'wall_s={ev["wall_s"]}')
    return rc
