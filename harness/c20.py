"""C20 — decoyFasta: one faithful, reproducible decoy per target.

Correspondence streams (real code in-process vs native Lean driver):
  fixed    DecoyFasta.find_fixed_indices          vs Decoy.fixedIndices
           all enzymes (+ none) x flag grid x exhaustive short strings over each
           rule's class-quotient alphabet, low-complexity strings, random peptides
  reverse  DecoyFasta.reverse_sequence            vs Decoy.reverseSeq
           ALL fixed-index sets (incl. the out-of-range index len(seq)) for n <= N
  shuffle  DecoyFasta.shuffle_sequence            vs Decoy.shuffleSeq
           ALL permutations of the movable indices (scripted through the
           random.sample wrapper) for n <= N, plus recorded real draws
  run      DecoyFasta.from_args(args).main() on FASTA files vs Decoy.run
           (every random.sample result of the real run is recorded by a wrapper
           around the `random` name of moPepGen.cli.decoy_fasta and handed to the
           model), flag grid, low-complexity targets, duplicates, collisions

The property predicates are also evaluated directly on the real output FASTA
(no Lean involved): targets unchanged, one decoy per target, header, multiset,
required fixed positions kept, order mode, reproducibility (same seed twice),
order independence (permuted input, same seed).

Which index the real code keeps for a cleavage site (`site` = unchanged tree,
`site - 1` = repaired) is probed on 'AKAAR'/trypsin and handed to the model as
`off`; `site` is reported under the known finding FK.
"""
from __future__ import annotations
import argparse
import importlib
import itertools
import os
import shutil
import sys
import tempfile
from collections import Counter
from pathlib import Path

from . import common
from .c10 import load_tables, quotient_alphabet

FK = 'c20-cleavage-fixed-index-off-by-one'
AA = 'ACDEFGHIKLMNPQRSTVWY'
LOWC = ['', 'A', 'K', 'AA', 'KK', 'AAAA', 'KKKK', 'RRRR', 'KRKRKR', 'AKAAR', 'KAKAK',
        'AKAKA', 'PKPKP', 'KPKPK', 'DDDDK', 'AAAAAAAAAAAA', 'MKKKKKKKKR', 'ABBA', 'AB',
        'WKPMRP', 'ACKDA', 'AKtrypsin_expectionKA', 'akaar', 'A*K*A']
HDR_CH = 'ABCXYZabc0123456789|-_. '


# ------------------------------------------------------------ random wrapper
class RandomProxy:
    """Stands in for the name `random` inside moPepGen.cli.decoy_fasta.
    Records every sample() (population, result); can be scripted."""
    def __init__(self, real):
        self._real = real
        self.samples = []
        self.seeds = []
        self.other = []
        self.script = None

    def reset(self, script=None):
        self.samples, self.seeds, self.other = [], [], []
        self.script = list(script) if script is not None else None

    def seed(self, a=None, *args, **kw):
        self.seeds.append(a)
        return self._real.seed(a, *args, **kw)

    def sample(self, population, k, **kw):
        pop = list(population)
        if self.script is not None:
            res = list(self.script.pop(0))
        else:
            res = self._real.sample(population, k, **kw)
        self.samples.append((pop, k, list(res)))
        return res

    def __getattr__(self, name):
        self.other.append(name)
        return getattr(self._real, name)


def enc_perms(samples):
    return ''.join(','.join(str(x) for x in res) + ';' for _pop, _k, res in samples)


def enc_recs(recs):
    return ';'.join(f'{h}:{s}' for h, s in recs)


def parse_fasta(text):
    recs = []
    for line in text.split('\n'):
        if line.startswith('>'):
            recs.append([line[1:], ''])
        elif recs:
            recs[-1][1] += line
    return [(h, s) for h, s in recs]


def write_fasta(path, recs, width=None):
    with open(path, 'w') as fh:
        for h, s in recs:
            fh.write(f'>{h}\n')
            if width:
                for i in range(0, len(s), width):
                    fh.write(s[i:i + width] + '\n')
            else:
                fh.write(s + '\n')


def b(x):
    return '1' if x else '0'


# ------------------------------------------------------------------ the check
class Real:
    def __init__(self, ctx):
        sys.path.insert(0, common.REPO)
        importlib.import_module('moPepGen.cli')
        self.df = sys.modules['moPepGen.cli.decoy_fasta']
        from moPepGen.aa.AminoAcidSeqRecord import AminoAcidSeqRecord
        from Bio.Seq import Seq
        self.Seq = Seq
        self.AA = AminoAcidSeqRecord
        import random as _random
        self.proxy = RandomProxy(_random)
        self.df.random = self.proxy
        self.tmp = tempfile.mkdtemp(prefix='c20_')

    def obj(self, enzyme=None, keepn=False, keepc=False, pats='', method='reverse',
            max_attempts=30):
        return self.df.DecoyFasta(
            input_path=None, output_path=None, method=method, enzyme=enzyme,
            keep_peptide_nterm=keepn, keep_peptide_cterm=keepc,
            non_shuffle_pattern=pats.split(','), shuffle_max_attempts=max_attempts,
            seed=None, decoy_string='DECOY_', decoy_string_position='prefix',
            order='juxtaposed')

    def fixed(self, seq, enzyme, keepn, keepc, pats):
        try:
            r = self.obj(enzyme, keepn, keepc, pats).find_fixed_indices(self.Seq(seq))
        except Exception as e:   # noqa
            return f'crash:{type(e).__name__}'
        return ','.join(str(x) for x in sorted(set(r)))

    def sites(self, seq, enzyme, exc):
        return self.AA(self.Seq(seq)).find_all_enzymatic_cleave_sites(enzyme, exc)

    def required(self, seq, enzyme, keepn, keepc, pats):
        """S (python rendering, uses only the C10-validated site enumeration):
        positions the property requires to stay in place."""
        req = set()
        n = len(seq)
        if enzyme is not None:
            exc = 'trypsin_exception' if enzyme == 'trypsin' else None
            req |= {s - 1 for s in self.sites(seq, enzyme, exc)}
        pl = pats.split(',')
        for i, ch in enumerate(seq):
            if (i == 0 and keepn) or (i == n - 1 and keepc) or ch in pl:
                req.add(i)
        return req

    def args(self, inp, out, c):
        a = argparse.Namespace()
        a.command = 'decoyFasta'
        a.input_path = Path(inp)
        a.output_path = Path(out)
        a.decoy_string = c['decoy_string']
        a.decoy_string_position = c['position']
        a.method = c['method']
        a.enzyme = c['enzyme']
        a.shuffle_max_attempts = c['max_attempts']
        a.non_shuffle_pattern = c['pats']
        a.keep_peptide_nterm = 'true' if c['keepn'] else 'false'
        a.keep_peptide_cterm = 'true' if c['keepc'] else 'false'
        a.seed = c['seed']
        a.order = c['order']
        a.quiet = True
        return a

    def run(self, c, recs, tag='x', width=None):
        """-> (output records | 'crash:..', n_overlap, samples, raw bytes)"""
        inp = os.path.join(self.tmp, f'{tag}_in.fasta')
        out = os.path.join(self.tmp, f'{tag}_out.fasta')
        write_fasta(inp, recs, width)
        if os.path.exists(out):
            os.remove(out)
        self.proxy.reset()
        try:
            o = self.df.DecoyFasta.from_args(self.args(inp, out, c))
            o.main()
        except Exception as e:   # noqa
            return f'crash:{type(e).__name__}', 0, list(self.proxy.samples), ''
        raw = open(out).read()
        return parse_fasta(raw), o._summary.n_overlap, list(self.proxy.samples), raw

    def close(self):
        shutil.rmtree(self.tmp, ignore_errors=True)


def probe(ctx, R):
    """Which index does the real code keep for a cleavage site, and which
    exception expression does the site enumeration end up using?"""
    f = R.fixed('AKAAR', 'trypsin', False, False, '')
    if f == '2':
        off = 0
    elif f == '1':
        off = 1
    else:
        ctx.add_broken('correspondence', 'probe',
                       f"find_fixed_indices('AKAAR', trypsin) = [{f}]: neither site (2) nor site-1 (1)")
        off = 0
    g = R.fixed('ACKDA', 'trypsin', False, False, '')
    if g == str(3 - off):
        exc = '-'
    elif g == '':
        exc = 'trypsin_exception'
    else:
        ctx.add_broken('correspondence', 'probe',
                       f"find_fixed_indices('ACKDA', trypsin) = [{g}]")
        exc = '-'
    return off, exc


def check_unit(ctx, what_in, seq, fixed, out):
    """multiset + fixed kept, directly on a real reverse/shuffle result"""
    if out.startswith('crash:'):
        ctx.add_violation(f'{what_in}: raised {out}', {'seq': seq, 'fixed': fixed})
        return
    if Counter(out) != Counter(seq) or len(out) != len(seq):
        ctx.add_violation(f'{what_in}: result is not a rearrangement of the input',
                          {'seq': seq, 'fixed': fixed, 'out': out})
    for i in set(fixed):
        if i < len(seq) and (i >= len(out) or out[i] != seq[i]):
            ctx.add_violation(f'{what_in}: fixed index {i} not kept',
                              {'seq': seq, 'fixed': fixed, 'out': out})
            break


def gen_seq(rng, hot, maxlen):
    k = rng.random()
    if k < 0.2:
        return rng.choice(LOWC)
    n = rng.randint(0, maxlen)
    if k < 0.35:
        a = rng.sample(AA, 2)
        return ''.join(rng.choice(a) for _ in range(n))
    return ''.join(rng.choice(hot) if rng.random() < 0.4 else rng.choice(AA) for _ in range(n))


def gen_hdr(rng, i):
    n = rng.randint(0, 8)
    core = ''.join(rng.choice(HDR_CH) for _ in range(n)).strip()
    return f'T{i}|{core}' if rng.random() < 0.9 else core


def split_output(order, out):
    """-> (targets, decoys) by the positions the order mode prescribes, or None"""
    if len(out) % 2:
        return None
    h = len(out) // 2
    if order == 'juxtaposed':
        return out[0::2], out[1::2]
    if order == 'target_first':
        return out[:h], out[h:]
    return out[h:], out[:h]


def run(ctx: common.Ctx):
    R = Real(ctx)
    try:
        _run(ctx, R)
    finally:
        R.close()


def _run(ctx, R):
    import re as _re
    tabs = load_tables()
    rules = tabs['rules']
    enzymes = [None] + list(rules.keys())
    off, exc = probe(ctx, R)
    ctx.coverage['probed_site_offset'] = off
    ctx.coverage['probed_exception'] = exc
    ctx.coverage['rule'] = (
        'fixed: every enzyme (+none) x (keepN,keepC,pattern) grid x ALL strings up to length L '
        'over the class-quotient alphabet of the rule + low-complexity + random; '
        'reverse/shuffle: ALL fixed-index subsets of {0..n} (n = out of range) and ALL '
        'permutations of the movable indices for n <= N (scripted through the random.sample '
        'wrapper), plus recorded real draws on random longer inputs; run: seeded random target '
        'sets (low-complexity, duplicates, planted reverse collisions) x full flag space, real '
        'random.sample draws recorded and handed to the model; non-trivial = decoy differs from '
        'target / non-empty fixed set / retry happened')
    if off == 0:
        out = R.obj('trypsin').reverse_sequence(R.Seq('AKAAR'),
                                                R.obj('trypsin').find_fixed_indices(R.Seq('AKAAR')))
        ctx.add_violation(
            'cleavage-site fixed index = site instead of site-1',
            {'seq': 'AKAAR', 'enzyme': 'trypsin', 'find_fixed_indices': [2], 'required': [1],
             'reverse_sequence': str(out), 'where': 'moPepGen/cli/decoy_fasta.py:191'},
            finding_key=FK)

    exh = 0
    # ------------------------------------------------------------ fixed
    grid = [(kn, kc, p) for kn in (False, True) for kc in (False, True)
            for p in ('', 'K,R', 'K', 'KR', 'A,', 'P,K')]
    L = ctx.n(4, 6)
    budget = ctx.n(3000, 60000)
    cases = []
    for enz in enzymes:
        alpha = quotient_alphabet(rules[enz], None) if enz else 'AK'
        cnt = 0
        strings = list(LOWC)
        for ln in range(0, L + 1):
            for tup in itertools.product(alpha, repeat=ln):
                if cnt >= budget:
                    break
                cnt += 1
                strings.append(''.join(tup))
        exh += cnt
        rng = ctx.rng('fixed', len(cases))
        hot = ''.join(sorted(set(_re.findall(r'[A-Z]', rules[enz])))) if enz else 'KR'
        hot = hot or 'KR'
        strings += [gen_seq(rng, hot, 40) for _ in range(ctx.n(60, 2000))]
        for k, s in enumerate(strings):
            flags = grid if k < len(LOWC) else [grid[(k * 7 + 3) % len(grid)]]
            for kn, kc, p in flags:
                real = R.fixed(s, enz, kn, kc, p)
                line = f'C20\tfixed\t{enz or "-"}\t{exc if enz else "-"}\t{off}\t{b(kn)}\t{b(kc)}\t{p}\t{s}'
                cases.append((line, real, (enz, kn, kc, p, s)))
                # property predicate: every required position is in the list
                if not real.startswith('crash:'):
                    have = set(int(x) for x in real.split(',')) if real else set()
                    miss = sorted(R.required(s, enz, kn, kc, p) - have)
                    if miss:
                        site_idx = {x - 1 for x in R.sites(s, enz, None)} if enz else set()
                        sig = off == 0 and all(m in site_idx for m in miss)
                        ctx.add_violation(
                            'find_fixed_indices omits a required position',
                            {'seq': s, 'enzyme': enz, 'keep_nterm': kn, 'keep_cterm': kc,
                             'non_shuffle_pattern': p, 'returned': real, 'missing': miss},
                            finding_key=FK if sig else None)
    dsc = lambda o: dict(zip(['enzyme', 'keep_nterm', 'keep_cterm', 'non_shuffle_pattern', 'seq'], o))
    ctx.diff_stream('fixed', cases, True, dsc, lambda o: o != '',
                    'find_fixed_indices differs from the model (N/C terminus, listed residues, cleavage sites)')

    # ------------------------------------------------- reverse / shuffle, exhaustive
    N = ctx.n(5, 6)
    cases_r, cases_s = [], []
    o = R.obj()
    for n in range(0, N + 1):
        seqs = ['ABCDEF'[:n]]
        if n >= 2:
            seqs += ['AAAAAA'[:n], 'KRKRKR'[:n]]
        for mask in range(1 << (n + 1)):
            fixed = [i for i in range(n + 1) if mask >> i & 1]
            mov = [i for i in range(n) if i not in fixed]
            for s in seqs:
                try:
                    real = str(o.reverse_sequence(R.Seq(s), fixed))
                except Exception as e:   # noqa
                    real = f'crash:{type(e).__name__}'
                check_unit(ctx, 'reverse_sequence', s, fixed, real)
                cases_r.append((f'C20\treverse\t{",".join(map(str, fixed))}\t{s}', real, (s, fixed, None)))
            s = seqs[0] if n < 2 or mask % 3 else seqs[-1]
            for pi in itertools.permutations(mov):
                R.proxy.reset(script=[pi])
                try:
                    real = str(o.shuffle_sequence(R.Seq(s), fixed))
                except Exception as e:   # noqa
                    real = f'crash:{type(e).__name__}'
                if not R.proxy.samples or R.proxy.samples[0][0] != mov or R.proxy.samples[0][1] != len(mov):
                    ctx.add_broken('correspondence', 'shuffle',
                                   f'random.sample not called with (movable indices, len): {R.proxy.samples[:1]} '
                                   f'seq={s} fixed={fixed}')
                check_unit(ctx, 'shuffle_sequence', s, fixed, real)
                cases_s.append((f'C20\tshuffle\t{",".join(map(str, fixed))}\t{",".join(map(str, pi))}\t{s}',
                                real, (s, fixed, list(pi))))
    exh += len(cases_r) + len(cases_s)
    # random longer inputs, duplicates / unsorted / far out-of-range fixed lists, real draws
    rng = ctx.rng('unit')
    for k in range(ctx.n(4000, 60000)):
        s = gen_seq(rng, 'KR', 30)
        n = len(s)
        fixed = [rng.randrange(0, n + 2) for _ in range(rng.randint(0, n + 1))] if n else \
            rng.choice([[], [0], [1, 0]])
        if fixed and max(fixed) > n:
            # an index > len(seq) beyond the end can never be reached; keep it only sometimes
            if rng.random() < 0.7:
                fixed = [min(x, n) for x in fixed]
        try:
            real = str(o.reverse_sequence(R.Seq(s), fixed))
        except Exception as e:   # noqa
            real = f'crash:{type(e).__name__}'
        check_unit(ctx, 'reverse_sequence', s, fixed, real)
        cases_r.append((f'C20\treverse\t{",".join(map(str, fixed))}\t{s}', real, (s, fixed, None)))
        R.proxy.reset()
        R.proxy._real.seed(rng.getrandbits(32))
        try:
            real = str(o.shuffle_sequence(R.Seq(s), fixed))
        except Exception as e:   # noqa
            real = f'crash:{type(e).__name__}'
        pi = R.proxy.samples[0][2] if R.proxy.samples else []
        check_unit(ctx, 'shuffle_sequence', s, fixed, real)
        cases_s.append((f'C20\tshuffle\t{",".join(map(str, fixed))}\t{",".join(map(str, pi))}\t{s}',
                        real, (s, fixed, pi)))
    if R.proxy.other:
        ctx.add_broken('correspondence', 'rng',
                       f'decoy_fasta uses random.{sorted(set(R.proxy.other))}, not modelled')
    d3 = lambda o_: {'seq': o_[0], 'fixed_indices': o_[1], 'random_sample_result': o_[2]}
    moved = {real for _l, real, o_ in cases_r + cases_s if real != o_[0]}
    ctx.diff_stream('reverse', cases_r, True, d3, lambda r: r in moved,
                    'reverse_sequence differs from the proved model')
    ctx.diff_stream('shuffle', cases_s, True, d3, lambda r: r in moved,
                    'shuffle_sequence differs from the proved model')
    ctx.coverage['exhaustive'] = True
    ctx.coverage['exhaustive_cases'] = exh
    ctx.coverage['exhaustive_max_len'] = {'fixed': L, 'reverse/shuffle': N}

    # ------------------------------------------------------------------- run
    cases = []
    nontriv = set()
    stats = Counter()
    ncase = ctx.n(4000, 40000)
    for k in range(ncase):
        rng = ctx.rng('run', k)
        enz = rng.choice(enzymes) if rng.random() < 0.75 else rng.choice([None, 'trypsin', 'lysc', 'lysn'])
        c = {
            'enzyme': enz,
            'method': rng.choice(['reverse', 'shuffle', 'shuffle']),
            'keepn': rng.random() < 0.5, 'keepc': rng.random() < 0.5,
            'pats': rng.choice(['', '', 'K,R', 'K', 'KR', 'A,', 'P,K,R', ',']),
            'max_attempts': rng.choice([0, 1, 2, 3, 30, 30]),
            'decoy_string': rng.choice(['DECOY_', 'DECOY_', 'rev_', '', '_REV', 'X']),
            'position': rng.choice(['prefix', 'suffix']),
            'order': rng.choice(['juxtaposed', 'target_first', 'decoy_first']),
            'seed': rng.choice([None, 0, 1, 42, 123123, rng.getrandbits(30)]),
        }
        hot = (''.join(sorted(set(_re.findall(r'[A-Z]', rules[enz])))) if enz else '') or 'KR'
        nt = rng.choice([0, 1, 1, 2, 2, 3, 4, 6])
        maxlen = rng.choice([4, 8, 25, 70])
        recs = []
        for i in range(nt):
            x = rng.random()
            if recs and x < 0.12:
                s = recs[rng.randrange(len(recs))][1]                    # shared sequence
            elif recs and x < 0.22:
                s = recs[rng.randrange(len(recs))][1][::-1]              # planted collision
            else:
                s = gen_seq(rng, hot, maxlen)
            h = gen_hdr(rng, i) if rng.random() < 0.95 else (recs[0][0] if recs else 'dup')
            recs.append((h, s))
        width = rng.choice([None, None, 7, 60])
        out, nov, samples, raw = R.run(c, recs, 'a', width)
        perms = enc_perms(samples)
        line = ('C20\trun\t' + '\t'.join([
            enz or '-', exc if enz else '-', str(off), b(c['keepn']), b(c['keepc']), c['pats'],
            c['method'], str(c['max_attempts']), c['decoy_string'], c['position'], c['order'],
            enc_recs(recs), perms]))
        real = out if isinstance(out, str) else f'{enc_recs(out)}\t{nov}\t0'
        case = dict(c, targets=recs, random_sample_results=[s_[2] for s_ in samples])
        cases.append((line, real, case))
        stats[c['method']] += 1
        stats['order:' + c['order']] += 1
        if isinstance(out, str):
            ctx.add_violation(f'decoyFasta raised {out}', case)
            continue
        if predicates(ctx, R, c, recs, out, samples, case, off, stats) or len(samples) > nt:
            nontriv.add(real)
        # reproducibility + order independence (paired runs)
        if c['seed'] is not None and nt >= 1 and k % 2 == 0:
            out2, nov2, _s2, raw2 = R.run(c, recs, 'b', width)
            stats['paired_same_seed'] += 1
            if raw2 != raw:
                ctx.add_violation('same seed, same input: different output', case)
            if nt >= 2:
                perm = recs[:]
                rng.shuffle(perm)
                if rng.random() < 0.3:
                    perm = recs[::-1]
                out3, _n3, _s3, _r3 = R.run(c, perm, 'c', width)
                shared = len({s for _h, s in recs}) < len(recs)
                same = (not isinstance(out3, str)) and Counter(out3) == Counter(out)
                if shared and c['method'] == 'shuffle':
                    stats['excluded_point_runs'] += 1
                    if not same:
                        stats['excluded_point_differs'] += 1
                        if 'excluded_point_example' not in ctx.coverage:
                            ctx.coverage['excluded_point_example'] = {
                                'config': c, 'targets': recs, 'permuted': perm,
                                'records_run1': sorted(out), 'records_run2': sorted(out3) if not isinstance(out3, str) else out3}
                else:
                    stats['paired_permuted'] += 1
                    if not same:
                        ctx.add_violation('output (as a set of records) depends on the order of the input targets',
                                          dict(case, permuted_targets=perm))
    ctx.diff_stream('run', cases, True, lambda o_: o_,
                    lambda r: r in nontriv,
                    'decoyFasta output differs from the proved model')
    ctx.coverage['run_stats'] = dict(stats)
    excluded_point(ctx, R)
    # smallest concrete inputs first (the first five violations become replay files)
    import json as _json
    ctx.violations.sort(key=lambda v: len(_json.dumps(v.replay, default=str)))
    ctx.assumptions += [
        'Biopython FASTA reader/writer (SeqIO.parse, FastaIO.FastaWriter) are outside the model; the '
        'harness writes inputs and parses outputs with its own 10-line reader/writer',
        'random.sample is a parameter of the model: that its result is a permutation of its first '
        'argument is checked on every recorded call, not proved',
        'reproducibility for a seed is a run-time fact (same seed run twice, byte-identical output), not a theorem',
        "the literal pattern 'trypsin_expection' handed to re.finditer is modelled as 'no exception' "
        '(it can only match a lower-case substring that ends in n, never at a K/R; one such input is in the streams)',
        'cleavage sites: Model/Digest.cleaveSites, tied to the real enumeration by C10',
    ]


def predicates(ctx, R, c, recs, out, samples, case, off, stats):
    """the property, evaluated on the real output records"""
    n = len(recs)
    if len(out) != 2 * n:
        ctx.add_violation(f'{n} targets but {len(out)} records written', case)
        return
    T, D = split_output(c['order'], out)
    if Counter(T) != Counter(recs):
        ctx.add_violation(f"order mode {c['order']}: records at the target positions are not the input targets "
                          '(targets changed or order mode not respected)', case)
        return
    ds = c['decoy_string']
    changed = False
    for (th, ts), (dh, dsq) in zip(T, D):
        want = ds + th if c['position'] == 'prefix' else th + ds
        if dh != want:
            ctx.add_violation('decoy header is not the target header with the decoy string attached',
                              dict(case, target=(th, ts), decoy=(dh, dsq)))
            return
        if Counter(dsq) != Counter(ts):
            ctx.add_violation('decoy sequence is not a rearrangement of the target residues',
                              dict(case, target=(th, ts), decoy=(dh, dsq)))
            return
        changed |= dsq != ts
        req = R.required(ts, c['enzyme'], c['keepn'], c['keepc'], c['pats'])
        bad = sorted(i for i in req if dsq[i] != ts[i])
        if bad:
            site_idx = {x - 1 for x in R.sites(ts, c['enzyme'], None)} if c['enzyme'] else set()
            other = R.required(ts, None, c['keepn'], c['keepc'], c['pats'])
            sig = off == 0 and all(i in site_idx and i not in other for i in bad)
            stats['known_sig' if sig else 'fixed_not_kept'] += 1
            ctx.add_violation('decoy does not keep a required fixed position (residue at a cleavage site)'
                              if sig else 'decoy does not keep a required fixed position',
                              dict(case, target=(th, ts), decoy=(dh, dsq), positions=bad),
                              finding_key=FK if sig else None)
        if c['method'] == 'reverse':
            # reversal: the subsequence at the positions the code leaves movable is reversed
            fx = set(R.obj(c['enzyme'], c['keepn'], c['keepc'], c['pats']).find_fixed_indices(R.Seq(ts)))
            mov = [i for i in range(len(ts)) if i not in fx]
            if [dsq[i] for i in mov] != [ts[i] for i in reversed(mov)]:
                ctx.add_violation('method reverse: the movable residues are not reversed',
                                  dict(case, target=(th, ts), decoy=(dh, dsq), fixed=sorted(fx)))
                return
    for pop, k_, res in samples:
        if k_ != len(pop) or sorted(res) != sorted(pop):
            ctx.add_violation('random.sample result is not a permutation of the movable indices',
                              dict(case, population=pop, result=res))
    if c['method'] == 'shuffle':
        if len(samples) < n:
            ctx.add_violation('fewer random.sample calls than targets', case)
        if len(samples) > n:
            stats['runs_with_retry'] += 1
        if len(samples) > n * max(1, c['max_attempts']):
            ctx.add_violation('more shuffle attempts than --shuffle-max-attempts allows', case)
    if changed:
        stats['runs_with_changed_decoy'] += 1
    return changed


def excluded_point(ctx, R):
    """order_independent needs `no two targets share a sequence`; run the real
    code where the hypothesis fails (two headers, one sequence, method shuffle)."""
    c = {'enzyme': None, 'method': 'shuffle', 'keepn': True, 'keepc': True, 'pats': '',
         'max_attempts': 30, 'decoy_string': 'DECOY_', 'position': 'prefix',
         'order': 'juxtaposed', 'seed': 1}
    recs = [('A', 'MACDEFGHIK'), ('B', 'MACDEFGHIK')]
    o1 = R.run(c, recs, 'e')[0]
    o2 = R.run(c, recs[::-1], 'e')[0]
    ctx.coverage['excluded_point_fixed_witness'] = {
        'config': c, 'targets': recs,
        'records_input_order_AB': sorted(o1) if not isinstance(o1, str) else o1,
        'records_input_order_BA': sorted(o2) if not isinstance(o2, str) else o2,
        'set_of_records_equal': (not isinstance(o1, str)) and (not isinstance(o2, str)) and Counter(o1) == Counter(o2)}
    ctx.notes.append(
        'order_independent is proved under `no two targets share a sequence`; at the excluded point '
        '(two headers with one sequence, --method shuffle) the real code assigns the two decoys by input '
        'order: set_of_records_equal='
        f"{ctx.coverage['excluded_point_fixed_witness']['set_of_records_equal']} (see coverage.excluded_point_fixed_witness)")


def replay(ctx, data):
    """Re-run one recorded case against the real code and print what it does."""
    import json
    R = Real(ctx)
    try:
        rp = data.get('replay', data)
        case = rp.get('case', rp)
        if 'targets' in case:
            c = {k: case[k] for k in ('enzyme', 'method', 'keepn', 'keepc', 'pats', 'max_attempts',
                                      'decoy_string', 'position', 'order', 'seed')}
            out, nov, samples, _raw = R.run(c, [tuple(x) for x in case['targets']], 'r')
            print(json.dumps({'config': c, 'targets': case['targets'], 'output': out,
                              'n_overlap': nov, 'random_sample_results': [s[2] for s in samples]}, indent=1))
        elif 'fixed_indices' in case or 'fixed' in case:
            fx = case.get('fixed_indices', case.get('fixed'))
            o = R.obj()
            print('reverse_sequence:', o.reverse_sequence(R.Seq(case['seq']), fx))
        elif 'seq' in case:
            print('find_fixed_indices:', R.fixed(case['seq'], case.get('enzyme'),
                                                 case.get('keep_nterm', False), case.get('keep_cterm', False),
                                                 case.get('non_shuffle_pattern', '')))
            print('required:', sorted(R.required(case['seq'], case.get('enzyme'),
                                                 case.get('keep_nterm', False), case.get('keep_cterm', False),
                                                 case.get('non_shuffle_pattern', ''))))
        return 0
    finally:
        R.close()
