"""C14 — parseVEP / parseREDItools preserve the genomic event.

References (annotation + genome) come from the C11 generator (own GTF / FASTA writers) and are
loaded by the REAL readers (`GenomicAnnotation.dump_gtf`, `GenomicAnnotationOnDisk`).

VEP   every event kind (SNV, deletion, two-base-span insertion, one-base-span insertion in both
      spellings, un-anchorable one-base span, substitution of >= 3 bases, deletion of a whole
      exon / transcript) x every position class (outside gene, first / last base of gene,
      transcript and every exon, +-1 around them, intron, random) x both strands, through
        * the real `VEPRecord.convert_to_variant_record`            (stream `vep`, vs Lean model)
        * the property predicate evaluated DIRECTLY on the real record: REF == gene[start:end];
          gene[:start]+ALT+gene[end:] == gene re-extracted (real `get_gene_sequence`) from the
          mutated chromosome; boundary / un-anchorable rows never give a record
        * the Lean Layer-S value `geneSeq (applyEvent chrom ev) g'`  (stream `vepspec`)
        * the real `parse_vep` CLI function on the same rows as a VEP tab file (tally and GVF
          records compared with the direct calls), per transcript AND per gene with every event
          listed for all isoforms (one line per (event, transcript), several layouts / files).
REDI  sites at the same position classes x threshold grids with values exactly on / one off each
      threshold, listed transcripts = those spanning the site (stream `redi`) or any transcripts
      (stream `redi_any`, the design suspect) of EVERY gene containing the site — overlapping
      genes on either strand are generated —, through the real
      `get_valid_subs`, `convert_to_variant_records` and the `parse_reditools` CLI function.
"""
from __future__ import annotations
import argparse
import copy
import json
import logging
import os
import shutil
import sys
import tempfile
from fractions import Fraction
from pathlib import Path

from . import common
from . import c11

COMP = {'A': 'T', 'T': 'A', 'C': 'G', 'G': 'C', 'N': 'N',
        'a': 't', 't': 'a', 'c': 'g', 'g': 'c', 'n': 'n'}
KF_NEG = 'vep-insertion-anchored-before-gene-start'
KF_REDI = 'reditools-record-for-transcript-not-containing-site'
FREQS = ['0', '0.05', '0.1', '0.125', '0.2', '0.25', '0.3', '0.5', '0.75', '1']


def revcomp(s):
    return ''.join(COMP[c] for c in reversed(s))


# ------------------------------------------------------------------ references
class Ref:
    pass


def load_ref(a, tmp):
    from moPepGen import gtf, dna
    R = Ref()
    R.gtf_path = os.path.join(tmp, 'anno.gtf')
    R.fa_path = os.path.join(tmp, 'genome.fa')
    with open(R.gtf_path, 'w') as fh:
        fh.write(a.gtf_text())
    with open(R.fa_path, 'w') as fh:
        fh.write(a.fasta_text())
    R.genome = dna.DNASeqDict()
    R.genome.dump_fasta(R.fa_path)
    R.full = gtf.GenomicAnnotation()
    R.full.dump_gtf(R.gtf_path)
    R.disk = gtf.GenomicAnnotationOnDisk()
    R.disk.generate_index(R.gtf_path)
    return R


def close_ref(R):
    try:
        if R.disk.handle:
            R.disk.handle.close()
            R.disk.handle = None
    except Exception:   # noqa
        pass


def add_overlapping(rng, a, case):
    """genes overlapping an existing gene (same region, either strand, own start / end), whose
    transcripts share exon pieces with the host gene or span the whole region: a genomic site
    can then be exonic in transcripts of several genes"""
    out = []
    for gi, g in enumerate(a.genes):
        out.append(g)
        if rng.random() < 0.45:
            continue
        n = len(a.chroms[g.chrom])
        lo = max(0, g.start + rng.choice([-4, -2, 0, 0, 1, 3, 6]))
        hi = min(n, g.end + rng.choice([-5, -2, 0, 0, 1, 3]))
        if hi - lo < 3:
            continue
        ver = f'.{rng.randint(1, 9)}' if a.style == 'GENCODE' else ''
        g2 = c11.Gene()
        g2.id = f'ENSG{case % 1000:03d}{50 + gi:04d}{ver}'
        g2.name = f'GO{gi}'
        g2.chrom, g2.strand, g2.biotype = g.chrom, rng.choice('+-'), 'lncRNA'
        g2.start, g2.end = lo, hi
        pool = sorted({(max(s_, lo), min(e_, hi)) for t in g.txs for s_, e_ in t.exons
                       if min(e_, hi) - max(s_, lo) >= 1})
        for ti in range(rng.choice([1, 1, 2])):
            t = c11.Tx()
            t.id = (g2.id.split('.')[0].replace('ENSG', 'ENST') + f'{ti}'
                    + ('.2' if a.style == 'GENCODE' else ''))
            t.gene, t.chrom, t.strand = g2.id, g2.chrom, g2.strand
            exs, last = [], -1
            if rng.random() < 0.7:
                for s_, e_ in pool:
                    if s_ > last and rng.random() < 0.75:
                        exs.append((s_, e_))
                        last = e_
            if not exs:
                x0 = rng.randint(lo, hi - 2)
                exs = [(x0, rng.randint(x0 + 1, hi))] if rng.random() < 0.5 else [(lo, hi)]
            t.exons = exs
            t.order = rng.choice(['tx', 'genomic', 'rev'])
            g2.txs.append(t)
        out.append(g2)
    a.genes = out


def gen_ref(rng, case):
    a = c11.gen_annotation(rng, ngenes=rng.randint(1, 3), case=case)
    add_overlapping(rng, a, case)
    for g in a.genes:
        for t in g.txs:
            if 'cds_start_NF' not in t.tags and rng.random() < 0.35:
                t.tags.append('cds_start_NF')
            elif 'cds_start_NF' not in t.tags and 'mRNA_start_NF' not in t.tags and rng.random() < 0.3:
                # the mRNA tag WITHOUT the CDS tag: the 5' boundary rule follows cds_start_NF only
                t.tags.append('mRNA_start_NF')
    return a


# ------------------------------------------------------------------ VEP rows
def positions(rng, g, t):
    """1-based genomic positions of every class"""
    ps = set()
    for x in (g.start, g.end):             # 0-based boundary -> 1-based first/last +-1
        ps.update([x - 1, x, x + 1, x + 2])
    for s, e in t.exons:
        ps.update([s, s + 1, s + 2, e - 1, e, e + 1])
    for (s1, e1), (s2, e2) in zip(t.exons, t.exons[1:]):
        ps.add((e1 + s2) // 2 + 1)
    for _ in range(3):
        ps.add(rng.randint(g.start + 1, g.end))
    return sorted(p for p in ps if p >= 1)


def rand_seq(rng, n, avoid_first=None, avoid_last=None):
    while True:
        s = ''.join(rng.choice('ACGT') for _ in range(n))
        if avoid_first and s[0] == avoid_first:
            continue
        if avoid_last and s[-1] == avoid_last:
            continue
        return s


def gen_rows(rng, a, g, t, light=False):
    """(kind, s, e, allele) with 1-based inclusive s..e; allele on the + strand"""
    chrom = a.chroms[g.chrom]
    rows = []
    for p in positions(rng, g, t):
        c = chrom[p - 1] if 1 <= p <= len(chrom) else 'A'
        rows.append(('snv', p, p, rng.choice('ACGT')))
        rows.append(('del', p, p, '-'))
        k = rng.choice([2, 3, 5])
        rows.append(('del', p, p + k - 1, '-'))
        rows.append(('ins2', p, p + 1, rand_seq(rng, rng.choice([1, 1, 2, 4]))))
        x = rand_seq(rng, rng.choice([1, 2, 3]))
        if c in 'ACGT':
            rows.append(('ins1_first', p, p, c + x))
            rows.append(('ins1_last', p, p, x + c))
            if not light:
                rows.append(('ins1_none', p, p,
                             rand_seq(rng, rng.choice([2, 3]), avoid_first=c, avoid_last=c)))
        k = rng.choice([3, 3, 4, 6])
        rows.append(('sub', p, p + k - 1, rand_seq(rng, rng.choice([1, 2, 3, 3, 5]))))
    # whole first / last exon and whole transcript deletions
    s0, e0 = t.exons[0]
    s1, e1 = t.exons[-1]
    rows.append(('del', s0 + 1, e0, '-'))
    rows.append(('del', s1 + 1, e1, '-'))
    rows.append(('del', s0 + 1, e1, '-'))
    rows.append(('del', g.start + 1, g.end, '-'))
    return rows


def row_event(s, e, allele):
    """Layer S in Python (independent of the Lean text): 0-based half-open [es, ee) -> repl"""
    if allele == '-':
        return s - 1, e, ''
    if e == s + 1:
        return s, s, allele
    return s - 1, e, allele


def touches(g, t, nf, s, e):
    """(outside gene, touches 5' boundary, beyond 3' end) from the generator's ground truth"""
    ts, te = t.exons[0][0], t.exons[-1][1]
    out = not (g.start <= s - 1 < g.end and g.start <= e - 1 < g.end)
    if g.strand == '+':
        st = s - 1 < ts or (s - 1 == ts and not nf)
        en = e > te
    else:
        st = e > te or (e == te and not nf)
        en = s - 1 < ts
    return out, st, en


def canon_exc(e):
    from moPepGen.err import TranscriptionStopSiteMutationError, \
        TranscriptionStartSiteMutationError
    from moPepGen import ERROR_REF_LENGTH_NOT_MATCH_WITH_LOCATION
    if isinstance(e, TranscriptionStartSiteMutationError):
        return 'reject:start-site'
    if isinstance(e, TranscriptionStopSiteMutationError):
        return 'reject:stop-site'
    if type(e) is ValueError:
        m = str(e.args[0]) if e.args else ''
        if m.startswith("Don't know how to process this variant"):
            return 'reject:unanchorable'
        if m.startswith('The position does not overlap with the gene'):
            return 'reject:out-of-gene'
        if m.startswith(ERROR_REF_LENGTH_NOT_MATCH_WITH_LOCATION):
            return 'reject:ref-length'
    return 'crash:' + type(e).__name__


def canon_rec(r):
    return f'ok:{int(r.location.start)},{int(r.location.end)},{r.ref},{r.alt},{r.type}'


def mk_vep(g, t, s, e, allele):
    from moPepGen.parser import VEPParser
    loc = f'{g.chrom}:{s}' if s == e else f'{g.chrom}:{s}-{e}'
    return VEPParser.VEPRecord(
        uploaded_variation='v', location=loc, allele=allele, gene=g.id, feature=t.id,
        feature_type='Transcript', consequences=['x'], cdna_position='-', cds_position='-',
        protein_position='-', amino_acids=('-', ''), codons=('-', ''), existing_variation='',
        extra={})


def vep_line(g, t, s, e, allele):
    loc = f'{g.chrom}:{s}' if s == e else f'{g.chrom}:{s}-{e}'
    return '\t'.join(['v', loc, allele, g.id, t.id, 'Transcript', 'x', '-', '-', '-', '-', '-',
                      '-', 'IMPACT=LOW'])


def reextract(R, g, mut_chrom, new_end):
    """the gene re-extracted from the mutated chromosome by the real `get_gene_sequence`"""
    from moPepGen import dna
    from moPepGen.SeqFeature import FeatureLocation
    from Bio.Seq import Seq
    gm = copy.copy(R.full.genes[g.id])
    gm.location = FeatureLocation(start=g.start, end=new_end, strand=gm.strand)
    rec = dna.DNASeqRecord(Seq(mut_chrom), id=g.chrom, name=g.chrom, description=g.chrom)
    return str(gm.get_gene_sequence(rec).seq)


class LogTap(logging.Handler):
    def __init__(self):
        super().__init__(level=logging.DEBUG)
        self.msgs = []

    def emit(self, record):
        try:
            self.msgs.append(record.getMessage())
        except Exception:   # noqa
            pass


def run_cli(func, args):
    from moPepGen import get_logger
    lg = get_logger()
    tap = LogTap()
    old = lg.level
    lg.addHandler(tap)
    lg.setLevel(logging.INFO)
    prop = lg.propagate
    lg.propagate = False
    exc = None
    try:
        func(args)
    except Exception as e:   # noqa
        exc = e
    finally:
        lg.removeHandler(tap)
        lg.setLevel(old)
        lg.propagate = prop
    return tap.msgs, exc


def tally_from(msgs, keys):
    out = {}
    for m in msgs:
        for k, label in keys.items():
            if m.startswith(label):
                out[k] = int(m.split(':')[-1])
    return out


def vep_case(ctx, case_id, a, R, rng, S, light=False):
    from moPepGen import cli, seqvar
    desc = None

    def viol(what, extra, key=None):
        nonlocal desc
        if desc is None:
            desc = a.desc()
        d = dict(desc)
        d.update(extra)
        ctx.add_violation(what, d, finding_key=key)

    for gi, g in enumerate(a.genes):
        chrom = a.chroms[g.chrom]
        anno = R.full if (case_id + gi) % 2 == 0 else R.disk
        gseq = str(anno.genes[g.id].get_gene_sequence(R.genome[g.chrom]).seq)
        gene_events = []
        for t in g.txs:
            nf = 'cds_start_NF' in t.tags
            real_nf = anno.transcripts[t.id].is_cds_start_nf()
            if real_nf != nf:
                viol('is_cds_start_nf differs from the written tag', {'tx': t.id})
            rows = gen_rows(rng, a, g, t, light)
            direct = []
            for kind, s, e, allele in rows:
                rowd = {'gene': g.id, 'strand': g.strand, 'gene_iv': [g.start, g.end],
                        'tx': t.id, 'exons': t.exons, 'cds_start_NF': nf, 'kind': kind,
                        'location': f'{g.chrom}:{s}-{e}', 'allele': allele, 'case': case_id}
                try:
                    r = mk_vep(g, t, s, e, allele).convert_to_variant_record(anno, R.genome)
                    out = canon_rec(r)
                except Exception as ex:   # noqa
                    r = None
                    out = canon_exc(ex)
                direct.append(out)
                ctx.count('vep', 'kind_' + kind)
                ctx.count('vep', 'out_' + out.split(':')[0] + (':' + out.split(':')[1]
                                                               if not out.startswith('ok') else ''))
                line = (f'C14\tvep\t{g.strand}\t{g.start}-{g.end}\t{c11.ivs(t.exons)}\t'
                        f'{1 if nf else 0}\t{chrom}\t{s}\t{e}\t{allele}')
                # rows in the precondition of the open finding KF_NEG (end-inclusion insertion on
                # the first transcribed base of a cds_start_NF transcript) go to their own stream:
                # a repaired /repo may answer differently from the as-written model there
                a_gene = (s - 1 - g.start) if g.strand == '+' else (g.end - 1 - (e - 1))
                ts_gene = (t.exons[0][0] - g.start) if g.strand == '+' else (g.end - t.exons[-1][1])
                al_g = allele if g.strand == '+' else (revcomp(allele) if allele != '-' else '-')
                special = (nf and s == e and allele != '-' and len(allele) > 1
                           and a_gene == ts_gene and 0 <= a_gene < len(gseq)
                           and al_g[-1] == gseq[a_gene])
                S['vep_nfstart' if special else 'vep'].append((line, out, rowd))
                outside, st, en = touches(g, t, nf, s, e)
                if out.startswith('crash:'):
                    viol('convert_to_variant_record raised an exception that is neither a named '
                         'rejection nor a documented ValueError', dict(rowd, real=out))
                if outside or st or en:
                    ctx.count('vep', 'boundary_rows')
                    exp = ('reject:out-of-gene' if outside else
                           'reject:start-site' if st else 'reject:stop-site')
                    if r is not None:
                        viol('a VEP event touching the gene / transcript boundary produced a '
                             'record instead of a rejection', dict(rowd, real=out, expected=exp))
                    elif out != exp:
                        viol('boundary event rejected with the wrong error class',
                             dict(rowd, real=out, expected=exp))
                    continue
                if kind == 'ins1_none' and r is not None:
                    viol('un-anchorable one-base-span allele produced a record',
                         dict(rowd, real=out))
                if r is None:
                    continue
                # ---- property predicate on the real record
                rs, re_ = int(r.location.start), int(r.location.end)
                if rs < 0:
                    viol('record anchored at a negative gene index (Python seq[-1]): REF is the '
                         'LAST base of the gene', dict(rowd, real=out), key=KF_NEG)
                    continue
                if not (0 <= rs <= re_ <= len(gseq)) or gseq[rs:re_] != r.ref:
                    viol('REF of the emitted record differs from the gene sequence at its '
                         'location', dict(rowd, real=out, gene_ref=gseq[rs:re_]))
                    continue
                applied = gseq[:rs] + r.alt + gseq[re_:]
                es, ee, repl = row_event(s, e, allele)
                mut = chrom[:es] + repl + chrom[ee:]
                new_end = g.end + len(repl) - (ee - es)
                want = reextract(R, g, mut, new_end)
                want2 = mut[g.start:new_end]
                if g.strand == '-':
                    want2 = revcomp(want2)
                if want != want2:
                    viol('real get_gene_sequence on the mutated chromosome differs from the '
                         'harness extraction', dict(rowd))
                if applied != want:
                    viol('applying the emitted record to the gene sequence does not give the '
                         'gene of the mutated chromosome', dict(rowd, real=out, applied=applied,
                                                                expected=want))
                    continue
                ctx.count('vep', 'event_preserved_checked')
                if r.attrs.get('TRANSCRIPT_ID') != t.id or \
                        r.id != f'{r.type}-{rs + 1}-{r.ref}-{r.alt}':
                    viol('TRANSCRIPT_ID / id of the record are wrong', dict(rowd, real=out,
                                                                            id=r.id))
                sline = (f'C14\tvepspec\t{g.strand}\t{g.start}-{g.end}\t{c11.ivs(t.exons)}\t'
                         f'{1 if nf else 0}\t{chrom}\t{s}\t{e}\t{allele}')
                S['vepspec'].append((sline, applied, rowd))
            # ---- the CLI function on the same rows
            if (case_id + len(S['vep'])) % 3 == 0 or light:
                cli_check(ctx, a, R, g, t, rows, direct, viol, rng)
            gene_events.extend((s_, e_, al_) for _k, s_, e_, al_ in rows)
        # ---- the CLI function on a VEP file that lists every event for ALL isoforms
        if len(g.txs) >= 2:
            cli_gene_check(ctx, a, R, g, gene_events, viol, rng)


def vep_args(R, tmp, inputs, out_name, skip_failed):
    args = argparse.Namespace()
    args.command = 'parseVEP'
    args.input_path = list(inputs)
    args.index_dir = None
    args.source = 'gSNP'
    args.genome_fasta = Path(R.fa_path)
    args.proteome_fasta = None
    args.annotation_gtf = Path(R.gtf_path)
    args.reference_source = None
    args.output_path = Path(tmp) / out_name
    args.quiet = True
    args.skip_failed = skip_failed
    return args


def cli_gene_check(ctx, a, R, g, gene_events, viol, rng):
    """VEP writes one line per (variant, transcript): every sampled event is listed for every
    isoform of the gene (isoforms in a random order per event, lines grouped by event or by
    transcript or shuffled, one or two input files).  The expectation is PER (event, transcript):
    the direct conversion of that line, checked against the property predicates above."""
    from moPepGen import cli, seqvar
    events = sorted(set(gene_events))
    rng.shuffle(events)
    events = events[:ctx.n(60, 90)]
    lines = []           # (tx, s, e, allele, direct outcome)
    for s, e, al in events:
        txs = list(g.txs)
        rng.shuffle(txs)
        for t in txs:
            try:
                r = mk_vep(g, t, s, e, al).convert_to_variant_record(R.full, R.genome)
                out = canon_rec(r)
            except Exception as ex:   # noqa
                out = canon_exc(ex)
            lines.append((t, s, e, al, out))
    lines = [ln for ln in lines if not ln[4].startswith('ok:-')]
    layout = rng.choice(['by_event', 'by_event', 'by_tx', 'shuffled'])
    if layout == 'by_tx':
        lines.sort(key=lambda ln: ln[0].id)
    elif layout == 'shuffled':
        rng.shuffle(lines)
    mixed = sum(1 for ev in events
                if len({ln[4].startswith('ok') for ln in lines if ln[1:4] == ev}) == 2)
    ctx.count('vep_cli_gene', 'runs')
    ctx.count('vep_cli_gene', 'lines', len(lines))
    ctx.count('vep_cli_gene', 'events_accepted_for_some_isoforms_only', mixed)
    tmp = tempfile.mkdtemp(prefix='c14g_')
    try:
        nfiles = rng.choice([1, 1, 2])
        paths = []
        cut = len(lines) // 2 if nfiles == 2 else len(lines)
        for k, part in enumerate([lines[:cut], lines[cut:]][:nfiles]):
            pth = Path(tmp) / f'in{k}.txt'
            with open(pth, 'w') as fh:
                fh.write('## VEP\n#Uploaded_variation\tLocation\tAllele\n')
                for t, s, e, al, _o in part:
                    fh.write(vep_line(g, t, s, e, al) + '\n')
            paths.append(pth)
        args = vep_args(R, tmp, paths, 'out.gvf', True)
        msgs, exc = run_cli(cli.parse_vep, args)
        outs = [ln[4] for ln in lines]
        info = {'gene': g.id, 'strand': g.strand, 'gene_iv': [g.start, g.end], 'layout': layout,
                'transcripts': [(t.id, t.exons, 'cds_start_NF' in t.tags) for t in g.txs],
                'vep_lines': [(t.id, f'{g.chrom}:{s}-{e}', al, o)
                              for t, s, e, al, o in lines][:60]}
        if exc is not None:
            viol('parse_vep (--skip-failed) raised on a multi-isoform VEP file',
                 dict(info, exception=repr(exc)))
            return
        exp = {'total': len(outs), 'succeed': sum(o.startswith('ok') for o in outs),
               'failed': sum(not o.startswith('ok') for o in outs),
               'start': sum(o == 'reject:start-site' for o in outs),
               'stop': sum(o == 'reject:stop-site' for o in outs)}
        if exp['failed'] == 0:
            exp.pop('start'), exp.pop('stop')
        got = tally_from(msgs, {'total': 'Totally records read', 'succeed':
                                'Records successfully processed', 'failed': 'Records failed',
                                'start': 'Start codon mutation', 'stop': 'Stop codon mutation'})
        want = sorted((t.id, o.rsplit(',', 1)[0]) for t, _s, _e, _a, o in lines
                      if o.startswith('ok'))
        have = []
        if args.output_path.exists():
            for r in seqvar.io.parse(str(args.output_path)):
                have.append((r.attrs.get('TRANSCRIPT_ID'), canon_rec(r).rsplit(',', 1)[0]))
                if r.location.seqname != g.id:
                    viol('GVF record written by parse_vep has the wrong gene',
                         dict(info, record=canon_rec(r)))
        have.sort()
        if have != want:
            extra = [x for x in have if x not in want]
            missing = [x for x in want if x not in have]
            bad = extra[0] if extra else missing[0]
            src = [(t.id, f'{g.chrom}:{s}-{e}', al, o) for t, s, e, al, o in lines
                   if t.id == bad[0] and (o.rsplit(',', 1)[0] == bad[1] or not o.startswith('ok'))]
            # one concrete line: rejected (or converted differently) for its own transcript,
            # but written with the record another isoform's line of the same event produced
            witness = None
            for t, s, e, al, o in lines:
                if witness is None and (t.id, o.rsplit(',', 1)[0]) not in have:
                    others = [(t2.id, o2) for t2, s2, e2, al2, o2 in lines
                              if (s2, e2, al2) == (s, e, al) and t2.id != t.id
                              and (t.id, o2.rsplit(',', 1)[0]) in extra]
                    if others or not extra:
                        witness = {'transcript': t.id, 'location': f'{g.chrom}:{s}-{e}',
                                   'allele': al, 'own_conversion': o,
                                   'same_event_other_isoforms': others}
            info['witness_line'] = witness
            viol('parse_vep on a file listing each event for several isoforms: the records '
                 'written for a transcript differ from the conversion of that transcript\'s own '
                 'lines (boundary rejection / anchoring must be per (event, transcript))',
                 dict(info, records_not_expected=extra[:10], records_missing=missing[:10],
                      candidate_lines=src[:10]))
        elif got != exp:
            viol('parse_vep tally differs from the per-line results on a multi-isoform file',
                 dict(info, tally=got, expected=exp))
        else:
            ctx.count('vep_cli_gene', 'lines_checked', len(lines))
    finally:
        shutil.rmtree(tmp, ignore_errors=True)


def cli_check(ctx, a, R, g, t, rows, direct, viol, rng):
    from moPepGen import cli, seqvar
    tmp = tempfile.mkdtemp(prefix='c14v_')
    try:
        keep = [i for i, o in enumerate(direct) if not o.startswith('ok:-1,')]
        vep_path = Path(tmp) / 'in.txt'
        with open(vep_path, 'w') as fh:
            fh.write('## VEP\n#Uploaded_variation\tLocation\tAllele\n')
            for i in keep:
                _k, s, e, al = rows[i]
                fh.write(vep_line(g, t, s, e, al) + '\n')
        args = argparse.Namespace()
        args.command = 'parseVEP'
        args.input_path = [vep_path]
        args.index_dir = None
        args.source = 'gSNP'
        args.genome_fasta = Path(R.fa_path)
        args.proteome_fasta = None
        args.annotation_gtf = Path(R.gtf_path)
        args.reference_source = None
        args.output_path = Path(tmp) / 'out.gvf'
        args.quiet = True
        args.skip_failed = True
        msgs, exc = run_cli(cli.parse_vep, args)
        ctx.count('vep_cli', 'runs')
        ctx.count('vep_cli', 'rows', len(keep))
        outs = [direct[i] for i in keep]
        exp = {'total': len(outs), 'succeed': sum(o.startswith('ok') for o in outs),
               'failed': sum(not o.startswith('ok') for o in outs),
               'start': sum(o == 'reject:start-site' for o in outs),
               'stop': sum(o == 'reject:stop-site' for o in outs)}
        info = {'gene': g.id, 'tx': t.id, 'rows': [rows[i] for i in keep][:40]}
        if exc is not None:
            viol('parse_vep (--skip-failed) raised', dict(info, exception=repr(exc)))
            return
        got = tally_from(msgs, {'total': 'Totally records read', 'succeed':
                                'Records successfully processed', 'failed': 'Records failed',
                                'start': 'Start codon mutation', 'stop': 'Stop codon mutation'})
        if exp['failed'] == 0:
            exp.pop('start'), exp.pop('stop')
        if got != exp:
            viol('parse_vep tally differs from the per-record results',
                 dict(info, tally=got, expected=exp))
        # the GVF reader recomputes the type from REF / ALT (C13): compare location, REF, ALT
        want = sorted(o.rsplit(',', 1)[0] for o in outs if o.startswith('ok'))
        have = []
        if args.output_path.exists():
            for r in seqvar.io.parse(str(args.output_path)):
                have.append(canon_rec(r).rsplit(',', 1)[0])
                if r.attrs.get('TRANSCRIPT_ID') != t.id or r.location.seqname != g.id:
                    viol('GVF record written by parse_vep has the wrong gene / transcript',
                         dict(info, record=canon_rec(r)))
        if sorted(have) != want:
            viol('GVF written by parse_vep differs from the per-record conversion',
                 dict(info, gvf=sorted(have)[:30], expected=want[:30]))
        # without --skip-failed: only start / stop site rejections may be skipped silently
        bad = [o for o in outs if not o.startswith('ok') and o not in
               ('reject:start-site', 'reject:stop-site')]
        args.skip_failed = False
        args.output_path = Path(tmp) / 'out2.gvf'
        msgs, exc = run_cli(cli.parse_vep, args)
        if bool(bad) != (exc is not None):
            viol('parse_vep without --skip-failed: abort behaviour differs from the per-record '
                 'results', dict(info, exception=repr(exc), unexpected_errors=bad[:5]))
    finally:
        shutil.rmtree(tmp, ignore_errors=True)


def vep_history(ctx, i):
    """ONE parse_vep run (--skip-failed) over a VEP file that walks through 12-18 genes — more than
    the on-disk annotation keeps loaded at a time —, revisits some of them and carries rows whose
    Gene column is not in the annotation (a gene-version mismatch between the VEP cache and the
    GTF): the GVF must hold exactly the records of the valid rows, each as converted on its own
    with the fully loaded annotation (whose results the `vep` stream ties to the Lean model)."""
    from moPepGen import cli, seqvar
    rng = ctx.rng('vephist', i)
    a = c11.gen_annotation(rng, ngenes=rng.randint(12, 18), case=i)
    tmp = tempfile.mkdtemp(prefix='c14h_')
    R = None
    try:
        R = load_ref(a, tmp)
        visits = list(a.genes)
        rng.shuffle(visits)
        visits += [rng.choice(a.genes) for _ in range(rng.randint(3, 10))]
        lines, want, n_unknown = [], [], 0
        exp = {'total': 0, 'succeed': 0, 'failed': 0}
        for vi, g in enumerate(visits):
            if vi == 0 or rng.random() < 0.15:
                # unknown gene id, known transcript id
                t = rng.choice(g.txs)
                g2 = copy.copy(g)
                g2.id = g.id.split('.')[0] + '.77' if '.' in g.id else g.id + 'X'
                p_ = rng.randint(t.exons[0][0] + 1, t.exons[0][1])
                lines.append(vep_line(g2, t, p_, p_, rng.choice('ACGT')))
                exp['total'] += 1
                exp['failed'] += 1
                n_unknown += 1
            t = rng.choice(g.txs)
            rows = gen_rows(rng, a, g, t, True)
            for kind, s_, e_, al in rng.sample(rows, min(len(rows), rng.randint(1, 3))):
                exp['total'] += 1
                try:
                    r = mk_vep(g, t, s_, e_, al).convert_to_variant_record(R.full, R.genome)
                    out = canon_rec(r)
                except Exception as ex:   # noqa
                    out = canon_exc(ex)
                if out.startswith('ok'):
                    exp['succeed'] += 1
                    want.append((g.id, t.id, out.rsplit(',', 1)[0]))
                else:
                    exp['failed'] += 1
                lines.append(vep_line(g, t, s_, e_, al))
        vep_path = Path(tmp) / 'in.txt'
        with open(vep_path, 'w') as fh:
            fh.write('## VEP\n#Uploaded_variation\tLocation\tAllele\n' + '\n'.join(lines) + '\n')
        args = vep_args(R, tmp, [vep_path], 'hist.gvf', True)
        msgs, exc = run_cli(cli.parse_vep, args)
        ctx.count('vep_history', 'runs')
        ctx.count('vep_history', 'rows', len(lines))
        ctx.count('vep_history', 'unknown_gene_rows', n_unknown)
        ctx.count('vep_history', 'genes', len(a.genes))
        ctx.evaluated('vep_history', str(i), True)
        info = {'regenerate': f'vephist case {i}', 'gtf': a.gtf_text(), 'genome': dict(a.chroms),
                'vep_rows': lines[:80]}
        if exc is not None:
            ctx.add_violation('parse_vep (--skip-failed) raised on a file that walks through many genes',
                              dict(info, exception=repr(exc)))
            return
        got = tally_from(msgs, {'total': 'Totally records read', 'succeed':
                                'Records successfully processed', 'failed': 'Records failed'})
        have = []
        if args.output_path.exists():
            for r in seqvar.io.parse(str(args.output_path)):
                have.append((r.location.seqname, r.attrs.get('TRANSCRIPT_ID'),
                             canon_rec(r).rsplit(',', 1)[0]))
        if sorted(have) != sorted(want):
            miss = sorted(set(want) - set(have))
            extra = sorted(set(have) - set(want))
            ctx.add_violation('GVF written by parse_vep over a many-gene file differs from the per-record '
                              'conversion: a valid event is missing or mis-placed',
                              dict(info, missing=miss[:10], unexpected=extra[:10], tally=got, expected=exp))
        elif got != exp:
            ctx.add_violation('parse_vep tally over a many-gene file differs from the per-record results',
                              dict(info, tally=got, expected=exp))
    finally:
        if R is not None:
            close_ref(R)
        shutil.rmtree(tmp, ignore_errors=True)


# ------------------------------------------------------------------ REDItools
def exonic(t, p0):
    return any(s <= p0 < e for s, e in t.exons)


def gen_site(rng, boundary):
    """base counts, subs, gcov, thresholds; `boundary` puts values on / next to a threshold"""
    fs = rng.choice(FREQS)
    f = Fraction(fs)
    min_alt = rng.choice([0, 1, 2, 3, 5])
    min_rna = rng.choice([0, 1, 5, 10, 20])
    min_dna = rng.choice([-1, 0, 5, 10])
    ref = rng.choice('ACGT')
    alts = rng.sample([b for b in 'ACGT' if b != ref], rng.choice([1, 1, 2, 3]))
    counts = {b: 0 for b in 'ACGT'}
    if boundary:
        total = max(1, min_rna + rng.choice([-1, 0, 0, 1, 3]))
        if f.denominator <= 40 and rng.random() < 0.7:
            total = max(f.denominator, (total // f.denominator) * f.denominator)
        n = int(f * total) + rng.choice([-1, 0, 0, 1])
        if rng.random() < 0.4:
            n = min_alt + rng.choice([-1, 0, 0, 1])
        n = max(0, min(total, n))
        counts[alts[0]] = n
        rest = total - n
        for b in alts[1:]:
            k = rng.randint(0, rest)
            counts[b] = k
            rest -= k
        counts[ref] += rest
        gcov = rng.choice([min_dna - 1, min_dna, min_dna, min_dna + 1, -1, None])
    else:
        for b in 'ACGT':
            counts[b] = rng.choice([0, 0, 1, 2, 3, 5, 8, 13, 30])
        if sum(counts.values()) == 0:
            counts[ref] = 1
        gcov = rng.choice([-1, 0, 3, 9, 10, 11, 50, None])
    subs = [(ref, b) for b in alts]
    return counts, subs, gcov, (min_alt, fs, min_rna, min_dna)


def spec_valid(counts, subs, gcov, params):
    """the property's threshold predicate with exact rationals"""
    min_alt, fs, min_rna, min_dna = params
    f = Fraction(fs)
    total = sum(counts.values())
    out = []
    for sub in subs:
        n = counts[sub[1]]
        if total >= min_rna and (gcov == -1 or (gcov is not None and gcov >= min_dna)) \
                and n >= min_alt and Fraction(n, total) >= f:
            out.append(sub)
    return out


def redi_case(ctx, case_id, a, R, rng, S):
    from moPepGen.parser import REDItoolsParser
    from moPepGen import cli, seqvar
    desc = None

    def viol(what, extra, key=None):
        nonlocal desc
        if desc is None:
            desc = a.desc()
        d = dict(desc)
        d.update(extra)
        ctx.add_violation(what, d, finding_key=key)

    table = []
    for gi, g in enumerate(a.genes):
        anno = R.full if (case_id + gi) % 2 == 1 else R.disk
        ps = set()
        for t in g.txs:
            ps.update(positions(rng, g, t))
        ps = sorted(p for p in ps if g.start + 1 <= p <= g.end)
        rng.shuffle(ps)
        for p in ps[:ctx.n(10, 14)]:
            for any_listed in (False, True):
                # transcripts of EVERY gene of the chromosome whose interval contains the site
                # (overlapping genes, either strand), in a random order: (gene, transcript)
                cands = [(gg, t) for gg in a.genes
                         if gg.chrom == g.chrom and gg.start <= p - 1 < gg.end for t in gg.txs]
                if any_listed:
                    listed = [gt for gt in cands if rng.random() < 0.75]
                else:
                    listed = [gt for gt in cands
                              if gt[1].exons[0][0] <= p - 1 < gt[1].exons[-1][1]
                              and rng.random() < 0.9]
                rng.shuffle(listed)
                if len({gg.id for gg, _t in listed}) > 1:
                    ctx.count('redi_any' if any_listed else 'redi', 'rows_listing_several_genes')
                counts, subs, gcov, params = gen_site(rng, boundary=rng.random() < 0.6)
                min_alt, fs, min_rna, min_dna = params
                f = Fraction(fs)
                stream = 'redi_any' if any_listed else 'redi'
                bc = [counts[b] for b in 'ACGT']
                rec = REDItoolsParser.REDItoolsRecord(
                    region=g.chrom, position=p, reference=subs[0][0],
                    strand=1 if g.strand == '+' else 0, coverage_q=sum(bc), mean_quality=40.0,
                    base_count=list(bc), all_subs=list(subs), frequency=0.5, g_coverage_q=gcov,
                    transcript_id=[(t.id, 'transcript') for _gg, t in listed])
                sited = {'gene': g.id, 'strand': g.strand, 'gene_iv': [g.start, g.end],
                         'position': p, 'base_count': bc, 'subs': [''.join(x) for x in subs],
                         'gcov': gcov, 'min_alt': min_alt, 'min_freq': fs, 'min_rna': min_rna,
                         'min_dna': min_dna,
                         'listed': [(t.id, t.exons, gg.id, gg.strand, [gg.start, gg.end])
                                    for gg, t in listed],
                         'case': case_id}
                # thresholds
                try:
                    vs = rec.get_valid_subs(min_alt, float(fs), min_rna, min_dna)
                    vout = 'ok:' + ','.join(a_ + b_ for a_, b_ in vs)
                except Exception as ex:   # noqa
                    vs = None
                    vout = 'crash:' + type(ex).__name__
                gtxt = '-' if gcov is None else str(gcov)
                head = (f'{p}\t{",".join(map(str, bc))}\t{",".join(x + y for x, y in subs)}\t'
                        f'{gtxt}\t{min_alt}\t{f.numerator}/{f.denominator}\t{min_rna}\t{min_dna}')
                S['redivalid'].append((f'C14\tredivalid\t{head}', vout, sited))
                total = sum(bc)
                on_thr = (total == min_rna or gcov == min_dna or
                          any(counts[b] == min_alt or Fraction(counts[b], total) == f
                              for _x, b in subs))
                if on_thr:
                    ctx.count('redivalid', 'on_a_threshold')
                if vs is not None:
                    want = spec_valid(counts, subs, gcov, params)
                    if list(vs) != want:
                        viol('get_valid_subs does not apply the coverage / frequency thresholds '
                             'exactly', dict(sited, real=vout, expected=want,
                                             on_threshold=on_thr))
                elif total > 0:
                    viol('get_valid_subs raised on a well-formed row', dict(sited, real=vout))
                # records
                try:
                    rs = rec.convert_to_variant_records(anno, min_alt, float(fs), min_rna, min_dna)
                    got = [(t_i, int(r.location.start), r.ref, r.alt) for r in rs
                           for t_i in [[t.id for _gg, t in listed].index(
                               r.attrs['TRANSCRIPT_ID'])]]
                    out = 'ok:' + ','.join(f'{i}:{q}:{x}:{y}' for i, q, x, y in got)
                except Exception as ex:   # noqa
                    rs = None
                    out = ('reject:out-of-gene' if type(ex) is ValueError and
                           str(ex).startswith('The position does not overlap') else
                           'crash:' + type(ex).__name__)
                lst = ';'.join(f'{gg.strand}|{gg.start}-{gg.end}|{c11.ivs(t.exons)}'
                               for gg, t in listed)
                S[stream].append((f'C14\tredi\t{head}\t{lst}', out, sited))
                # property predicate on the real records
                if rs is not None and vs is not None:
                    # gene coordinate of the site in EACH listed transcript's OWN gene
                    qs = [p - 1 - gg.start if gg.strand == '+' else gg.end - 1 - (p - 1)
                          for gg, _t in listed]
                    want = [(i, qs[i], x, y) for i, (_gg, t) in enumerate(listed)
                            if exonic(t, p - 1)
                            for x, y in spec_valid(counts, subs, gcov, params)]
                    if got != want:
                        extra = [r_ for r_ in got if r_ not in want]
                        missing = [r_ for r_ in want if r_ not in got]
                        sig = (not missing and bool(extra) and all(
                            not (listed[i][1].exons[0][0] <= p - 1 < listed[i][1].exons[-1][1])
                            and x_[1] == qs[i] for x_ in extra for i in [x_[0]]))
                        viol('parseREDItools records differ from: one record per listed '
                             'transcript in which the site is exonic, at the coordinate of the '
                             'site in that transcript\'s own gene'
                             + (' (record emitted for a listed transcript whose span '
                                'does not contain the site)' if sig else ''),
                             dict(sited, real=got, expected=want),
                             key=KF_REDI if sig else None)
                    else:
                        ctx.count(stream, 'position_checked')
                    by_tx = {t.id: gg for gg, t in listed}
                    for r in rs:
                        gg = by_tx[r.attrs['TRANSCRIPT_ID']]
                        if r.id != f'RES-{int(r.location.start) + 1}-{r.ref}-{r.alt}' or \
                                r.attrs.get('GENOMIC_POSITION') != f'{g.chrom}:{p}' or \
                                r.location.seqname != gg.id or \
                                r.attrs.get('STRAND') != (1 if gg.strand == '+' else -1):
                            viol('id / GENOMIC_POSITION / gene / STRAND of the REDItools record '
                                 'are not those of the listed transcript\'s own gene',
                                 dict(sited, id=r.id, seqname=r.location.seqname,
                                      transcript=r.attrs['TRANSCRIPT_ID']))
                if not any_listed and listed:
                    table.append((g, p, bc, subs, gcov, listed, params, out))
    if table and case_id % 2 == 0:
        redi_cli(ctx, a, R, table, viol, rng)


def redi_cli(ctx, a, R, table, viol, rng):
    """the CLI function: one table file per threshold setting"""
    from moPepGen import cli, seqvar
    by = {}
    for row in table:
        by.setdefault(row[6], []).append(row)
    params, rows = sorted(by.items(), key=lambda kv: -len(kv[1]))[0]
    extra = [r for r in table if r[6] != params][:6]
    tmp = tempfile.mkdtemp(prefix='c14r_')
    try:
        min_alt, fs, min_rna, min_dna = params
        path = Path(tmp) / 'redi.txt'
        allrows = rows + extra
        with open(path, 'w') as fh:
            fh.write('Region\tPosition\tReference\tStrand\tCoverage-q30\tMeanQ\t'
                     'BaseCount[A,C,G,T]\tAllSubs\tFrequency\tgCoverage-q\tgMeanQ\t'
                     'gBaseCount[A,C,G,T]\tgAllSubs\tgFrequency\tgencode_feat\tgencode_gid\t'
                     'gencode_tid\n')
            for g, p, bc, subs, gcov, listed, _pr, _o in allrows:
                sep = rng.choice([',', '&', '$'])
                fh.write('\t'.join([
                    g.chrom, str(p), subs[0][0], '1' if g.strand == '+' else '0', str(sum(bc)),
                    '40.58', '[' + ', '.join(map(str, bc)) + ']',
                    ' '.join(x + y for x, y in subs), '0.50',
                    '-' if gcov is None else str(gcov), '20.00', '-', '-', '-',
                    sep.join(['transcript'] * len(listed)),
                    sep.join(gg.id for gg, _t in listed),
                    sep.join(f'{t.id}-transcript' for _gg, t in listed)]) + '\n')
        args = argparse.Namespace()
        args.command = 'parseREDItools'
        args.source = 'RNAEditingSite'
        args.input_path = path
        args.transcript_id_column = 17
        args.index_dir = None
        args.annotation_gtf = Path(R.gtf_path)
        args.reference_source = None
        args.output_path = Path(tmp) / 'out.gvf'
        args.quiet = True
        args.min_coverage_alt = min_alt
        args.min_frequency_alt = float(fs)
        args.min_coverage_rna = min_rna
        args.min_coverage_dna = min_dna
        msgs, exc = run_cli(cli.parse_reditools, args)
        ctx.count('redi_cli', 'runs')
        ctx.count('redi_cli', 'rows', len(allrows))
        info = {'params': params, 'rows': [(g.id, p, bc, [''.join(s) for s in subs], gcov,
                                            [(t.id, gg.id) for gg, t in listed])
                                           for g, p, bc, subs, gcov, listed, _a, _b in allrows][:30]}
        if exc is not None:
            viol('parse_reditools raised on a well-formed table', dict(info, exception=repr(exc)))
            return
        # expected from the property predicate (every listed transcript spans its site here)
        want = []
        nonempty = 0
        for g, p, bc, subs, gcov, listed, _pr, _o in allrows:
            counts = dict(zip('ACGT', bc))
            recs = [(gg.id, t.id,
                     p - 1 - gg.start if gg.strand == '+' else gg.end - 1 - (p - 1), x, y)
                    for gg, t in listed if exonic(t, p - 1)
                    for x, y in spec_valid(counts, subs, gcov, params)]
            nonempty += bool(recs)
            want += recs
        have = []
        if args.output_path.exists():
            for r in seqvar.io.parse(str(args.output_path)):
                have.append((r.location.seqname, r.attrs.get('TRANSCRIPT_ID'),
                             int(r.location.start), r.ref, r.alt))
        if sorted(have) != sorted(want):
            viol('GVF written by parse_reditools differs from the expected records',
                 dict(info, gvf=sorted(have)[:30], expected=sorted(want)[:30]))
        if want:
            got = tally_from(msgs, {'total': 'Totally records read', 'succeed':
                                    'Records successfully processed', 'skipped': 'Records skipped'})
            exp = {'total': len(allrows), 'succeed': nonempty, 'skipped': len(allrows) - nonempty}
            if got != exp:
                viol('parse_reditools tally differs', dict(info, tally=got, expected=exp))
    finally:
        shutil.rmtree(tmp, ignore_errors=True)


# ------------------------------------------------------------------ driver
STREAMS = ['vep', 'vepspec', 'redivalid', 'redi', 'redi_any', 'vep_nfstart', 'malformed']
OBSERVABLE = {'vepspec', 'redivalid'}
WHAT = {
    'vepspec': 'the emitted GVF record applied to the gene sequence differs from the Lean '
               'specification geneSeq (applyEvent chrom (rowEvent row)) g\'',
    'redivalid': 'get_valid_subs differs from the exact threshold predicate',
}


def flush(ctx, S, annos):
    def describe(o):
        d = dict(o)
        a = annos.get(o.get('case'))
        if a is not None:
            d.update(a.desc(full=False))
            d['regenerate'] = 'harness.c14.gen_ref(ctx.rng("anno", case), case)'
        return d
    tolerant(ctx, S, describe)
    for s in STREAMS:
        if not S[s]:
            continue
        if s == 'vep':
            nt = lambda o: o.startswith('ok:') and not o.endswith(',SNV') or o.startswith('reject')
        elif s == 'vepspec':
            nt = lambda o: True
        elif s == 'redivalid':
            nt = lambda o: True
        else:
            nt = lambda o: len(o) > 3
        ctx.diff_stream(s, S[s], s in OBSERVABLE, describe, nt, WHAT.get(s, ''))
        S[s] = []


def tolerant(ctx, S, describe):
    """streams that cover the two open findings: the real output must equal the as-written
    model OR (after a repair in /repo) the repaired behaviour; anything else is a broken
    correspondence.  The direct property predicates have been evaluated on these cases too."""
    cases = S['vep_nfstart']
    S['vep_nfstart'] = []
    if cases:
        outs = ctx.lean([c[0] for c in cases])
        for (line, real, obj), model in zip(cases, outs or [None] * len(cases)):
            ctx.evaluated('vep_nfstart', line, True, describe(obj))
            if outs is None:
                continue
            if real == model:
                ctx.count('vep_nfstart', 'as_written')
            elif real.startswith('reject:') or (real.startswith('ok:') and
                                                not real.startswith('ok:-')):
                # repaired: a rejection, or a record (which passed the direct predicates)
                ctx.count('vep_nfstart', 'repaired_behaviour')
            else:
                ctx.add_broken('correspondence', 'vep_nfstart', json.dumps(
                    {'protocol_line': line, 'real': real, 'model': model})[:2000])
    cases = S['redi_any']
    S['redi_any'] = []
    if cases:
        outs = ctx.lean([c[0] for c in cases])
        outs2 = ctx.lean([c[0].replace('C14\tredi\t', 'C14\tredifixed\t', 1) for c in cases])
        for k, (line, real, obj) in enumerate(cases):
            ctx.evaluated('redi_any', line, len(real) > 3, describe(obj))
            if outs is None or outs2 is None:
                continue
            if real == outs[k]:
                ctx.count('redi_any', 'as_written' if outs[k] != outs2[k] else 'agree')
            elif real == outs2[k]:
                ctx.count('redi_any', 'repaired_behaviour')
            else:
                ctx.add_broken('correspondence', 'redi_any', json.dumps(
                    {'protocol_line': line, 'real': real, 'model': outs[k],
                     'model_fixed': outs2[k]})[:2000])


def malformed(ctx, i, S, annos):
    """separate stream: inputs outside the property's domain (location `chr:0`, VEP's raw
    insertion notation end = start-1, lower-case alleles, REDItools ALT outside ACGT, zero
    coverage): the real code must still behave as the model says (internal stream only)"""
    from moPepGen.parser import REDItoolsParser
    rng = ctx.rng('malformed', i)
    a = gen_ref(rng, 200000 + i)
    annos[200000 + i] = a
    tmp = tempfile.mkdtemp(prefix='c14m_')
    R = None
    try:
        R = load_ref(a, tmp)
        for g in a.genes:
            chrom = a.chroms[g.chrom]
            for t in g.txs[:2]:
                nf = 'cds_start_NF' in t.tags
                rows = [(0, 0, 'A'), (0, 3, '-')]
                for p in positions(rng, g, t)[:40]:
                    rows.append((p, p - 1, rand_seq(rng, rng.choice([1, 2, 3]))))
                    rows.append((p, p, rand_seq(rng, rng.choice([1, 2, 3])).lower()))
                    rows.append((p, p + 2, rand_seq(rng, 2).lower()))
                for s_, e_, al in rows:
                    try:
                        r = mk_vep(g, t, s_, e_, al).convert_to_variant_record(R.full, R.genome)
                        out = canon_rec(r)
                    except Exception as ex:   # noqa
                        out = canon_exc(ex)
                    rowd = {'gene': g.id, 'tx': t.id, 'location': f'{g.chrom}:{s_}-{e_}',
                            'allele': al, 'case': 200000 + i, 'strand': g.strand}
                    S['malformed'].append((
                        f'C14\tvep\t{g.strand}\t{g.start}-{g.end}\t{c11.ivs(t.exons)}\t'
                        f'{1 if nf else 0}\t{chrom}\t{s_}\t{e_}\t{al}', out, rowd))
            for _ in range(6):
                p = rng.randint(g.start + 1, g.end)
                bc = rng.choice([[0, 0, 0, 0], [0, 0, 0, 0], [3, 0, 1, 0]])
                subs = rng.choice([[('A', 'N')], [('A', 'G'), ('A', 'X')], [('A', 'G')]])
                min_alt, min_rna = rng.choice([0, 1]), rng.choice([0, 1])
                rec = REDItoolsParser.REDItoolsRecord(g.chrom, p, 'A', 1, 0, 40.0, list(bc),
                                                      list(subs), 0.5, -1, [])
                try:
                    vs = rec.get_valid_subs(min_alt, 0.1, min_rna, 10)
                    out = 'ok:' + ','.join(x + y for x, y in vs)
                except Exception as ex:   # noqa
                    out = 'crash:' + type(ex).__name__
                S['malformed'].append((
                    f'C14\tredivalid\t{p}\t{",".join(map(str, bc))}\t'
                    f'{",".join(x + y for x, y in subs)}\t-1\t{min_alt}\t1/10\t{min_rna}\t10',
                    out, {'gene': g.id, 'position': p, 'base_count': bc, 'case': 200000 + i,
                          'subs': [x + y for x, y in subs]}))
    finally:
        if R is not None:
            close_ref(R)
        shutil.rmtree(tmp, ignore_errors=True)


def process(ctx, i, S, annos, stream='anno', light=False):
    rng = ctx.rng(stream, i)
    a = gen_ref(rng, i)
    if rng.random() < 0.3:
        # a soft-masked genome (Ensembl dna_sm / UCSC style): stretches in lower case
        for name in list(a.chroms):
            seq = list(a.chroms[name])
            if not seq:
                continue
            for _ in range(rng.randint(1, 6)):
                x = rng.randrange(len(seq))
                y = min(len(seq), x + rng.randint(1, 60))
                seq[x:y] = [c.lower() for c in seq[x:y]]
            a.chroms[name] = ''.join(seq)
        ctx.count('anno', 'soft_masked_genomes')
    annos[i] = a
    ctx.count('anno', 'annotations')
    ctx.count('anno', 'genes', len(a.genes))
    ctx.count('anno', 'minus_genes', sum(g.strand == '-' for g in a.genes))
    ctx.count('anno', 'transcripts', sum(len(g.txs) for g in a.genes))
    ctx.count('anno', 'cds_start_NF_tx', sum('cds_start_NF' in t.tags for g in a.genes
                                             for t in g.txs))
    tmp = tempfile.mkdtemp(prefix='c14_')
    R = None
    try:
        R = load_ref(a, tmp)
        vep_case(ctx, i, a, R, rng, S, light)
        redi_case(ctx, i, a, R, rng, S)
    finally:
        if R is not None:
            close_ref(R)
        shutil.rmtree(tmp, ignore_errors=True)


def run(ctx: common.Ctx):
    sys.path.insert(0, common.REPO)
    ctx.coverage['rule'] = (
        'references from the C11 generator (both strands, 1-8 exons incl. 1-base exons / introns, '
        '1-4 isoforms, gene padding 0-4, 35% extra cds_start_NF) plus, for ~55% of the genes, an '
        'OVERLAPPING gene on either strand with its own start / end whose transcripts reuse exon '
        'pieces of the host gene; loaded by the real readers; parse_vep is also run on files that '
        'list every event for ALL isoforms of the gene (expectation per (event, transcript)); '
        'REDItools rows list transcripts of every gene containing the site in random order '
        '(position checked per (row, transcript) in that transcript\'s own gene); for '
        'every (gene, transcript): every position class (gene / transcript / exon first and last '
        'base +-1, outside the gene, intron middle, 3 random) x {SNV, 1-base and k-base deletion, '
        'two-base-span insertion, one-base-span insertion with the reference base first / last / '
        'neither, substitution of 3-6 bases} + whole exon / transcript / gene deletions; '
        'REDItools sites at the same positions x threshold settings, 60% with a value exactly on '
        'or one off a threshold; non-trivial = a VEP case that is not a plain accepted SNV '
        '(indel / substitution / any rejection), a REDItools case with at least one record')
    ctx.coverage['exhaustive'] = False
    S = {s: [] for s in STREAMS}
    annos = {}
    n = ctx.n(200, 4000)
    for i in range(n):
        process(ctx, i, S, annos)
        if i % 20 == 19:
            flush(ctx, S, annos)
            annos.clear()
    for i in range(ctx.n(10, 120)):
        malformed(ctx, i, S, annos)
    for i in range(ctx.n(25, 400)):
        vep_history(ctx, i)
    flush(ctx, S, annos)
    ctx.assumptions += [
        'alleles and genome over ACGT(N); Bio.Seq slicing / reverse_complement modelled by '
        'List.drop/take and `complement` (as in C11)',
        'tx_model.transcript.location is the span of the exons (true for the generated GTFs)',
        '--min-frequency-alt given as a decimal with <= 3 digits and counts < 2^20: the float '
        'comparison read_count/total_count < min_frequency_alt then equals the exact rational '
        'comparison of the model (values exactly on the threshold are generated and counted)',
        'VEPParser.parse / REDItoolsParser.parse (text -> record) are validated through the CLI '
        'functions only, not modelled',
        'a two-base span with a given allele is read as an insertion between the two bases (VEP '
        'output convention); two-base substitutions are outside the property',
    ]


def replay(ctx, data):
    """re-run the real converter on the row / site stored in a replay file"""
    sys.path.insert(0, common.REPO)
    rp = data.get('replay', data)
    case = rp.get('case') if isinstance(rp.get('case'), dict) else rp
    gtf_text = case.get('gtf') or rp.get('gtf')
    genome = case.get('genome') or rp.get('genome')
    print(json.dumps({'what': data.get('what'), 'has_gtf': bool(gtf_text)}))
    if not gtf_text or not genome:
        print('replay file carries no full annotation; regenerate with', case.get('regenerate'))
        return 2
    tmp = tempfile.mkdtemp(prefix='c14r_')
    try:
        from moPepGen import gtf, dna
        from moPepGen.parser import VEPParser, REDItoolsParser
        p = os.path.join(tmp, 'a.gtf')
        open(p, 'w').write(gtf_text)
        fa = os.path.join(tmp, 'g.fa')
        open(fa, 'w').write(''.join(f'>{k}\n{v}\n' for k, v in genome.items()))
        anno = gtf.GenomicAnnotation()
        anno.dump_gtf(p)
        gn = dna.DNASeqDict()
        gn.dump_fasta(fa)
        if 'location' in case:
            chrom, span = case['location'].split(':')
            s, e = span.split('-')
            loc = f'{chrom}:{s}' if s == e else case['location']
            rec = VEPParser.VEPRecord('v', loc, case['allele'], case['gene'], case['tx'],
                                      'Transcript', ['x'], '-', '-', '-', ('-', ''), ('-', ''),
                                      '', {})
            try:
                r = rec.convert_to_variant_record(anno, gn)
                print('real:', canon_rec(r))
            except Exception as ex:   # noqa
                print('real:', canon_exc(ex))
            gs = str(anno.genes[case['gene']].get_gene_sequence(gn[chrom]).seq)
            print('gene sequence:', gs)
        elif 'position' in case:
            rec = REDItoolsParser.REDItoolsRecord(
                anno.genes[case['gene']].chrom, case['position'], case['subs'][0][0], 1, 0, 40.0,
                list(case['base_count']), [tuple(x) for x in case['subs']], 0.5, case['gcov'],
                [(x[0], 'transcript') for x in case['listed']])
            rs = rec.convert_to_variant_records(anno, case['min_alt'], float(case['min_freq']),
                                                case['min_rna'], case['min_dna'])
            print('real:', [(int(r.location.start), r.ref, r.alt, r.attrs['TRANSCRIPT_ID'])
                            for r in rs])
    finally:
        shutil.rmtree(tmp, ignore_errors=True)
    return 1
