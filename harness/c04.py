"""C04 — output hygiene of callVariant, callNovelORF, callAltTranslation."""
from . import common, pipe_checks, pipe_explore


def run(ctx: common.Ctx):
    ctx.coverage['rule'] = (
        'generated references (1-3 genes) with dense records, in 70 % of the inputs with NON-CODING '
        'twins of coding transcripts (same exons, lncRNA, not in the proteome: callNovelORF re-derives '
        'canonical peptides incl. the Met-removed miscleaved N-terminal ones from another transcript); '
        'random enzyme (7), miscleavage 0-3, '
        'length and mass limits, SECT/W2F flags; the three calling commands are run for real; '
        'predicates evaluated on the output files: non-canonical (against the pool the command loads '
        'AND against the Lean digest model peptidePool of C10 on the proteome text + cds_start_NF '
        'flags), limits, no X/*, unique sequences, '
        'table pairs = FASTA pairs, row slice; callVariant run also replayed through the Lean '
        'pipeline model and every written sequence through the Lean is_valid. non-trivial = >= 1 peptide')
    stats = pipe_checks.run_workers(ctx, pipe_explore.c04_worker, ctx.n(60, 800))
    if ctx.driver_ok and stats.get('lean_pool_unavailable'):
        ctx.add_broken('correspondence', 'lean_pool',
                       f'{stats["lean_pool_unavailable"]} input(s): the native driver gave no canonical '
                       'pool (C10 pool) for the proteome; the independent non-canonical check did not run')
    ctx.assumptions += [
        'no-X/no-stop and row-slice clauses depend on the graph callers: checked on real outputs, not proved',
        'float mass comparison vs exact 1e-4 Da integers']
