"""C04 — output hygiene of callVariant, callNovelORF, callAltTranslation."""
from . import common, pipe_checks, pipe_explore


def run(ctx: common.Ctx):
    ctx.coverage['rule'] = (
        'generated references (1-3 genes) with dense records; random enzyme (7), miscleavage 0-3, '
        'length and mass limits, SECT/W2F flags; the three calling commands are run for real; '
        'predicates evaluated on the output files: non-canonical, limits, no X/*, unique sequences, '
        'table pairs = FASTA pairs, row slice; callVariant run also replayed through the Lean '
        'pipeline model and every written sequence through the Lean is_valid. non-trivial = >= 1 peptide')
    pipe_checks.run_workers(ctx, pipe_explore.c04_worker, ctx.n(60, 800))
    ctx.assumptions += [
        'no-X/no-stop and row-slice clauses depend on the graph callers: checked on real outputs, not proved',
        'float mass comparison vs exact 1e-4 Da integers']
