"""C03 — FASTA headers are truthful witnesses for their peptides."""
import collections
from . import common, cv_checks

KF_FS = 'label-omits-required-records'
KF_NESTED = cv_checks.KF_NESTED
KF_DENSE = 'label-omits-record-in-dense-cluster'
KF_UNION = 'label-unions-exclusive-records'
KF_TWIN = 'spurious-entry-beside-correct-twin'


def has_correct_twin(r, w, comp) -> bool:
    """the same peptide has ANOTHER header entry, accepted by the Lean witness predicate, that
    names exactly this entry's records plus the omitted ones (same SECT / W2F reading)"""
    if not w[0] or not comp or not comp.startswith('extra:') or comp == 'extra:':
        return False
    f = w[0].split('\t')
    want = set(x for x in f[4].split(',') if x) | set(comp[6:].split(','))
    rejected = {x[2] for x in r.get('witness_no', [])}
    for o in r['witness']:
        if not o[0] or o[2] == w[2] or o[1] != w[1] or o[2] in rejected:
            continue
        g = o[0].split('\t')
        if g[:4] == f[:4] and g[5:] == f[5:] and set(x for x in g[4].split(',') if x) == want:
            return True
    return False


def stop_lost_inframe(r, extra) -> bool:
    """an omitted record that is NOT frameshifting and overlaps the annotated stop codon: the
    unchanged tree labels read-through peptides with such a record (start_gain of the ORF)"""
    orf = r['desc'].get('orf')
    if not orf:
        return False
    e0 = orf[1]
    for om in extra:
        # (stop-codon SNVs are among the records the unchanged tree is known to omit: only in-frame
        # insertions / deletions that take the stop codon out count here)
        if om and len(om[3]) != len(om[2]) and (len(om[3]) - len(om[2])) % 3 == 0 \
                and om[0] < e0 + 3 and e0 < om[1]:
            return True
    return False


def judge(ctx, res, stream):
    for r in res:
        if 'line_A' not in r or r.get('no_spec') or 'witness_no' not in r:
            continue
        n = len(r['witness'])
        ctx.evaluated(stream, str(r['seed']), n > 0,
                      {'seed': r['seed'], 'kw': r['desc']['kw'], 'vars': r['desc']['vars'],
                       'entries': r['entries'][:4]})
        ctx.count(stream, 'entries_checked', n)
        inv = {}
        for v in r['desc']['vars']:
            inv[v[5]] = v
        idnames = {}
        for part in r['set_line'].split('\t')[9].split(';'):
            f = part.split(':')
            if len(f) == 6:
                for one in f[5].split('+'):
                    idnames.setdefault(int(one), (int(f[0]), int(f[1]), f[2], f[3]))
        for w_ in r['witness_no'][:3]:
            (_line, seq, entry, problem, *_rest) = w_
            comp = r.get('witness_completion', {}).get(entry)
            key = None
            how = ''
            twin = has_correct_twin(r, w_, comp)
            if comp and comp.startswith('extra:') and comp != 'extra:':
                extra = [idnames.get(int(x)) for x in comp[6:].split(',')]
                how = f' (it becomes one when the records {extra} are added)'
                key = KF_FS
                where = r.get('omitted_inside', {}).get(entry)
                if where == 'adjacent':
                    # the omitted record bounds the peptide (it creates / removes the cleavage site
                    # at the peptide's edge): the unchanged tree names such records
                    how += '; an omitted record lies directly at the edge of the peptide (cleavage gain / loss)'
                    key = None
                    if twin:
                        # known class: the peptide ALSO has the correct entry (this entry's records
                        # plus the omitted one); the spurious second entry comes and goes with the
                        # hash seed of the run
                        how += '; the same peptide also carries the correct entry with the omitted record'
                        key = KF_TWIN
                elif stop_lost_inframe(r, extra):
                    how += '; an omitted in-frame record removes the annotated stop codon (read-through)'
                    key = None
                if where == 'inside':
                    # the omitted record changes the peptide itself: not the known class (records
                    # UPSTREAM of the peptide that only let translation reach it)
                    how += '; an omitted record lies INSIDE the stretch that encodes the peptide'
                    key = None
                    # known sub-class: the omitted record sits within 2 nt of a record the entry
                    # names (hypermutated cluster) and the entry carries no SECT / W2F event
                    named = [idnames.get(int(x)) for x in (_line.split('\t')[4].split(',') if _line else []) if x]
                    close = all(any(nm and nm[1] + 2 >= om[0] and om[1] + 2 >= nm[0] for nm in named)
                                for om in extra if om)
                    if close and 'SECT-' not in entry and 'W2F-' not in entry:
                        key = KF_DENSE
            sub = r.get('subset_witness', {}).get(entry)
            if not problem and key is None and sub:
                how = (f' (the records {[idnames.get(int(x)) for x in sub]} alone are a witness: the entry '
                       'also names records that cannot be combined with them)')
                key = KF_UNION
            if not problem and cv_checks.has_nested(r):
                # label bookkeeping inside a splicing insertion that carries records of its own
                key = KF_NESTED
            what = (f'header entry {entry} of peptide {seq}: {problem}' if problem else
                    f'header entry {entry} is not a witness: applying exactly its variants to the '
                    f'transcript does not yield {seq} as a digestion product{how}')
            ctx.add_violation(what, cv_checks.replay_of(r, kind='witness', peptide=seq, entry=entry,
                                                        completion=comp), finding_key=key)
        dup = [e for e, c in collections.Counter(r['entries']).items() if c > 1]
        if dup:
            ctx.add_violation(f'header entry string(s) {dup[:3]} occur more than once in the FASTA',
                              cv_checks.replay_of(r, kind='duplicate-entry', entries=dup))


KF_CIRC_MIX = 'circ-copy-mixing'


def _circ_peptide_readable(cvc, ids, pep) -> bool:
    """classification only (Python): does `pep` occur in one of the three reading frames of the
    molecule that carries exactly the NAMED records, read four times around the circle?  If so the
    records the entry omits lie outside the stretch that encodes the peptide (they open or extend
    the ORF, or move a cleavage site); if not, an omitted record changes the peptide's residues."""
    from Bio.Seq import Seq
    seq = cvc[2]
    named = set(ids)
    recs = []
    for f in cvc[3].split(';'):
        if not f:
            continue
        a = f.split(':')
        vids = {int(x) for x in a[5].split('+')}
        if vids <= named:
            recs.append((int(a[0]), int(a[1]), a[3]))
    last = len(seq) + 1
    for s_, e_, alt in sorted(recs, reverse=True):
        if e_ > last:
            continue
        seq = seq[:s_] + alt + seq[e_:]
        last = s_
    m = seq * 4
    for fr in range(3):
        sub = m[fr:]
        sub = sub[:len(sub) - len(sub) % 3]
        if pep in str(Seq(sub).translate()):
            return True
    return False


def judge_circ(ctx, res, stream='circ-entries'):
    """every (peptide, entry) pair whose backbone is the circRNA: Spec.witnessCirc (Lean) — the named
    records, applied to the ONE molecule (every pass around the circle carries them), yield the
    peptide.  Peptides outside the definition's set are C02's business (copy mixing is listed
    there); for them no entry can be a witness."""
    from . import cv_explore
    lines, idx = [], []
    for r in res:
        if 'cvc' not in r or 'S' not in r or 'idmap' not in r:
            continue
        cid = r['circ_id']
        n = 0
        r['circ_problem'] = []
        for seq_, hdrs in r['headers'].items():
            for h in hdrs:
                for entry in h.split(' '):
                    if entry.split('|')[0] != cid:
                        continue
                    n += 1
                    ids, sect, w2f, problem = cv_explore.parse_entry(entry, cid, r['idmap'], seq_)
                    if not problem and sect:
                        problem = 'the entry names a SECT event, the circle carries no annotated selenocysteine'
                    if problem:
                        r['circ_problem'].append((seq_, entry, problem))
                        continue
                    if seq_ not in r['S']:
                        # no combination of the records yields the peptide on one molecule (C02 reports
                        # it as unrealizable): its entry cannot be a witness either.  Listed class:
                        # every pass around the circle carrying its own combination
                        ctx.count(stream, 'peptide_outside_definition', 1)
                        mixed = 'S_mixed' in r and seq_ in r['S_mixed']
                        ctx.add_violation(
                            f'header entry {entry} of peptide {seq_} is not a witness on the circRNA: no '
                            f'combination of the records, applied to the one molecule, yields the peptide'
                            + (' (it is one when every pass around the circle may carry its own combination)'
                               if mixed else ''),
                            {'kind': 'circ-witness', 'job': r.get('_job'), 'seed': r['seed'],
                             'desc': r.get('desc'), 'peptide': seq_, 'entry': entry, 'cvc': r['cvc']},
                            finding_key=cv_checks.KF_CIRC if mixed else None)
                        continue
                    lines.append('\t'.join(['S', 'wc'] + r['cvc'][2:10] + ['1' if w2f else '0',
                                            ','.join(str(i) for i in ids), seq_]))
                    idx.append((r, seq_, entry, len(ids)))
        ctx.evaluated(stream, str(r['seed']), n > 0,
                      {'seed': r['seed'], 'circ': cid, 'entries': n, 'desc': r.get('desc')})
        ctx.count(stream, 'entries_checked', n)
    outs = ctx.lean(lines)
    if outs is None:
        ctx.add_broken('correspondence', stream, 'native driver unavailable: Spec.witnessCirc not evaluated')
        return
    inv_cache = {}
    for (r, seq_, entry, nids), o in zip(idx, outs):
        ctx.count(stream, 'accepted' if o == 'yes' else 'rejected', 1)
        if nids:
            ctx.count(stream, 'entries_naming_records', 1)
        if o == 'yes':
            continue
        how, key = '', None
        if o.startswith('no:extra:') and o != 'no:extra:':
            inv = inv_cache.setdefault(id(r), {n: k for k, n in r['idmap'].items()})
            extra = [inv.get(int(x), x) for x in o[9:].split(',')]
            how = f' (it becomes one when the records {extra} are added)'
            named = [r['idmap'][p_] for p_ in entry.split('|')[1:-1] if p_ in r['idmap']]
            if _circ_peptide_readable(r['cvc'], named, seq_):
                # the known class: records outside the peptide that only let translation reach it
                key = KF_FS
            else:
                how += '; an omitted record lies INSIDE the stretch that encodes the peptide'
        elif o == 'no:none':
            how = ' (no combination containing the named records yields it)'
        ctx.add_violation(f'header entry {entry} of peptide {seq_} is not a witness on the circRNA: applying '
                          f'exactly its variants to the one molecule and reading around the circle does '
                          f'not yield the peptide as a digestion product{how}',
                          {'kind': 'circ-witness', 'job': r.get('_job'), 'seed': r['seed'], 'desc': r.get('desc'),
                           'peptide': seq_, 'entry': entry, 'lean': o, 'cvc': r['cvc']}, finding_key=key)
    for r in res:
        for seq_, entry, problem in r.get('circ_problem', [])[:3]:
            ctx.add_violation(f'header entry {entry} of peptide {seq_}: {problem}',
                              {'kind': 'circ-witness', 'job': r.get('_job'), 'seed': r['seed'],
                               'desc': r.get('desc'), 'peptide': seq_, 'entry': entry})


def run(ctx: common.Ctx):
    ctx.coverage['rule'] = (
        'same generated inputs as C01; EVERY (peptide, header entry) pair of every real FASTA is '
        'checked: backbone = the transcript, every variant id occurs in the input GVF (or is a '
        'SECT-/W2F-/ORF tag), and Spec.witness (Lean): the haplotype of exactly the named records '
        'yields the peptide as a digestion product (SECT / W2F forms only if the entry names them); '
        'entry strings must be unique per FASTA. non-trivial = run with >= 1 entry')
    base = dict(vary=True, per_tx=(1, 7), max_size=6, window=24, witness=True, as_frac=0.3)
    res = cv_checks.explore(ctx, ctx.n(260, 5000), dict(base, exception=None))
    s1 = dict(ctx.coverage['worker_stats'])
    judge(ctx, res, 'trypsin-noexc')
    # enzymes for which C02 already lists unrealizable peptides (no entry can witness those)
    # are left to C02
    enz = [e for e in cv_checks.enzymes_all()
           if not cv_checks.wide_lookahead(e)]
    res = cv_checks.explore(ctx, ctx.n(100, 2000), dict(base, exception=None, enzymes=enz))
    judge(ctx, res, 'lookahead-enzymes')
    s2 = dict(ctx.coverage['worker_stats'])
    res = cv_checks.explore(ctx, ctx.n(320, 6000),
                            dict(base, exception=None, per_tx=(2, 5), special=['sec', 'sec', 'start', 'stop', 'junction'], sec_near_start=0.6, coding_only=True))
    judge(ctx, res, 'special-codons')
    s3 = dict(ctx.coverage['worker_stats'])
    # W>F reassignment on products with two or three tryptophans (planted clusters): every entry
    # names each reassigned residue once, and the residue it names is an F
    res = cv_checks.explore(ctx, ctx.n(110, 2000),
                            dict(base, exception=None, per_tx=(1, 4), max_size=4, window=30, as_frac=0.0,
                                 trp=1.0, coding_only=True, kw=dict(w2f_reassignment=True)))
    judge(ctx, res, 'w2f-tryptophan-clusters')
    s4 = dict(ctx.coverage['worker_stats'])
    # transcripts without a known ORF: two SNVs in ONE codon, each synonymous alone and
    # non-synonymous together, plus a third SNV in the same peptide
    res = cv_checks.explore(ctx, ctx.n(110, 2000),
                            dict(base, exception=None, per_tx=(0, 1), max_size=4, window=30, as_frac=0.0,
                                 silent_pair=1.0, sec_near_start=0.0, context=0.0))
    judge(ctx, res, 'synonymous-pair-in-one-codon')
    s5 = dict(ctx.coverage['worker_stats'])
    res = cv_checks.explore(ctx, ctx.n(70, 1500),
                            dict(base, exception=None, per_tx=(1, 4), as_frac=1.0, nested_frac=1.0))
    judge(ctx, res, 'nested-in-splicing')
    # circRNA backbones: every entry whose backbone is the circle, through Spec.witnessCirc
    bres = cv_checks.explore_backbone(ctx, 'circ', ctx.n(90, 1500), dict(exception=None))
    judge_circ(ctx, [r for r in bres if 'lines' in r])
    # the same circRNA record in two GVF files: entry strings unique in the whole FASTA
    cv_checks.circ_dup_stream(ctx, ctx.n(60, 800))
    # small records on a fusion donor (main graph and fusion graph of one transcript number their
    # entries): entry strings unique
    cv_checks.fusion_pairs(ctx, ctx.n(36, 400), unique_entries=True, metamorphic=False)
    ctx.coverage['worker_stats'] = {'trypsin-noexc': s1, 'lookahead-enzymes': s2, 'special-codons': s3,
                                    'w2f-tryptophan-clusters': s4, 'synonymous-pair-in-one-codon': s5,
                                    'nested-in-splicing': ctx.coverage['worker_stats']}
    ctx.assumptions += [
        'PARTIAL: label bookkeeping of the traversal is not modelled; each emitted label is validated '
        'by the Lean witness predicate',
        'uniqueness of entry strings is checked per FASTA of single-gene inputs here; across '
        'transcripts it follows from the backbone prefix (Props.C03.labels_distinct_backbones)']
