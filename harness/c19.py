"""C19 — filterFasta keeps exactly the entries satisfying its criteria.

Correspondence streams (real code in-process vs native Lean driver):
  int      Python int() on ASCII strings vs pyInt                         (internal)
  norm     VariantPeptideInfo.from_variant_peptide_minimal -> str(x)      (internal)
  view     get_transcript_ids / is_fusion / is_circ_rna / is_splice_altering (internal)
  filter   the REAL cli.filter_fasta (index-dir route, and annotation route) on generated
           FASTA x expression table x cutoff x flags x denylist x enzyme x miscleavage range
           vs filterPool (proved = the keep rule)                          (observable)
Property predicates evaluated directly on the real outputs:
  sub        output is a sub-collection of the input (sequences, entries)
  rule       kept entries = entries the *stated* rule keeps (generator-side classification)
  idem       filter(filter(x)) == filter(x)        (paired real runs)
  mono       stricter cutoff / narrower miscleavage range keeps a sub-collection
"""
from __future__ import annotations
import argparse
import contextlib
import io
import os
import pickle
import shutil
import sys
import tempfile
from pathlib import Path

from . import common

AA = 'ACDEFGHIKLMNPQRSTVWY'
NUC = 'ACGT'
SPLICE = ['SE', 'RI', 'A3SS', 'A5SS', 'MXE']


# ------------------------------------------------------------------ universe
class Universe:
    """transcripts, their genes, which are coding"""
    def __init__(self, rng, ntx=6):
        self.tx = [f'ENST{rng.randint(1, 99):05d}{i}.{rng.randint(1, 9)}' for i in range(ntx)]
        ngene = max(1, ntx - rng.randint(0, 2))
        self.gene = {t: f'ENSG{(i % ngene) + 1:05d}.{1 + (i % ngene) % 3}'
                     for i, t in enumerate(self.tx)}
        self.coding = [t for t in self.tx if rng.random() < 0.55]

    def genes(self):
        return sorted(set(self.gene.values()))


class NoCoding:
    """a universe seen through load_coding_transcripts' annotation route"""
    def __init__(self, uni):
        self.tx, self.gene, self.coding = uni.tx, uni.gene, []

    def genes(self):
        return sorted(set(self.gene.values()))


def gen_variant(rng, kinds=None):
    k = rng.choice(kinds or ['SNV', 'SNV', 'INDEL', 'MNV', 'RES', 'SE', 'RI', 'A3SS', 'A5SS', 'MXE'])
    pos = rng.randint(1, 3000)
    if k in ('SNV', 'RES'):
        a = rng.choice(NUC)
        b = rng.choice([c for c in NUC if c != a])
        return f'{k}-{pos}-{a}-{b}'
    if k == 'INDEL':
        a = ''.join(rng.choice(NUC) for _ in range(rng.randint(1, 3)))
        return f'INDEL-{pos}-{a}-{a[0]}' if rng.random() < 0.5 else f'INDEL-{pos}-{a[0]}-{a}'
    if k == 'MNV':
        n = rng.randint(2, 3)
        return f'MNV-{pos}-' + ''.join(rng.choice(NUC) for _ in range(n)) + '-' + \
            ''.join(rng.choice(NUC) for _ in range(n))
    if k in ('SE', 'RI'):
        return f'{k}-{pos}' if rng.random() < 0.6 else f'{k}-{pos}-{pos + rng.randint(5, 90)}'
    if k in ('A3SS', 'A5SS'):
        return f'{k}-{pos}-{pos + rng.randint(5, 90)}'
    if k == 'MXE':
        return f'MXE-{pos}-{pos + 40}-{pos + 90}-{pos + 130}'
    raise ValueError(k)


def gen_alt(rng):
    return f'W2F-{rng.randint(1, 400)}' if rng.random() < 0.6 else f'SECT-{rng.randint(1, 400)}'


class GenEntry:
    """a generated header entry with what the generator knows about it"""
    def __init__(self, text, kind, txs, variants, alts, canonical_form, orf, gene=None):
        self.text, self.kind, self.txs = text, kind, txs
        self.variants, self.alts, self.canonical_form = variants, alts, canonical_form
        self.orf, self.gene = orf, gene

    def has_splice(self):
        return self.kind == 'base' and any(v.split('-')[0] in SPLICE for v in self.variants)


def gen_entry(rng, uni: Universe, odd=0.0) -> GenEntry:
    """One entry of the documented grammar. `odd` = probability of a legal-but-not-
    canonical rendering (other field order, index 0 / missing / signed)."""
    r = rng.random()
    idx = str(rng.randint(1, 12))
    canon = True
    if rng.random() < odd:
        canon = False
        idx = rng.choice(['0', '', '+3', '007', '1_0'])
    tail = ([idx] if idx else [])
    if r < 0.40:    # base variant
        tx = rng.choice(uni.tx)
        vs = [gen_variant(rng) for _ in range(rng.randint(0, 3))]
        alts = [gen_alt(rng) for _ in range(rng.choice([0, 0, 0, 1, 2]))]
        if not vs and not alts:
            vs = [gen_variant(rng)]
        orf = f'ORF{rng.randint(1, 5)}' if (rng.random() < 0.25 and vs) else None
        gene = None
        fields = [tx]
        if orf and rng.random() < odd:
            # not a producer shape: a base-variant entry with a gene id (dropped by str∘parse)
            gene = uni.gene[tx]
            fields.append(gene)
            canon = False
        body = vs + alts
        if rng.random() < odd and len(body) > 1:
            rng.shuffle(body)
            canon = canon and body == vs + alts
        fields += body
        if orf:
            fields.append(orf)
        fields += tail
        return GenEntry('|'.join(fields), 'base', [tx], vs, alts, canon, orf, gene)
    if r < 0.55:    # novel ORF
        tx = rng.choice(uni.tx)
        gene = uni.gene[tx]
        alts = [f'W2F-{rng.randint(1, 400)}' for _ in range(rng.choice([0, 0, 1, 2]))]
        orf = f'ORF{rng.randint(1, 5)}'
        fields = [tx, gene] + alts + [orf] + tail
        return GenEntry('|'.join(fields), 'novel', [tx], [], alts, canon, orf, gene)
    if r < 0.75:    # circRNA
        tx = rng.choice(uni.tx)
        if rng.random() < 0.7:
            cid = f'CIRC-{tx}-{rng.randint(1, 900)}:{rng.randint(901, 2000)}'
        else:
            cid = f'CI-{tx}-{rng.randint(1, 900)}:{rng.randint(901, 2000)}'
        vs = [gen_variant(rng, ['SNV', 'INDEL', 'MNV', 'RES']) for _ in range(rng.randint(0, 2))]
        alts = [gen_alt(rng) for _ in range(rng.choice([0, 0, 1]))]
        orf = f'ORF{rng.randint(1, 5)}' if rng.random() < 0.3 else None
        fields = [cid] + ([orf] if orf else []) + vs + alts + tail
        if orf and rng.random() < odd:
            fields = [cid] + vs + alts + [orf] + tail
            canon = canon and not (vs or alts)
        return GenEntry('|'.join(fields), 'circ', [tx], vs, alts, canon, orf)
    # fusion
    t1, t2 = rng.choice(uni.tx), rng.choice(uni.tx)
    fid = f'FUSION-{t1}:{rng.randint(1, 2000)}-{t2}:{rng.randint(1, 2000)}'
    v1 = [gen_variant(rng, ['SNV', 'INDEL', 'RES', 'SE', 'A5SS']) for _ in range(rng.randint(0, 2))]
    v2 = [gen_variant(rng, ['SNV', 'INDEL', 'RES']) for _ in range(rng.randint(0, 1))]
    alts = [gen_alt(rng) for _ in range(rng.choice([0, 0, 1]))]
    orf = f'ORF{rng.randint(1, 5)}' if rng.random() < 0.3 else None
    fields = [fid] + ([orf] if orf else []) + [f'1-{v}' for v in v1] + [f'2-{v}' for v in v2] \
        + alts + tail
    if rng.random() < odd and v1 and v2:
        fields = [fid] + ([orf] if orf else []) + [f'2-{v}' for v in v2] + [f'1-{v}' for v in v1] \
            + alts + tail
        canon = False
    return GenEntry('|'.join(fields), 'fusion', [t1, t2], v1 + v2, alts, canon, orf)


def gen_malformed_entry(rng, uni: Universe) -> str:
    tx = rng.choice(uni.tx)
    k = rng.randint(0, 11)
    if k == 0:
        return f'{tx}|CIRC-{tx}-1:5|SNV-3-A-T|1'          # circ prefix not first -> ValueError
    if k == 1:
        return f'{tx}|SNV-3-A-T|FUSION-{tx}:1-{tx}:2|1'    # fusion prefix not first
    if k == 2:
        return f'FUSION-{tx}:10|1-SNV-3-A-T|1'             # fusion id with 2 parts
    if k == 3:
        return f'FUSION-{tx}:10-{tx}:20-{tx}:30|2'         # 4 parts
    if k == 4:
        return 'CIRC|SNV-3-A-T|1'                          # circ id without '-'
    if k == 5:
        return ''                                          # empty entry (double space)
    if k == 6:
        return str(rng.randint(0, 9))                      # only an index: fields empty
    if k == 7:
        return f'{tx}|ORF1|1'                              # novel ORF without gene id
    if k == 8:
        return f'{tx}|W2F-10|ORF2|2'                       # novel ORF + W2F without gene id
    if k == 9:
        return f'{tx}|XYZ-1|{rng.randint(1, 5)}'           # unknown variant type
    if k == 10:
        return f'SE{tx}|SNV-3-A-T|1'                       # transcript id with a reserved prefix
    return f'{tx}||ORF1|0'


def gen_seq(rng, hot='KR', maxlen=22):
    n = rng.randint(4, maxlen)
    return ''.join(rng.choice(hot) if rng.random() < 0.2 else rng.choice(AA) for _ in range(n))


def gen_pool(rng, uni, npep, odd=0.0, malformed=0):
    """list of (seq, [GenEntry|str])"""
    pool, seen = [], set()
    for _ in range(npep):
        s = gen_seq(rng)
        if s in seen:
            continue
        seen.add(s)
        ents = [gen_entry(rng, uni, odd) for _ in range(rng.choice([1, 1, 2, 3]))]
        pool.append((s, ents))
    if malformed and pool:
        i = rng.randrange(len(pool))
        s, ents = pool[i]
        ents = list(ents)
        ents.insert(rng.randint(0, len(ents)), gen_malformed_entry(rng, uni))
        pool[i] = (s, ents)
    return pool


def etext(e):
    return e if isinstance(e, str) else e.text


def write_fasta(path, pool, wrap=None):
    with open(path, 'w') as fh:
        for s, ents in pool:
            fh.write('>' + ' '.join(etext(e) for e in ents) + '\n')
            fh.write(s + '\n')


def read_fasta(path):
    """[(title, seq)] — plain reader (sequence lines joined)"""
    out, title, seq = [], None, []
    with open(path) as fh:
        for line in fh:
            line = line.rstrip('\n')
            if line.startswith('>'):
                if title is not None:
                    out.append((title, ''.join(seq)))
                title, seq = line[1:], []
            elif title is not None:
                seq.append(line.strip())
    if title is not None:
        out.append((title, ''.join(seq)))
    return out


def canon_pool(recs):
    return ';'.join(sorted(f'{s}:{t}' for t, s in recs))


# ------------------------------------------------------------ real CLI runner
@contextlib.contextmanager
def quiet():
    buf = io.StringIO()
    with contextlib.redirect_stdout(buf), contextlib.redirect_stderr(buf):
        yield


CRASHES = (ValueError, IndexError, KeyError, TypeError)


def crash_name(e):
    return 'crash:' + type(e).__name__


class FilterCase:
    def __init__(self, pool, uni, table_rows, cutoff, flags, deny, enzyme, misc,
                 table_fmt=None, route='index'):
        self.pool, self.uni = pool, uni
        self.table_rows = table_rows      # None or [(tx, 'decimal text')]
        self.cutoff = cutoff              # None or decimal text
        self.flags = flags                # (noncoding, coding, canonical)
        self.deny = deny                  # None or [seq]
        self.enzyme, self.misc = enzyme, misc   # misc: None or (lo, hi) ints
        self.table_fmt = table_fmt or {'delim': '\t', 'skip': 0, 'named': False}
        self.route = route

    def describe(self):
        return {'fasta': [[s, [etext(e) for e in ents]] for s, ents in self.pool],
                'coding_transcripts': self.uni.coding,
                'exprs_table': self.table_rows, 'quant_cutoff': self.cutoff,
                'keep_all_noncoding': self.flags[0], 'keep_all_coding': self.flags[1],
                'keep_canonical': self.flags[2], 'denylist': self.deny,
                'enzyme': self.enzyme, 'miscleavages': self.misc,
                'table_format': self.table_fmt, 'route': self.route}

    def with_(self, **kw):
        c = FilterCase(self.pool, self.uni, self.table_rows, self.cutoff, self.flags,
                       self.deny, self.enzyme, self.misc, self.table_fmt, self.route)
        for k, v in kw.items():
            setattr(c, k, v)
        return c


def milli(text):
    from decimal import Decimal
    v = Decimal(text) * 1000
    assert v == v.to_integral_value()
    return int(v)


def write_gtf(path, uni):
    """tiny annotation for the --annotation-gtf route"""
    with open(path, 'w') as fh:
        pos = 100
        for g in uni.genes():
            txs = [t for t in uni.tx if uni.gene[t] == g]
            gs, ge = pos, pos + 1000 * len(txs)
            gtype = 'protein_coding' if any(t in uni.coding for t in txs) else 'lncRNA'
            fh.write(f'chr1\tHAVANA\tgene\t{gs}\t{ge}\t.\t+\t.\tgene_id "{g}"; gene_type '
                     f'"{gtype}"; gene_name "N{g}";\n')
            for t in txs:
                ttype = 'protein_coding' if t in uni.coding else 'lncRNA'
                a = f'gene_id "{g}"; transcript_id "{t}"; gene_type "{gtype}"; gene_name ' \
                    f'"N{g}"; transcript_type "{ttype}"; transcript_name "N{t}";'
                fh.write(f'chr1\tHAVANA\ttranscript\t{pos}\t{pos + 300}\t.\t+\t.\t{a}\n')
                fh.write(f'chr1\tHAVANA\texon\t{pos}\t{pos + 300}\t.\t+\t.\t{a}\n')
                if t in uni.coding:
                    fh.write(f'chr1\tHAVANA\tCDS\t{pos + 10}\t{pos + 250}\t.\t+\t0\t{a} '
                             f'protein_id "P{t}";\n')
                pos += 1000


def run_real_filter(case: FilterCase, workdir: str, in_fasta=None, tag='o'):
    """returns canonical pool text or crash:<Type>; output path as second value"""
    from moPepGen import cli
    w = Path(workdir)
    inp = Path(in_fasta) if in_fasta else w / 'in.fasta'
    if not in_fasta:
        write_fasta(inp, case.pool)
    out = w / f'{tag}.fasta'
    args = argparse.Namespace()
    args.command = 'filterFasta'
    args.input_path = inp
    args.output_path = out
    args.quiet = True
    args.reference_source = None
    args.annotation_gtf = None
    args.proteome_fasta = None
    args.index_dir = None
    if case.route == 'index':
        idx = w / 'index'
        idx.mkdir(exist_ok=True)
        with open(idx / 'coding_transcripts.pkl', 'wb') as fh:
            pickle.dump(set(case.uni.coding), fh)
        args.index_dir = idx
    else:
        gtf = w / 'anno.gtf'
        write_gtf(gtf, case.uni)
        args.annotation_gtf = gtf
    args.exprs_table = None
    args.skip_lines = 0
    args.delimiter = '\t'
    args.tx_id_col = None
    args.quant_col = None
    if case.table_rows is not None:
        fmt = case.table_fmt
        tab = w / 'exprs.tsv'
        d = fmt['delim']
        with open(tab, 'w') as fh:
            for i in range(fmt['skip']):
                fh.write(f'# comment {i}\n')
            if fmt['named']:
                fh.write(d.join(['transcript_id', 'gene_id', 'length', 'TPM']) + '\n')
            for tx, val in case.table_rows:
                fh.write(d.join([tx, 'G', '100', val]) + '\n')
        args.exprs_table = tab
        args.skip_lines = fmt['skip']
        args.delimiter = d
        args.tx_id_col = 'transcript_id' if fmt['named'] else '1'
        args.quant_col = 'TPM' if fmt['named'] else '4'
    args.quant_cutoff = None if case.cutoff is None else float(case.cutoff)
    args.keep_all_noncoding, args.keep_all_coding, args.keep_canonical = case.flags
    args.miscleavages = None if case.misc is None else f'{case.misc[0]}:{case.misc[1]}'
    args.enzyme = case.enzyme
    args.denylist = None
    if case.deny is not None:
        dl = w / 'deny.fasta'
        with open(dl, 'w') as fh:
            for i, s in enumerate(case.deny):
                fh.write(f'>d{i}\n{s}\n')
        args.denylist = dl
    try:
        with quiet():
            cli.filter_fasta(args)
    except CRASHES as e:
        return crash_name(e), None
    return canon_pool(read_fasta(out)), out


def protocol_line(case: FilterCase):
    lo, hi = ('-', '-') if case.misc is None else (str(case.misc[0]), str(case.misc[1]))
    if case.table_rows is None:
        tab = '-'
    else:
        tab = ','.join(f'{tx}={milli(v)}' for tx, v in case.table_rows)
    cut = '-' if case.cutoff is None else str(milli(case.cutoff))
    flags = ''.join('1' if f else '0' for f in case.flags)
    deny = '-' if case.deny is None else '=' + ','.join(case.deny)
    # annotation route: load_coding_transcripts never runs check_protein_coding, every
    # is_protein_coding is None -> the coding set the code uses is empty (known finding)
    coding = case.uni.coding if case.route == 'index' else []
    parts = ['C19', 'filter', case.enzyme, lo, hi, tab, cut, ','.join(coding), flags, deny]
    for s, ents in case.pool:
        # Bio.SeqIO's FASTA reader strips trailing whitespace from the title line
        parts += [s, ' '.join(etext(e) for e in ents).rstrip()]
    return '\t'.join(parts)


# ------------------------------------------ the rule as stated (generator side)
def stated_keep(case: FilterCase, seq, e: GenEntry, misc_count=None):
    """Keep decision of the property text for a grammar entry whose classification the
    generator knows. Returns True/False, or None when the statement does not decide
    (transcript absent from the table)."""
    coding = set(case.uni.coding)
    denied = case.deny is not None and seq in case.deny
    canonical = e.kind != 'circ' and e.txs[0] in coding
    if denied and not (case.flags[2] and canonical):
        return False
    if case.flags[0] and all(t not in coding for t in e.txs):
        return True
    if case.flags[1] and all(t in coding for t in e.txs):
        return True
    if case.table_rows is None:
        return True
    if e.kind in ('fusion', 'circ') or e.has_splice():
        return True
    tab = {}
    for tx, v in case.table_rows:
        tab[tx] = milli(v)
    if any(t not in tab for t in e.txs) or case.cutoff is None:
        return None
    return all(tab[t] >= milli(case.cutoff) for t in e.txs)


def parse_pool_text(text):
    """canonical pool text -> {seq: [entries]}"""
    out = {}
    if text == '' or text.startswith('crash:'):
        return out
    for rec in text.split(';'):
        s, h = rec.split(':', 1)
        out[s] = h.split(' ')
    return out


def is_sub(small, big):
    """pool dicts: every sequence of small is in big with a sub-multiset of entries"""
    for s, ents in small.items():
        if s not in big:
            return False
        avail = list(big[s])
        for e in ents:
            if e not in avail:
                return False
            avail.remove(e)
    return True


# --------------------------------------------------------------------- streams
VALUES = ['0', '0.5', '1', '2.5', '9.7', '10', '99.999', '100', '250.125']
ENZYMES = ['trypsin', 'trypsin', 'trypsin', 'lysc', 'arg-c', 'chymotrypsin high specificity',
           'glutamyl endopeptidase', 'lysn', 'cnbr']


def gen_case(rng, malformed=False, canonical_only=False):
    uni = Universe(rng, ntx=rng.randint(2, 6))
    odd = 0.0 if canonical_only else 0.15
    # one anomaly per malformed case (the error class of a run with two different
    # failing peptides depends on set iteration order)
    mal_entry = malformed and rng.random() < 0.6
    malformed = malformed and not mal_entry
    pool = gen_pool(rng, uni, rng.randint(1, 7), odd=odd, malformed=1 if mal_entry else 0)
    x = rng.random()
    if x < 0.2:
        rows, cutoff = None, None
    else:
        rows = [(t, rng.choice(VALUES)) for t in uni.tx]
        if rng.random() < 0.15:
            rows.append((rng.choice(uni.tx), rng.choice(VALUES)))     # duplicate: last wins
        cutoff = rng.choice(VALUES)
        if malformed and rng.random() < 0.4 and rows:
            rows.pop(rng.randrange(len(rows)))                          # KeyError
        elif malformed and rng.random() < 0.2:
            cutoff = None                                               # TypeError
    flags = (rng.random() < 0.3, rng.random() < 0.3, rng.random() < 0.4)
    deny = None
    if rng.random() < 0.4:
        deny = [s for s, _ in pool if rng.random() < 0.5]
        if rng.random() < 0.5:
            deny.append(gen_seq(rng))
    enzyme = rng.choice(ENZYMES)
    misc = None
    if rng.random() < 0.5:
        lo = rng.choice([0, 0, 1, 2])
        misc = (lo, lo + rng.choice([0, 1, 2, 5]))
    fmt = {'delim': rng.choice(['\t', '\t', ',']), 'skip': rng.choice([0, 0, 1, 2]),
           'named': rng.random() < 0.3}
    route = 'index' if rng.random() < 0.85 else 'gtf'
    return FilterCase(pool, uni, rows, cutoff, flags, deny, enzyme, misc, fmt, route)


def run(ctx: common.Ctx):
    sys.path.insert(0, common.REPO)
    from moPepGen.aa.VariantPeptideLabel import VariantPeptideInfo
    from moPepGen.aa.AminoAcidSeqRecord import AminoAcidSeqRecord
    from Bio.Seq import Seq
    import logging
    logging.disable(logging.CRITICAL)

    ctx.coverage['rule'] = (
        'headers: seeded entries over the whole label grammar (base variant with SNV/INDEL/MNV/'
        'RES/SE/RI/A3SS/A5SS/MXE/W2F/SECT, ORF tags, gene id, circRNA CIRC-/CI-, fusion with 1-/2-'
        ' variants, novel ORF) incl. non-canonical renderings (field order, index 0/missing/'
        'signed) + a separate malformed stream (12 malformed entry shapes, missing table rows, '
        'missing cutoff); filter cases: pools of 1-7 peptides x expression table x cutoff x 3 '
        'flags x denylist x 9 enzymes x miscleavage range x table format x index/gtf route, all '
        'through the real cli.filter_fasta; non-trivial = the real output keeps a strict, '
        'non-empty sub-collection or the run ends in an error class')

    # ---- int
    rng = ctx.rng('int')
    cases = []
    pool = ['0', '7', '+3', '-3', '007', '1_0', '_1', '1_', '1__0', '', ' 5', '5 ', '\t5', '+', '-',
            '+-1', '1-2', 'ORF1', '1e3', '0x10', '12a', '  ', '+ 5', '١']
    for s in pool:
        if not s.isascii():
            continue
        try:
            real = str(int(s))
        except ValueError:
            real = 'none'
        if '\t' in s:
            continue
        cases.append((f'C19\tint\t{s}', real, s))
    for i in range(ctx.n(300, 3000)):
        s = ''.join(rng.choice('0123456789_+- 9a') for _ in range(rng.randint(0, 5)))
        try:
            real = str(int(s))
        except ValueError:
            real = 'none'
        cases.append((f'C19\tint\t{s}', real, s))
    ctx.diff_stream('int', cases, False, lambda o: {'text': o}, lambda o: o != 'none')

    # ---- norm / view
    def real_norm(header):
        rec = AminoAcidSeqRecord(Seq('PEPTIDE'), description=header)
        try:
            infos = VariantPeptideInfo.from_variant_peptide_minimal(rec)
        except CRASHES as e:
            return crash_name(e)
        return ' '.join(str(x) for x in infos)

    def real_view(entry):
        info = VariantPeptideInfo(entry, None, {}, None)
        try:
            txs = info.get_transcript_ids()
            f, c, s = info.is_fusion(), info.is_circ_rna(), info.is_splice_altering()
        except CRASHES as e:
            return crash_name(e)
        return ','.join(txs) + '/' + ('F' if f else '') + ('C' if c else '') + ('S' if s else '')

    def real_idem(header):
        out = []
        for e in header.split(' '):
            a = real_norm(e)
            if a.startswith('crash:'):
                out.append(a)
            else:
                out.append('1' if real_norm(a) == a else '0')
        return ','.join(out)

    rng = ctx.rng('norm')
    ncases, vcases, icases = [], [], []
    for i in range(ctx.n(8000, 60000)):
        uni = Universe(rng, ntx=rng.randint(1, 4))
        mal = rng.random() < 0.2
        ents = [gen_entry(rng, uni, odd=0.3).text for _ in range(rng.choice([1, 1, 2, 3]))]
        if mal:
            ents.insert(rng.randint(0, len(ents)), gen_malformed_entry(rng, uni))
        h = ' '.join(ents)
        ncases.append((f'C19\tnorm\t{h}', real_norm(h), h))
        ri = real_idem(h)
        icases.append((f'C19\tidem\t{h}', ri, h))
        if not mal and ri.replace('1', '').replace(',', '') != '':
            ctx.add_broken('correspondence', 'idem',
                           f'generated grammar entry is not stable under str∘parse: {h!r} -> {ri}')
        e = rng.choice(ents)
        vcases.append((f'C19\tview\t{e}', real_view(e), e))
    ctx.diff_stream('norm', ncases, False, lambda o: {'header': o},
                    lambda o: not o.startswith('crash'))
    ctx.diff_stream('idem', icases, False, lambda o: {'header': o},
                    lambda o: '0' not in o and 'crash' not in o)
    ctx.diff_stream('view', vcases, False, lambda o: {'entry': o},
                    lambda o: not o.startswith('crash'))

    # ---- filter through the real CLI
    work = tempfile.mkdtemp(prefix='c19_')
    try:
        cases = []
        n_ok = ctx.n(1500, 12000)
        n_mal = ctx.n(300, 2500)
        rng = ctx.rng('filter')
        stats = {'rule_entries': 0, 'idem': 0, 'mono_cutoff': 0, 'mono_misc': 0, 'sub': 0}
        for i in range(n_ok + n_mal):
            mal = i >= n_ok
            canonical_only = (not mal) and (i % 2 == 0)
            case = gen_case(rng, malformed=mal, canonical_only=canonical_only)
            d = os.path.join(work, f'c{i}')
            os.mkdir(d)
            real, outp = run_real_filter(case, d)
            cases.append((protocol_line(case), real, case))
            if not real.startswith('crash:'):
                check_predicates(ctx, case, real, outp if not mal else None, d, rng,
                                 canonical_only, stats)
            shutil.rmtree(d, ignore_errors=True)

        def nontrivial(real):
            return real != ''
        ctx.diff_stream('filter', cases, True, lambda c: c.describe(), nontrivial,
                        'filterFasta output differs from the keep rule (proved model)')
        for k, v in stats.items():
            ctx.count('predicates', k, v)
    finally:
        shutil.rmtree(work, ignore_errors=True)
    ctx.assumptions += [
        'float() parsing of the expression table and cutoff (values have <= 3 decimals; compared '
        'as exact thousandths on the model side)',
        'str.split / str.join on " " and "|" (done by the driver; round trip proved for the '
        'model functions splitOnC/joinC)',
        'ASCII headers (Python int() also accepts non-ASCII digits/whitespace)',
    ]


def check_predicates(ctx, case, real, outp, d, rng, canonical_only, stats):
    """evaluate the property directly on real outputs"""
    inp = {s: [etext(e) for e in ents] for s, ents in case.pool}
    out = parse_pool_text(real)
    rp = lambda extra: dict(case.describe(), output=real, **extra)
    # sub-collection: sequences unchanged, entries among the input's entries of that sequence
    stats['sub'] += 1
    if canonical_only and not is_sub(out, inp):
        ctx.add_violation('filterFasta output is not a sub-collection of its input '
                          '(sequence or header entry not in the input)', rp({'predicate': 'sub'}))
    for s in out:
        if s not in inp:
            ctx.add_violation('filterFasta emitted a sequence that is not in the input',
                              rp({'predicate': 'sub-seq', 'seq': s}))
    # the stated rule, entry by entry (only canonical-form pools: output text == input text)
    if canonical_only:
        from moPepGen.aa.AminoAcidSeqRecord import AminoAcidSeqRecord
        from Bio.Seq import Seq
        for s, ents in case.pool:
            misc_ok = True
            if case.misc is not None:
                exc = 'trypsin_exception' if case.enzyme == 'trypsin' else None
                n = len(AminoAcidSeqRecord(Seq(s)).find_all_enzymatic_cleave_sites(case.enzyme, exc))
                misc_ok = case.misc[0] <= n <= case.misc[1]
            kept = list(out.get(s, []))
            for e in ents:
                want = stated_keep(case, s, e)
                if want is None or not e.canonical_form:
                    continue
                want = want and misc_ok
                got = e.text in kept
                if got:
                    kept.remove(e.text)
                stats['rule_entries'] += 1
                if want != got:
                    key = None
                    if case.route == 'gtf' and any(case.flags):
                        # decided differently only because the coding set is empty?
                        c0 = case.with_(uni=NoCoding(case.uni))
                        w0 = stated_keep(c0, s, e)
                        if w0 is not None and (w0 and misc_ok) == got:
                            key = 'gtf-route-no-coding'
                    if key is None:
                        # (fixed in /repo) SECT-<n> treated as splice-altering: kept only
                        # because of that exemption, on a run not explained by anything else
                        sect = (got and not want and e.kind == 'base'
                                and any(a.startswith('SECT') for a in e.alts))
                        key = 'sect-exempt-as-splice' if sect else None
                    ctx.add_violation(
                        'filterFasta keeps/drops a header entry against the stated rule',
                        rp({'predicate': 'rule', 'seq': s, 'entry': e.text, 'stated_keep': want,
                            'kept': got}),
                        finding_key=key)
    if outp is None:
        return
    # idempotence (paired real run on the real output)
    again, _ = run_real_filter(case, d, in_fasta=outp, tag='again')
    stats['idem'] += 1
    if again != real:
        ctx.add_violation('filterFasta is not idempotent', rp({'predicate': 'idem', 'second': again}))
    # monotone in the cutoff
    if case.cutoff is not None and case.table_rows is not None:
        bigger = [v for v in VALUES if milli(v) > milli(case.cutoff)]
        if bigger:
            c2 = case.with_(cutoff=rng.choice(bigger))
            r2, _ = run_real_filter(c2, d, tag='mc')
            stats['mono_cutoff'] += 1
            if not r2.startswith('crash:') and not is_sub(parse_pool_text(r2), out):
                ctx.add_violation('a stricter cutoff keeps more',
                                  rp({'predicate': 'mono_cutoff', 'cutoff2': c2.cutoff, 'output2': r2}))
    # monotone in the miscleavage range
    if case.misc is not None:
        lo, hi = case.misc
        lo2 = lo + rng.choice([0, 1])
        hi2 = max(lo2, hi - rng.choice([0, 1]))
        if hi2 <= hi:
            c2 = case.with_(misc=(lo2, hi2))
            r2, _ = run_real_filter(c2, d, tag='mm')
            stats['mono_misc'] += 1
            if not r2.startswith('crash:') and not is_sub(parse_pool_text(r2), out):
                ctx.add_violation('a narrower miscleavage range keeps more',
                                  rp({'predicate': 'mono_misc', 'misc2': [lo2, hi2], 'output2': r2}))


def replay(ctx, data):
    sys.path.insert(0, common.REPO)
    print(data.get('what'))
    print({k: v for k, v in data.get('replay', {}).items() if k != 'case'})
    return 0
