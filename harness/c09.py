"""C09 — callAltTranslation equals the definitional alt-translation digest."""
import multiprocessing as mp
import random
import re
import shutil
import traceback

from . import common, gen_ref, pipe

KF_EXC = 'exception-context-split-across-nodes'
KF_NFSEC = 'c09-startnf-met-removed-product-before-sec'


def worker(job):
    seed, tier = job
    rng = random.Random(seed)
    out = {'stats': {}, 'seed': seed, 'violations': []}
    case = gen_ref.Case(gen_ref.work_dir('c09'))
    try:
        with gen_ref.quiet():
            # half of the references: a Sec planted a few codons behind the start codon (sometimes two,
            # sometimes with a lysine in front), so that Sec termination meets the start node, the
            # Met-removed twin and the length limits
            gen_ref.make_reference(case, seed, rng.choice([1, 2, 3]),
                                   sec_near_start=rng.choice([0.0, 0.6, 1.0]),
                                   sec_lys=rng.choice([0.0, 0.0, 0.7]),
                                   widen_genes=rng.choice([0.0, 0.7, 1.0]))
            genome, anno, proteome = gen_ref.load_reference(case)
        kw = dict(cleavage_rule='trypsin', cleavage_exception=rng.choice([None, None, 'auto']),
                  miscleavage=rng.choice([0, 1, 2, 2, 3]), min_mw=rng.choice([300., 500., 800.]),
                  min_length=rng.choice([5, 7, 9]), max_length=rng.choice([15, 25, 40]))
        # a maximum length right at the distance of the first Sec from the start codon: the
        # Sec-terminated N-terminal product then fits only with / without its initiator Met
        ks = []
        for m_ in anno.transcripts.values():
            if m_.is_protein_coding:
                ts_ = m_.get_transcript_sequence(genome[m_.transcript.chrom])
                if ts_.orf and ts_.selenocysteine:
                    k_ = (int(ts_.selenocysteine[0].start) - int(ts_.orf.start)) // 3
                    if 6 <= k_ <= 41:
                        ks.append(k_)
        if ks and rng.random() < 0.6:
            kw['max_length'] = max(kw['min_length'], rng.choice(ks) + rng.choice([-2, -1, -1, 0, 1]))
            out['stats']['max_length_at_first_sec'] = 1
        flags = rng.choice([(True, True), (True, False), (False, True)])
        args = gen_ref.call_variant_args(case, case.dir / 'alt.fasta', **kw)
        args.command = 'callAltTranslation'
        args.selenocysteine_termination, args.w2f_reassignment = flags
        from moPepGen.cli.call_alt_translation import call_alt_translation
        canon = pipe.model_canonical_pool(case, **kw)
        desc = {'seed': seed, 'kw': kw, 'selenocysteine_termination': flags[0], 'w2f': flags[1]}
        out['desc'] = desc
        try:
            with gen_ref.quiet():
                call_alt_translation(args)
        except BaseException as e:   # noqa
            if isinstance(e, KeyboardInterrupt):
                raise
            out['stats']['crash'] = 1
            out['violations'].append((f'callAltTranslation crashed on a valid reference: '
                                      f'{type(e).__name__}: {str(e)[:200]}', desc))
            return out
        fasta = gen_ref.read_fasta(args.output_path)
        exc = kw['cleavage_exception']
        exc = 'trypsin_exception' if exc == 'auto' else exc
        lines, lines_b, txs = [], [], []
        for tx_id, m in anno.transcripts.items():
            if not m.is_protein_coding:
                continue
            ts = m.get_transcript_sequence(genome[m.transcript.chrom])
            if not ts.orf:
                continue
            sec = [int(s.start) for s in ts.selenocysteine]
            txs.append(tx_id)
            out['stats'][f'sec_sites_{min(len(sec), 3)}'] = out['stats'].get(f'sec_sites_{min(len(sec), 3)}', 0) + 1
            if m.is_cds_start_nf():
                out['stats']['start_nf'] = out['stats'].get('start_nf', 0) + 1
            if m.is_mrna_end_nf():
                out['stats']['end_nf'] = out['stats'].get('end_nf', 0) + 1

            def ln(e):
                return '\t'.join(['S', 'alttrans', str(ts.seq), str(int(ts.orf.start)), str(int(ts.orf.end)),
                                  '1' if m.is_cds_start_nf() else '0', '1' if m.is_mrna_end_nf() else '0',
                                  ','.join(map(str, sec)), kw['cleavage_rule'], e or '-',
                                  str(kw['miscleavage']), str(pipe.mw_int(kw['min_mw'])),
                                  str(kw['min_length']), str(kw['max_length']),
                                  '1' if flags[0] else '0', '1' if flags[1] else '0',
                                  ','.join(sorted(canon))])
            lines.append(ln(exc))
            if exc:
                lines_b.append(ln(None))
                # plain products of the transcript when the exception is ignored
                out.setdefault('lines_p', []).append('\t'.join(
                    ['S', 'ref', str(ts.seq), '1', str(int(ts.orf.start)), str(int(ts.orf.end)),
                     '1' if m.is_cds_start_nf() else '0', '1' if m.is_mrna_end_nf() else '0',
                     ','.join(map(str, sec)), kw['cleavage_rule'], '-', str(kw['miscleavage']),
                     str(pipe.mw_int(kw['min_mw'])), str(kw['min_length']), str(kw['max_length']), '0', '0']))
            if m.is_cds_start_nf() and sec:
                from Bio.Seq import Seq as _Seq
                cds = str(ts.seq)[int(ts.orf.start):]
                aa = list(str(_Seq(cds[:len(cds) // 3 * 3]).translate()))
                for s0 in sec:
                    k0 = (s0 - int(ts.orf.start)) // 3
                    if 0 <= k0 < len(aa):
                        aa[k0] = 'U'
                out.setdefault('nf_proteins', []).append(''.join(aa))
        out.update(lines=lines, lines_b=lines_b, txs=txs, real=sorted(fasta.keys()))
        out['stats']['runs'] = 1
        out['stats']['real_peptides'] = len(fasta)
        # the SECT ids a header may name: SECT-<1-based GENE coordinate of the first base (transcript
        # order) of an annotated Sec codon>, from the exon table alone
        sect_ok = {}
        for t_id, m_ in anno.transcripts.items():
            gm_ = anno.genes[m_.transcript.gene_id]
            strand_ = m_.transcript.strand
            exs_ = sorted((int(e.location.start), int(e.location.end)) for e in m_.exon)
            if strand_ == -1:
                exs_ = exs_[::-1]
            ids_ = set()
            for sf in m_.selenocysteine:
                g0 = int(sf.location.start) if strand_ == 1 else int(sf.location.end) - 1
                gene_pos = g0 - int(gm_.location.start) if strand_ == 1 else int(gm_.location.end) - 1 - g0
                ids_.add(f'SECT-{gene_pos + 1}')
            sect_ok[t_id] = ids_
        if case.meta.get('widened_genes'):
            out['stats']['references_with_gene_wider_than_transcript'] = 1
        # headers must name the SECT / W2F events
        for pseq, hdrs in fasta.items():
            for h in hdrs:
                for e in h.split(' '):
                    parts = e.split('|')
                    ev = [x for x in parts[1:-1] if re.match(r'^(SECT|W2F)-\d+$', x)]
                    if not ev or parts[0] not in txs:
                        out['violations'].append((f'header entry {e} of {pseq} names no SECT/W2F event '
                                                  'of a coding transcript', desc))
                    for x in ev:
                        if x.startswith('SECT') and parts[0] in sect_ok and x not in sect_ok[parts[0]]:
                            out['violations'].append((
                                f'entry {e} names {x}, which is not the gene coordinate of an annotated '
                                f'selenocysteine codon of {parts[0]} (annotated: {sorted(sect_ok[parts[0]])})', desc))
                    if any(x.startswith('SECT') for x in ev) and not flags[0]:
                        out['violations'].append((f'entry {e} names a SECT event although '
                                                  '--selenocysteine-termination is off', desc))
                    if any(x.startswith('W2F') for x in ev) and not flags[1]:
                        out['violations'].append((f'entry {e} names a W2F event although '
                                                  '--w2f-reassignment is off', desc))
                    nw2f = len([x for x in ev if x.startswith('W2F')])
                    if nw2f and 'F' not in pseq:
                        out['violations'].append((f'entry {e} names W2F but {pseq} has no F', desc))
        return out
    except Exception:   # noqa
        out['stats']['worker_error'] = 1
        out['error'] = traceback.format_exc()[-1500:]
        return out
    finally:
        case.cleanup()


def run(ctx: common.Ctx):
    ctx.coverage['rule'] = (
        'references from moPepGen.fake with 1-3 genes; coding transcripts carry 0-3 Sec sites, '
        'cds_start_NF and mRNA_end_NF tags at random; options: miscleavage 0-3, limits, exception, '
        'flag pairs (SECT, W2F) in {(1,1),(1,0),(0,1)}; real callAltTranslation peptide set must '
        'EQUAL the union over coding transcripts of Spec.altTranslationPeptides (Lean driver); every '
        'header entry must name a SECT-/W2F- event allowed by the flags. non-trivial = >= 1 peptide')
    n = ctx.n(420, 4000)
    jobs = [(ctx.rng('job', i).randrange(1 << 30), ctx.tier) for i in range(n)]
    with mp.get_context('fork').Pool(14) as pool:
        res = pool.map(worker, jobs)
    stats = {}
    for r in res:
        for k, v in r['stats'].items():
            stats[k] = stats.get(k, 0) + v
        for what, d in r['violations'][:2]:
            ctx.add_violation(what, d)
    ctx.coverage['worker_stats'] = stats
    errs = [r['error'] for r in res if 'error' in r]
    if errs:
        ctx.coverage['worker_errors'] = errs[:3]
    done = [r for r in res if 'lines' in r]
    lines, idx = [], []
    for i, r in enumerate(done):
        for ln in r['lines']:
            lines.append(ln)
            idx.append((i, 'A'))
        for ln in r['lines_b']:
            lines.append(ln)
            idx.append((i, 'B'))
        for ln in r.get('lines_p', []):
            lines.append(ln)
            idx.append((i, 'P'))
    outs = ctx.lean(lines)
    if outs is None:
        ctx.add_broken('correspondence', 'alttrans', 'native driver unavailable')
        outs = [''] * len(lines)
    spec = [set() for _ in done]
    spec_b = [set() for _ in done]
    spec_p = [set() for _ in done]
    for (i, which), o in zip(idx, outs):
        if o:
            {'A': spec, 'B': spec_b, 'P': spec_p}[which][i] |= set(o.split(','))
    for r, S, SB, PB in zip(done, spec, spec_b, spec_p):
        real = set(r['real'])
        ctx.evaluated('alttrans', str(r['seed']), bool(real or S),
                      dict(r['desc'], transcripts=r['txs'], n_expected=len(S), n_reported=len(real)))
        if real == S or not ctx.driver_ok:
            continue
        # open finding: the graph never applies the exception (its NAME is used as the regex), so the
        # output is the definition computed WITHOUT the exception, or lies between the two readings
        # (the graph knows no 'plain product' either: what it yields without the exception is only
        # reduced by the canonical pool, which DOES honour the exception — hence `| PB`)
        if r['lines_b'] and (real == SB or (not ((S & SB) - real) and not (real - (S | SB | PB)))):
            ctx.add_violation('callAltTranslation: cleavage-exception context split across graph nodes: '
                              f'missing {sorted(S - real)[:3]}, unexpected {sorted(real - S)[:3]}',
                              dict(r['desc'], transcripts=r['txs']), finding_key=KF_EXC)
            continue
        # open finding: for a cds_start_NF transcript whose translation starts with M, the Met-removed
        # twin of the FIRST product is reported with a SECT event when that product ends right in
        # front of a Sec (it is a plain product's twin, not something only Sec termination yields)
        unexpected = real - S
        if not (S - real) and unexpected and all(
                any(pr.startswith('M' + q + 'U') for pr in r.get('nf_proteins', [])) for q in unexpected):
            ctx.add_violation('callAltTranslation: Met-removed twin of the first product of a cds_start_NF '
                              f'transcript reported as Sec-terminated form: {sorted(unexpected)[:3]}',
                              dict(r['desc'], transcripts=r['txs']), finding_key=KF_NFSEC)
            continue
        ctx.add_violation(
            f'callAltTranslation output differs from the definitional alt-translation digest: missing '
            f'{sorted(S - real)[:3]} ({len(S - real)}), unexpected {sorted(real - S)[:3]} ({len(real - S)})',
            dict(r['desc'], transcripts=r['txs'], missing=sorted(S - real)[:20],
                 unexpected=sorted(real - S)[:20]))
    shutil.rmtree(gen_ref.WORK, ignore_errors=True)
    ctx.assumptions += ['PARTIAL: the traversal and the translational_modification bookkeeping are not '
                        'modelled as a whole; equality with the definition is decided per reference']
