"""Case workers for the Layer-P checks (C04, C06, C07).  Each worker builds one
generated input, runs the REAL callVariant several times in-process and
returns protocol lines for the Lean model plus direct property violations.
"""
from __future__ import annotations
import argparse
import itertools
import json
import os
import random
import shutil
import subprocess
import sys
import traceback
from pathlib import Path
from typing import Dict, List, Optional, Set, Tuple

from . import common, gen_ref, pipe

LIMITS = (500.0, 7, 25)


def build_case(seed: int, n_genes: int, opts: dict) -> Optional[gen_ref.Case]:
    case = gen_ref.Case(gen_ref.work_dir('pipe'))
    try:
        with gen_ref.quiet():
            gen_ref.make_reference(case, seed, n_genes)
            genome, anno, _ = gen_ref.load_reference(case)
            recs = gen_ref.make_variants(case, seed + 1, anno, genome, **opts)
        case.meta['records'] = recs
        case.meta['n_records'] = len(recs)
        return case
    except Exception:   # noqa generator failure is not a finding
        case.cleanup()
        return None


def seqs(run: gen_ref.RunResult) -> Set[str]:
    return set(run.fasta.keys())


def strip_idx(label: str) -> str:
    """header entry without its trailing per-call counter (the counter depends on set
    iteration order inside the graph traversal and is not stable between runs)"""
    # Which variant IDs a label lists for a peptide reachable along several paths, and the
    # trailing per-call counter, depend on set iteration order inside the graph traversal
    # (observed to differ between two identical runs); only the backbone (transcript,
    # fusion or circRNA id = the processing unit) is stable between runs.
    return label.split('|', 1)[0]


def pairs(run: gen_ref.RunResult) -> Set[Tuple[str, str]]:
    return {(s, strip_idx(l)) for s, hdrs in run.fasta.items() for h in hdrs for l in h.split(' ')}


def model_case(struct, run, fail, threads, skip, canon, desc):
    line, lab = pipe.model_line(struct, run, set(fail), threads, skip, LIMITS, canon)
    return (line, pipe.real_line(struct, run, lab), desc)


# ------------------------------------------------------------------- C07
def c07_worker(job):
    seed, tier = job
    rng = random.Random(seed)
    out = {'cases': [], 'violations': [], 'stats': {}}
    n_genes = rng.choice([2, 3, 3, 4])
    case = build_case(seed, n_genes, dict(per_tx=(0, 3), fusion_frac=0.5, circ_frac=0.6,
                                          alt_splice_frac=0.15))
    if case is None:
        out['stats']['gen_failed'] = 1
        return out
    try:
        recs = case.meta['records']
        from moPepGen.circ import CircRNAModel as _Circ
        with gen_ref.quiet():
            # an indel anchored ON THE LAST BASE OF THE START CODON of a fusion donor / circRNA host
            # (the graph builders re-anchor it): the units of one transcript share the record
            # objects, so what one unit does to them must not be needed by another
            genome_, anno_, _ = gen_ref.load_reference(case)
            donors = sorted({r.transcript_id for r in recs if r.__class__ is not _Circ and r.is_fusion()} |
                            {r.transcript_id for r in recs if r.__class__ is _Circ})
            have_ = {(getattr(r, 'transcript_id', None), r.id) for r in recs}
            for t_ in donors:
                m_ = anno_.transcripts.get(t_)
                if m_ is None or not m_.is_protein_coding or rng.random() > 0.6:
                    continue
                ts_ = m_.get_transcript_sequence(genome_[m_.transcript.chrom])
                if not ts_.orf:
                    continue
                try:
                    v_ = gen_ref.small_variant(anno_, genome_, t_, int(ts_.orf.start) + 2,
                                               rng.choice(['INS', 'DEL']), rng.randint(1, 3), rng)
                except Exception:   # noqa
                    v_ = None
                if v_ is not None and (t_, v_.id) not in have_:
                    recs = recs + [v_]
                    case.meta.setdefault('start_codon_indel_tx', []).append(t_)
                    out['stats']['start_codon_indel_on_donor'] = out['stats'].get('start_codon_indel_on_donor', 0) + 1
            case.meta['records'] = recs
            gen_ref.write_gvfs(case, recs)
        if not case.gvfs:
            out['stats']['empty'] = 1
            return out
        canon = pipe.canonical_pool(case)
        base = gen_ref.run_call_variant(case, tag='base')
        if base.status != 'ok':
            out['stats']['baseline_crash'] = 1
            out['stats']['baseline_crash_' + base.status] = 1
            return out
        struct = pipe.Structure(base)
        units = struct.all_units()
        out['stats']['units'] = len(units)
        out['stats'][f'units_{min(len(units), 8)}'] = 1
        desc0 = {'seed': seed, 'n_genes': n_genes, 'units': units}
        out['cases'].append(('run', ) + model_case(struct, base, [], 1, False, canon,
                                                     dict(desc0, fail=[], skip=False)))
        ubA = {tx: dict(v) for tx, v in pipe.units_by_tx(base.trace).items()}
        validA = seqs(base)
        c07_invalid_series(case, seed, rng, tier, out, base, canon, desc0)
        c07_stage_faults(case, seed, rng, tier, out, desc0)
        if not units:
            return out
        max_exh = 4 if tier == 'quick' else 6
        if len(units) <= max_exh:
            subsets = [list(c) for k in range(1, len(units) + 1)
                       for c in itertools.combinations(units, k)]
            out['stats']['exhaustive_inputs'] = 1
        else:
            subsets = [[u] for u in units]
            for _ in range(6 if tier == 'quick' else 24):
                k = rng.randint(2, len(units))
                subsets.append(sorted(rng.sample(units, k), key=units.index))
        tx_of = {u: tx for tx in struct.txs for u in struct.units.get(tx, [])}
        for F in subsets:
            threads = 1 if rng.random() < 0.85 else 3
            runB = gen_ref.run_call_variant(case, tag='b', fail=','.join(F), skip_failed=True,
                                            threads=threads)
            desc = dict(desc0, fail=F, skip=True, threads=threads)
            out['stats']['fault_runs'] = out['stats'].get('fault_runs', 0) + 1
            # --- direct property checks
            if runB.status != 'ok':
                out['violations'].append((
                    f'--skip-failed run aborted ({runB.status}: {runB.error}) when units {F} fail',
                    dict(desc, kind='skip-aborts')))
                continue
            out['cases'].append(('run', ) + model_case(struct, runB, F, threads, True, canon, desc))
            # expected pairs from the fault-free run
            expected = set()
            allowed_extra_seqs: Dict[str, Set[str]] = {}
            for tx in struct.txs:
                main_failed = any(u.startswith('main:') and u in F for u in struct.units.get(tx, []))
                for u in struct.units.get(tx, []):
                    if u in F:
                        continue
                    for s, ls in ubA.get(tx, {}).get(u, {}).items():
                        if s in validA:
                            expected.update((s, strip_idx(l)) for l in ls)
                if main_failed:
                    mainu = [u for u in struct.units[tx] if u.startswith('main:')][0]
                    allowed_extra_seqs[tx] = set(ubA.get(tx, {}).get(mainu, {}).keys())
            got = pairs(runB)
            missing = expected - got
            extra = got - expected
            # coupling documented in DESIGN: a circRNA unit is called with a deny-list that
            # lacks the peptides of a failed main unit of the same transcript
            ok_extra = set()
            ubB = {tx: dict(v) for tx, v in pipe.units_by_tx(runB.trace).items()}
            for tx, allowed in allowed_extra_seqs.items():
                for u, pm in ubB.get(tx, {}).items():
                    if u.startswith('circ:'):
                        for s, ls in pm.items():
                            if s in allowed:
                                ok_extra.update((s, strip_idx(l)) for l in ls)
            extra -= ok_extra
            if missing or extra:
                out['violations'].append((
                    f'with --skip-failed and failing units {F}, the output differs from the '
                    f'fault-free output minus the failing units: missing {sorted(missing)[:3]} '
                    f'extra {sorted(extra)[:3]}', dict(desc, kind='isolation'),
                    circ_dep_key(case, missing, extra, F)))
            tally = pipe.parse_tally(runB.log)
            exp_t = [sum(1 for tx in struct.txs if any(u in F and u.startswith(k)
                                                       for u in struct.units.get(tx, [])))
                     for k in ('main:', 'fusion:', 'circ:')]
            if tally is None or tally[1:4] != exp_t:
                out['violations'].append((
                    f'tally of failed units {tally[1:4] if tally else None} != {exp_t} for failing {F}',
                    dict(desc, kind='tally')))
            # --- without --skip-failed: must abort, no FASTA
            if len(F) == 1 or rng.random() < 0.2:
                thC = 1 if rng.random() < 0.7 else rng.choice([2, 3])
                runC = gen_ref.run_call_variant(case, tag='c', fail=','.join(F), skip_failed=False,
                                                threads=thC)
                out['stats']['noskip_runs'] = out['stats'].get('noskip_runs', 0) + 1
                if thC > 1:
                    out['stats']['noskip_multithread_runs'] = \
                        out['stats'].get('noskip_multithread_runs', 0) + 1
                descC = dict(desc0, fail=F, skip=False, threads=thC)
                if runC.status == 'ok' or runC.fasta_exists:
                    out['violations'].append((
                        f'without --skip-failed, failing units {F} did not abort the command '
                        f'(status {runC.status}, FASTA written: {runC.fasta_exists})',
                        dict(descC, kind='no-abort')))
                out['cases'].append(('run', ) + model_case(struct, runC, F, thC, False, canon, descC))
        return out
    except Exception:   # noqa
        out['stats']['worker_error'] = 1
        out['error'] = traceback.format_exc()[-1500:]
        return out
    finally:
        case.cleanup()


def c07_stage_faults(case, seed, rng, tier, out, desc0):
    """a fault INSIDE the main unit of one transcript — at any of the five stages of the graph
    algorithm, including the second (novel-ORF) traversal that --coding-novel-orf adds — under
    --skip-failed: the other units of that transcript and all other transcripts must come out as
    in the fault-free run."""
    kw = dict(coding_novel_orf=True)
    base = gen_ref.run_call_variant(case, tag='sfb', **kw)
    if base.status != 'ok':
        out['stats']['stage_baseline_crash'] = 1
        return
    struct = pipe.Structure(base)
    ub = {tx: dict(v) for tx, v in pipe.units_by_tx(base.trace).items()}
    valid = seqs(base)
    cands = [tx for tx in struct.txs if any(u.startswith('main:') for u in struct.units.get(tx, []))]
    if not cands:
        return
    # prefer transcripts that have further units (fusion / circRNA) behind the main unit
    rich = [tx for tx in cands if len(struct.units.get(tx, [])) > 1]
    picks = (rich or cands)[:]
    rng.shuffle(picks)
    # the variant-free graph of call_canonical_peptides (built before the units of a transcript)
    tx0 = picks[0]
    run0 = gen_ref.run_call_variant(case, tag='sf0', skip_failed=True, threads=1,
                                    stage_fail=(tx0, 'canonical:create_cleavage_graph', 1), **kw)
    out['stats']['canonical_fault_runs'] = out['stats'].get('canonical_fault_runs', 0) + 1
    if run0.status != 'ok':
        out['violations'].append((
            f'--skip-failed run aborted ({run0.status}) when the canonical-peptide call of {tx0} fails',
            dict(desc0, kind='canonical-call-fault', tx=tx0), CANONICAL_CALL_KEY))
    for tx in picks[:2 if tier == 'quick' else 4]:
        mainu = [u for u in struct.units[tx] if u.startswith('main:')][0]
        for stage, nth in [(rng.choice(gen_ref.STAGES[:4]), 1), ('call_variant_peptides', 1),
                           ('call_variant_peptides', 2)]:
            run = gen_ref.run_call_variant(case, tag='sf', skip_failed=True, threads=1,
                                           stage_fail=(tx, stage, nth), **kw)
            out['stats']['stage_fault_runs'] = out['stats'].get('stage_fault_runs', 0) + 1
            desc = dict(desc0, kind='stage-fault', tx=tx, stage=stage, nth=nth, coding_novel_orf=True)
            if run.status != 'ok':
                out['violations'].append((
                    f'--skip-failed run aborted ({run.status}: {run.error[:200]}) when {stage} (call {nth}) '
                    f'of the main unit of {tx} fails', desc))
                continue
            tally = pipe.parse_tally(run.log)
            # which unit was executing when the fault hit: the one that left no trace
            ubB = {t2: dict(v) for t2, v in pipe.units_by_tx(run.trace).items()}
            failed = [u for t2 in struct.txs for u in struct.units.get(t2, [])
                      if u in ub.get(t2, {}) and u not in ubB.get(t2, {})]
            if not failed:
                out['stats']['stage_fault_not_reached'] = out['stats'].get('stage_fault_not_reached', 0) + 1
                if pairs(run) != pairs(base):
                    out['violations'].append((
                        f'no unit failed, yet the output differs from the fault-free run ({stage} call {nth} of {tx})',
                        desc))
                continue
            desc = dict(desc, failed_units=failed)
            exp_t = [sum(1 for u in failed if u.startswith(k)) for k in ('main:', 'fusion:', 'circ:')]
            if tally is None or tally[1:4] != exp_t:
                out['violations'].append((
                    f'tally of failed units {tally[1:4] if tally else None} != {exp_t} after a fault in {stage} '
                    f'(call {nth}) of {tx} (units without result: {failed})', desc))
            expected = set()
            for t2 in struct.txs:
                for u in struct.units.get(t2, []):
                    if u in failed:
                        continue
                    for s_, ls in ub.get(t2, {}).get(u, {}).items():
                        if s_ in valid:
                            expected.update((s_, strip_idx(l)) for l in ls)
            got = pairs(run)
            missing = expected - got
            extra = got - expected
            # documented coupling: a circRNA unit of the same transcript is called with a deny-list
            # that lacks the peptides of a failed main unit
            ok_extra = set()
            if mainu in failed:
                allowed = set(ub.get(tx, {}).get(mainu, {}).keys())
                for u, pm in ubB.get(tx, {}).items():
                    if u.startswith('circ:'):
                        for s_, ls in pm.items():
                            if s_ in allowed:
                                ok_extra.update((s_, strip_idx(l)) for l in ls)
            extra -= ok_extra
            if missing or extra:
                out['violations'].append((
                    f'with --skip-failed and a fault in {stage} (call {nth}) of a unit of {tx} ({failed}), the '
                    f'output differs from the fault-free output minus that unit: missing {sorted(missing)[:3]} '
                    f'extra {sorted(extra)[:3]}', desc, circ_dep_key(case, missing, extra, failed)))


CIRC_DEP_KEY = 'c07-circ-unit-needs-main-unit-start-codon-conversion'


def circ_dep_key(case, missing, extra, failed) -> Optional[str]:
    """open finding: an indel on the last start-codon base is re-anchored IN PLACE by the main unit's
    graph builder; the circRNA unit of the same transcript needs that conversion, so its peptides
    go missing when the main unit failed before it.  Signature: such an indel was planted on T,
    main:T is among the failed units, nothing extra, every missing pair belongs to a circRNA of T."""
    planted = set(case.meta.get('start_codon_indel_tx', []))
    if extra or not missing or not planted:
        return None
    hit = {t for t in planted if f'main:{t}' in failed}
    if hit and all(any(lab.startswith((f'CIRC-{t}-', f'CI-{t}-')) for t in hit) for _s, lab in missing):
        return CIRC_DEP_KEY
    return None


INVALID_ACCEPTER_KEY = 'c07-invalid-series-of-fusion-accepter-aborts'
CANONICAL_CALL_KEY = 'c07-canonical-call-outside-skip-failed'


def parse_invalid(log: str) -> Optional[int]:
    import re
    m = re.findall(r'Number of invalid transcripts: (\d+)', log)
    return int(m[-1]) if m else None


def c07_invalid_series(case, seed, rng, tier, out, base, canon, desc0):
    """The OTHER failure site of callVariant: the variant series of a transcript is invalid
    (`pool[tx_id]` raises ValueError in gather_data_for_call_variant).  With --skip-failed the
    transcript yields no dispatch and is counted as invalid: the output must be that of a run
    from which this transcript's records are absent, for every thread count and wherever the
    transcript sits in the dispatch order (the LAST position with a partial batch pending is
    the one a flush condition can get wrong); without the flag the command must abort."""
    from moPepGen.circ import CircRNAModel
    st = out['stats']
    quick = tier == 'quick'

    def bump(k, n=1):
        st[k] = st.get(k, 0) + n
    recs = case.meta['records']
    with gen_ref.quiet():
        _genome, anno, _ = gen_ref.load_reference(case)
    rank = anno.get_transcript_rank()
    order = sorted(rank, key=rank.get)
    with_recs = pipe.tx_list(base.trace)
    if not with_recs:
        return
    last = with_recs[-1]
    behind = [t for t in order if rank[t] > rank[last]]
    # victims: ONE of the two transcripts that can sort last in the dispatch order — the last one
    # with records of its own, or a record-free transcript behind it (its series then consists of
    # the bad record only) — sometimes the other one too (thorough), sometimes an inner transcript.
    # A multi-threaded run costs ~15x a single-threaded one (pathos workers import the package),
    # so the quick tier runs threads 1 + one thread count in 2..4 chosen such that a partial batch
    # is pending; the thorough tier runs threads 1-4 for the last position
    lasts = [last] + ([rng.choice(behind)] if behind else [])
    rng.shuffle(lasts)
    rest = [t for t in order if t not in lasts]
    inner = rng.choice(rest) if rest else None
    victims = [lasts[0]]
    if not quick and len(lasts) > 1 and rng.random() < 0.3:
        victims.append(lasts[1])
    if inner is not None and rng.random() < (0.1 if quick else 0.5):
        victims.append(inner)
    gvfs_orig = list(case.gvfs)
    try:
        for vi, V in enumerate(victims):
            kind = rng.choice(gen_ref.INVALID_KINDS)
            with gen_ref.quiet():
                bad = gen_ref.invalid_record(anno, V, kind, rng)
                if bad is None:
                    kind = 'beyond-gene-end'
                    bad = gen_ref.invalid_record(anno, V, kind, rng)
                bad_path = gen_ref.write_extra_gvf(case, [bad], f'bad_{vi}.gvf')
            def points_to(r):
                return (r.__class__ is not CircRNAModel and r.is_fusion()
                        and r.attrs.get('ACCEPTER_TRANSCRIPT_ID') == V and r.transcript_id != V)
            accepter_of = sorted({r.transcript_id for r in recs if points_to(r)})
            inputs = gvfs_orig
            recs_v = recs
            if accepter_of:
                # V is also loaded as the fusion accepter of another transcript: that load sits
                # outside the try of gather_data_for_call_variant (open finding, known_findings.json);
                # witness it once, then go on with the input minus those fusion records
                if not st.get('invalid_accepter_probe_runs'):
                    rb = gen_ref.run_call_variant(case, tag=f'inv{vi}acc', skip_failed=True,
                                                  input_path=gvfs_orig + [bad_path])
                    bump('invalid_accepter_probe_runs')
                    if rb.status == 'crash:ValueError':
                        out['violations'].append((
                            f'--skip-failed run aborted ({rb.status}: {rb.error[:120]}): the invalid '
                            f'series of {V} is loaded as fusion accepter of {accepter_of}',
                            dict(desc0, invalid_tx=V, invalid_kind=kind, accepter_of=accepter_of,
                                 skip=True, threads=1, kind='skip-aborts-accepter'),
                            INVALID_ACCEPTER_KEY))
                        bump('invalid_accepter_abort')
                    elif rb.status != 'ok':
                        out['violations'].append((
                            f'--skip-failed run aborted ({rb.status}: {rb.error[:160]}) when the variant '
                            f'series of {V} (fusion accepter of {accepter_of}) is invalid ({kind})',
                            dict(desc0, invalid_tx=V, invalid_kind=kind, accepter_of=accepter_of,
                                 skip=True, threads=1, kind='skip-aborts-invalid')))
                # (since fix 2d93653 the accepter load is tolerated under --skip-failed: the fusion
                # records that point to V STAY in the input — V's series is then loaded twice in one
                # run, once as accepter and once on V's own turn, and the reference run, which lacks
                # only V's OWN records, still has those fusions)
                bump('invalid_series_also_accepter')
            own = [r for r in recs_v if r.transcript_id == V]
            # reference run: the same input without any record of V
            if own or accepter_of:
                keep = [r for r in recs_v if r.transcript_id != V]
                with gen_ref.quiet():
                    g0 = list(gen_ref.write_gvfs(case, keep, names=[f'wo_{vi}.gvf'],
                                                 circ_name=f'wo_{vi}_circ.gvf'))
                case.gvfs = list(gvfs_orig)
                if g0:
                    R0 = gen_ref.run_call_variant(case, tag=f'wo{vi}', input_path=g0)
                    bump('invalid_reference_runs')
                else:
                    R0 = None
            else:
                R0 = base
            if R0 is not None and R0.status != 'ok':
                bump('invalid_reference_crash')
                continue
            exp_pairs = pairs(R0) if R0 is not None else set()
            exp_tally = pipe.parse_tally(R0.log) if R0 is not None else [0] * 6
            exp_txs = pipe.tx_list(R0.trace) if R0 is not None else []
            n_disp = len({r['tx_id'] for r in R0.trace if r['kind'] == 'wrapper'}) if R0 else 0
            pos = 'last' if (not exp_txs or rank[V] > max(rank[t] for t in exp_txs)) else 'inner'
            vdesc = dict(desc0, invalid_tx=V, invalid_kind=kind, position=pos,
                         bad_record={'gene': bad.location.seqname, 'start': int(bad.location.start),
                                     'ref': bad.ref, 'alt': bad.alt, 'transcript': V},
                         own_records=len(own), accepter_of=accepter_of, other_dispatches=n_disp)
            inputs = list(inputs) + [bad_path]
            bump('invalid_series_inputs')
            bump(f'invalid_{pos}')
            if pos == 'last' and exp_pairs:
                bump('invalid_last_with_peptides_pending')
            # thread counts under which a PARTIAL batch (1 .. threads-1 dispatches) is pending when
            # the dispatch loop reaches V in last position
            partial = [t for t in (2, 3, 4) if n_disp % t != 0]
            if not quick and pos == 'last':
                ths = [1, 2, 3, 4]
            else:
                pick = partial if (pos == 'last' and partial) else [2, 3, 4]
                ths = [1, rng.choice(pick)]
                more = [t for t in pick if t not in ths]
                if more and pos == 'last' and rng.random() < 0.15:
                    ths.append(rng.choice(more))
            for t in ths:
                if pos == 'last' and t in partial and exp_pairs:
                    bump(f'invalid_last_partial_batch_pending_threads_{t}')
            for th in ths:
                rb = gen_ref.run_call_variant(case, tag=f'inv{vi}t{th}', input_path=inputs,
                                              skip_failed=True, threads=th)
                bump('invalid_skip_runs')
                d = dict(vdesc, skip=True, threads=th)
                if rb.status != 'ok':
                    out['violations'].append((
                        f'--skip-failed run aborted ({rb.status}: {rb.error[:160]}) when the variant '
                        f'series of {V} is invalid ({kind})', dict(d, kind='skip-aborts-invalid')))
                    continue
                got = pairs(rb)
                missing, extra = exp_pairs - got, got - exp_pairs
                if missing or extra:
                    out['violations'].append((
                        f'with --skip-failed --threads {th} and an invalid variant series of {V} '
                        f'({kind}; {pos} in dispatch order, {n_disp} other transcripts dispatched) the '
                        f'output differs from the run without the records of {V}: missing '
                        f'{sorted(missing)[:3]} ({len(missing)}) extra {sorted(extra)[:3]} ({len(extra)})',
                        dict(d, kind='invalid-isolation')))
                ninv = parse_invalid(rb.log)
                tally = pipe.parse_tally(rb.log)
                if ninv != 1 or tally != exp_tally:
                    out['violations'].append((
                        f'tally with an invalid series of {V} (threads {th}): invalid transcripts '
                        f'{ninv} (expected 1), processed/failed/peptide counts {tally} (expected '
                        f'{exp_tally} as in the run without the records of {V})',
                        dict(d, kind='invalid-tally')))
                # the Lean pipeline model: V yields no dispatch (`none` in the gathered list);
                # batches, table, FASTA and tally of the real run must be the model's
                if R0 is not None:
                    stM = pipe.Structure(R0)
                    txs_b = pipe.tx_list(rb.trace)
                    stM.txs = txs_b if txs_b else sorted(set(exp_txs) | {V}, key=rank.get)
                    if set(stM.txs) == set(exp_txs) | {V}:
                        out['cases'].append(('run', ) + model_case(stM, rb, [], th, True, canon, d))
                        bump('invalid_model_cases')
            # without --skip-failed the same input must abort and leave no FASTA
            # (a multi-threaded run costs ~15x a single-threaded one: quick tier keeps to threads 1)
            thC = 1 if quick else rng.choice([1, 1, 1, 2, 3, 4])
            rc = gen_ref.run_call_variant(case, tag=f'inv{vi}c', input_path=inputs,
                                          skip_failed=False, threads=thC)
            bump('invalid_noskip_runs')
            if rc.status == 'ok' or rc.fasta_exists:
                out['violations'].append((
                    f'without --skip-failed an invalid variant series of {V} ({kind}) did not abort the '
                    f'command (status {rc.status}, FASTA written: {rc.fasta_exists}, threads {thC})',
                    dict(vdesc, skip=False, threads=thC, kind='invalid-no-abort')))
    finally:
        case.gvfs = gvfs_orig


# ------------------------------------------------------------------- C06
SUB_SCRIPT = r'''
import sys, json
sys.path.insert(0, sys.argv[1])
from harness import gen_ref
case = gen_ref.Case(sys.argv[2])
spec = json.loads(sys.argv[3])
from pathlib import Path
case.gvfs = [Path(p) for p in spec['gvfs']]
kw = spec['kw']
if 'index_dir' in kw and kw['index_dir']:
    kw['index_dir'] = Path(kw['index_dir'])
r = gen_ref.run_call_variant(case, tag=spec['tag'], **kw)
print(json.dumps({'status': r.status, 'error': r.error, 'seqs': sorted(r.fasta.keys())}))
'''


def run_sub(case, tag, hashseed, gvfs, **kw):
    env = dict(os.environ)
    env['PYTHONHASHSEED'] = str(hashseed)
    spec = json.dumps({'gvfs': [str(p) for p in gvfs], 'kw': kw, 'tag': tag})
    p = subprocess.run([common.PY, '-c', SUB_SCRIPT, common.VERIF, str(case.dir), spec],
                       capture_output=True, text=True, env=env, timeout=600)
    last = [l for l in p.stdout.strip().split('\n') if l.startswith('{')]
    if p.returncode != 0 or not last:
        return {'status': f'crash:subprocess rc={p.returncode}', 'error': p.stderr[-400:], 'seqs': []}
    return json.loads(last[-1])


def make_index_dir(case) -> Optional[Path]:
    gen_ref._imports()
    from moPepGen.cli.generate_index import generate_index
    args = argparse.Namespace()
    args.command = 'generateIndex'
    args.genome_fasta = case.genome
    args.annotation_gtf = case.gtf
    args.proteome_fasta = case.proteome
    args.gtf_symlink = False
    args.reference_source = None
    args.invalid_protein_as_noncoding = False
    args.cleavage_rule = 'trypsin'
    args.cleavage_exception = None
    args.min_mw = 500.
    args.min_length = 7
    args.max_length = 25
    args.miscleavage = 2
    args.quiet = True
    args.force = False
    args.debug_level = 1
    args.output_dir = case.dir / 'index'
    with gen_ref.quiet():
        generate_index(args)
    return args.output_dir


def update_index_dir(idx_dir: Path, **cleavage):
    """`updateIndex` on an existing index directory: adds a canonical pool for other cleavage
    parameters (everything else in the directory must stay as it is)."""
    gen_ref._imports()
    from moPepGen.cli.update_index import update_index
    args = argparse.Namespace()
    args.command = 'updateIndex'
    args.index_dir = idx_dir
    args.cleavage_rule = 'trypsin'
    args.cleavage_exception = None
    args.min_mw = 500.
    args.min_length = 7
    args.max_length = 25
    args.miscleavage = 2
    args.quiet = True
    args.force = False
    args.debug_level = 1
    for k, v in cleavage.items():
        if not hasattr(args, k):
            raise KeyError(k)
        setattr(args, k, v)
    with gen_ref.quiet():
        update_index(args)


def index_gvf_files(case, gvfs):
    gen_ref._imports()
    from moPepGen.cli.index_gvf import index_gvf
    for g in gvfs:
        args = argparse.Namespace()
        args.command = 'indexGVF'
        args.input_path = Path(g)
        args.quiet = True
        args.debug_level = 1
        with gen_ref.quiet():
            index_gvf(args)


def c06_worker(job):
    seed, tier = job
    rng = random.Random(seed)
    out = {'cases': [], 'violations': [], 'stats': {}}
    n_genes = rng.choice([3, 4, 5, 6])
    case = build_case(seed, n_genes, dict(per_tx=(0, 3), fusion_frac=0.3, circ_frac=0.4,
                                          alt_splice_frac=0.15))
    if case is None:
        out['stats']['gen_failed'] = 1
        return out
    try:
        recs = case.meta['records']
        from moPepGen.circ import CircRNAModel
        planted = 0
        if rng.random() < 0.75:
            # variant peptides that ONLY the global canonical pool removes: the I->L image of a
            # canonical peptide (not in the per-transcript deny-list), so that a wrong / stale /
            # foreign pool behind any of the reference routes shows in the peptide set
            with gen_ref.quiet():
                genome, anno, _ = gen_ref.load_reference(case)
                extra = gen_ref.plant_i_to_l(anno, genome, rng, 2)
            have = {(r.attrs.get('TRANSCRIPT_ID'), r.id) for r in recs
                    if r.__class__ is not CircRNAModel}
            extra = [r for r in extra if (r.attrs.get('TRANSCRIPT_ID'), r.id) not in have]
            recs = recs + extra
            planted = len(extra)
            case.meta['records'] = recs
        out['stats']['planted_i_to_l_records'] = planted
        if rng.random() < 0.7:
            # two SNVs on ADJACENT bases inside a circRNA (they share a haplotype only as the merged
            # pair): the records reach the circRNA graph through the in-memory pool filter, whose
            # result must not depend on set iteration order (hash seed, worker)
            with gen_ref.quiet():
                genome, anno, _ = gen_ref.load_reference(case)
            circs_ = [r for r in recs if r.__class__ is CircRNAModel]
            rng.shuffle(circs_)
            for c_ in circs_[:2]:
                try:
                    pos_ = gen_ref.circ_positions(anno, c_.transcript_id, c_, margin=3)
                except Exception:   # noqa
                    pos_ = []
                pos_ = [q for q in pos_ if q + 1 in pos_]
                if not pos_:
                    continue
                q_ = rng.choice(pos_)
                pair_ = []
                for qq in (q_, q_ + 1):
                    try:
                        g_ = anno.coordinate_transcript_to_genomic(qq, c_.transcript_id)
                        gm_ = anno.genes[anno.transcripts[c_.transcript_id].transcript.gene_id]
                        st_ = anno.coordinate_genomic_to_gene(g_, gm_.gene_id if hasattr(gm_, 'gene_id') else
                                                              anno.transcripts[c_.transcript_id].transcript.gene_id)
                        ref_ = str(gm_.get_gene_sequence(genome[gm_.chrom]).seq[st_:st_ + 1])
                        rec_ = gen_ref.make_snv(anno, genome, c_.transcript_id, qq,
                                                rng.choice([b for b in 'ACGT' if b != ref_]))
                    except Exception:   # noqa
                        rec_ = None
                    if rec_ is not None:
                        pair_.append(rec_)
                have_ = {(getattr(r, 'transcript_id', None), r.id) for r in recs}
                if len(pair_) == 2 and not any((p_.transcript_id, p_.id) in have_ for p_ in pair_):
                    recs = recs + pair_
                    case.meta['records'] = recs
                    out['stats']['adjacent_snv_pair_in_circrna'] = out['stats'].get('adjacent_snv_pair_in_circrna', 0) + 1
        if rng.random() < 0.6:
            # a CHAIN of fusions (B -> C with the donor breakpoint in an intron of B, A -> B with A in
            # front of B): B's records are loaded twice in one run — whatever a route through the
            # files (.idx or scan) keeps between the two loads must not show in the output
            from . import cv_backbone as _cb
            with gen_ref.quiet():
                genome, anno, _ = gen_ref.load_reference(case)
            f1_, f2_ = _cb.find_fusion_chain(anno, genome, rng, list(anno.transcripts.keys()))
            if f1_ is not None:
                have_ = {r.id for r in recs}
                add_ = [f for f in (f1_, f2_) if f.id not in have_]
                recs = recs + add_
                case.meta['records'] = recs
                out['stats']['fusion_chain_inputs'] = 1
        if rng.random() < 0.6:
            # two alternative-splicing Insertion / Substitution records with the SAME anchor and the
            # SAME id but different donor segments (a tool that names events by their anchor): both
            # must be called whatever file holds which and in whatever order the files are given
            import copy as _copy
            import random as _r
            from moPepGen import fake as _fake
            with gen_ref.quiet():
                genome, anno, _ = gen_ref.load_reference(case)
            cands = [r for r in recs if r.__class__ is not CircRNAModel
                     and r.type in ('Insertion', 'Substitution') and 'DONOR_START' in r.attrs]
            if not cands:
                multi_exon = [t for t, m in anno.transcripts.items() if len(m.exon) >= 3]
                _r.seed(rng.randrange(1 << 30))
                for t in rng.sample(multi_exon, len(multi_exon)):
                    try:
                        rec = _fake.fake_intron_insertion(anno, genome, t, 'RI')
                    except Exception:   # noqa
                        continue
                    recs = recs + [rec]
                    cands = [rec]
                    break
            if cands:
                a0 = rng.choice(cands)
                ds, de = int(a0.attrs['DONOR_START']), int(a0.attrs['DONOR_END'])
                k = rng.randint(1, 5)
                if de - ds > 3 * k + 3:
                    twin = _copy.deepcopy(a0)
                    twin.attrs['DONOR_END'] = de - 3 * k
                    recs = recs + [twin]
                    case.meta['records'] = recs
                    out['stats']['same_id_same_anchor_as_twins'] = 1
        nvar = len([r for r in recs if r.__class__ is not CircRNAModel])
        with gen_ref.quiet():
            gvfs0 = list(gen_ref.write_gvfs(case, recs))
        if not gvfs0:
            out['stats']['empty'] = 1
            return out
        canon = pipe.canonical_pool(case)
        nct = rng.random() < 0.5
        common_kw = dict(noncanonical_transcripts=nct)
        base = gen_ref.run_call_variant(case, tag='base', **common_kw)
        if base.status != 'ok':
            out['stats']['baseline_crash'] = 1
            return out
        struct = pipe.Structure(base)
        S0 = seqs(base)
        nskip = len([t for t in struct.txs if t not in struct.gathered])
        out['stats']['transcripts'] = len(struct.txs)
        out['stats']['with_skipped_tx'] = 1 if nskip else 0
        out['stats']['nonempty_output'] = 1 if S0 else 0
        desc0 = {'seed': seed, 'n_genes': n_genes, 'noncanonical_transcripts': nct,
                 'txs': struct.txs, 'skipped': [t for t in struct.txs if t not in struct.gathered]}
        out['cases'].append(('run', ) + model_case(struct, base, [], 1, False, canon,
                                                     dict(desc0, threads=1)))

        def compare(tag, S, desc):
            if S != S0:
                out['violations'].append((
                    f'peptide set differs from the single-thread single-file run under {tag}: '
                    f'lost {sorted(S0 - S)[:3]} ({len(S0 - S)}) gained {sorted(S - S0)[:3]} ({len(S - S0)})',
                    dict(desc0, variation=tag, **desc)))

        # threads
        ths = [2, 3] if tier == 'quick' else [2, 3, 4, 7]
        for th in ths:
            r = gen_ref.run_call_variant(case, tag=f't{th}', threads=th, **common_kw)
            out['stats']['thread_runs'] = out['stats'].get('thread_runs', 0) + 1
            if r.status != 'ok':
                out['violations'].append((f'--threads {th} crashed: {r.status} {r.error}',
                                          dict(desc0, variation=f'threads={th}')))
                continue
            compare(f'threads={th}', seqs(r), {'threads': th})
            out['cases'].append(('run', ) + model_case(struct, r, [], th, False, canon,
                                                         dict(desc0, threads=th)))
        # file layouts: partitions of the variant records over 2-3 files, file order permuted
        nlay = 2 if tier == 'quick' else 5
        for k in range(nlay):
            nfiles = rng.choice([2, 3])
            layout = [[] for _ in range(nfiles)]
            for i in range(nvar):
                layout[rng.randrange(nfiles)].append(i)
            names = [f'lay{k}_{j}.gvf' for j in range(nfiles)]
            with gen_ref.quiet():
                gv = list(gen_ref.write_gvfs(case, recs, layout=layout, names=names))
            rng.shuffle(gv)
            use_idx = rng.random() < 0.5
            if use_idx:
                index_gvf_files(case, gv)
            r = gen_ref.run_call_variant(case, tag=f'lay{k}', input_path=gv, **common_kw)
            out['stats']['layout_runs'] = out['stats'].get('layout_runs', 0) + 1
            if use_idx:
                out['stats']['idx_runs'] = out['stats'].get('idx_runs', 0) + 1
            tag = f'layout={layout} order={[p.name for p in gv]} idx={use_idx}'
            if r.status != 'ok':
                out['violations'].append((f'{tag} crashed: {r.status} {r.error}',
                                          dict(desc0, variation=tag)))
                continue
            compare(tag, seqs(r), {})
        # idx on the original files
        index_gvf_files(case, gvfs0)
        r = gen_ref.run_call_variant(case, tag='idx', input_path=gvfs0, **common_kw)
        out['stats']['idx_runs'] = out['stats'].get('idx_runs', 0) + 1
        if r.status != 'ok':
            out['violations'].append((f'.idx run crashed: {r.status} {r.error}', dict(desc0, variation='idx')))
        else:
            compare('gvf .idx files present', seqs(r), {})
        for g in gvfs0:
            p = Path(str(g) + '.idx')
            if p.exists():
                p.unlink()
        # index directory instead of raw reference
        if rng.random() < (0.7 if tier == 'quick' else 1.0):
            idx_dir = make_index_dir(case)
            r = gen_ref.run_call_variant(case, tag='refidx', index_dir=idx_dir, input_path=gvfs0,
                                         **common_kw)
            out['stats']['index_dir_runs'] = out['stats'].get('index_dir_runs', 0) + 1
            if r.status != 'ok':
                out['violations'].append((f'--index-dir run crashed: {r.status} {r.error}',
                                          dict(desc0, variation='index-dir')))
            else:
                compare('reference from generateIndex directory', seqs(r), {})
            # the same directory after ONE updateIndex that added a pool for OTHER cleavage
            # parameters, read with the ORIGINAL parameters: the added pool must not replace or
            # shadow the pool of the original parameters
            upd = rng.choice([dict(miscleavage=0), dict(miscleavage=0), dict(miscleavage=1),
                              dict(miscleavage=3), dict(min_length=9), dict(cleavage_rule='lysc'),
                              dict(min_mw=1200.), dict(max_length=30), dict(max_length=18)])
            try:
                update_index_dir(idx_dir, **upd)
                upd_ok = True
            except BaseException as e:   # noqa  SystemExit included
                if isinstance(e, KeyboardInterrupt):
                    raise
                upd_ok = False
                out['violations'].append((
                    f'updateIndex {upd} on a fresh generateIndex directory failed: '
                    f'{type(e).__name__} {str(e)[:200]}', dict(desc0, variation=f'updateIndex {upd}')))
            if upd_ok:
                r = gen_ref.run_call_variant(case, tag='refidx2', index_dir=idx_dir,
                                             input_path=gvfs0, **common_kw)
                out['stats']['updated_index_dir_runs'] = \
                    out['stats'].get('updated_index_dir_runs', 0) + 1
                vtag = (f'reference from a generateIndex directory that went through one updateIndex '
                        f'{upd} (callVariant with the original cleavage parameters)')
                if r.status != 'ok':
                    out['violations'].append((f'--index-dir run after updateIndex {upd} crashed: '
                                              f'{r.status} {r.error}', dict(desc0, variation=vtag)))
                else:
                    compare(vtag, seqs(r), {'update_index': upd})
                    glob = sum(1 for w in r.trace if w['kind'] == 'wrapper'
                               for sq in w['peptides'] if sq in canon)
                    out['stats']['globally_filtered_peptides'] = \
                        out['stats'].get('globally_filtered_peptides', 0) + glob
                # … and read with the ADDED parameters: index directory vs raw reference files
                if 'cleavage_rule' not in upd:
                    kw2 = dict(common_kw, **upd)
                    r_raw = gen_ref.run_call_variant(case, tag='raw2', input_path=gvfs0, **kw2)
                    r_idx = gen_ref.run_call_variant(case, tag='refidx3', index_dir=idx_dir,
                                                     input_path=gvfs0, **kw2)
                    out['stats']['updated_index_dir_new_param_runs'] = \
                        out['stats'].get('updated_index_dir_new_param_runs', 0) + 1
                    if r_raw.status == 'ok':
                        if r_idx.status != 'ok':
                            out['violations'].append((
                                f'--index-dir run with the parameters added by updateIndex {upd} crashed: '
                                f'{r_idx.status} {r_idx.error}', dict(desc0, variation=f'updateIndex {upd}, new parameters')))
                        elif seqs(r_idx) != seqs(r_raw):
                            lost = sorted(seqs(r_raw) - seqs(r_idx))
                            gained = sorted(seqs(r_idx) - seqs(r_raw))
                            out['violations'].append((
                                f'peptide set with the reference from an index directory (pool added by updateIndex {upd}) '
                                f'differs from the raw-files run with the same parameters: lost {lost[:3]} ({len(lost)}) '
                                f'gained {gained[:3]} ({len(gained)})',
                                dict(desc0, variation=f'updateIndex {upd}, new parameters')))
                    if glob:
                        out['stats']['updated_index_runs_with_global_filtering'] = \
                            out['stats'].get('updated_index_runs_with_global_filtering', 0) + 1
        # timeout-driven retry of ONE transcript must not change the limits of the others,
        # for any thread count (the retry state is per dispatch)
        gathered = [t for t in struct.txs if t in struct.gathered]
        if len(gathered) >= 2:
            victim = gathered[0]
            sets = {}
            for th in (1, 2):
                r = gen_ref.run_call_variant(case, tag=f'to{th}', threads=th,
                                             timeouts=f'wrapper:{victim}@1', **common_kw)
                out['stats']['timeout_runs'] = out['stats'].get('timeout_runs', 0) + 1
                if r.status != 'ok':
                    out['violations'].append((f'run with one injected timeout crashed: {r.status} {r.error}',
                                              dict(desc0, variation=f'timeout on {victim}, threads={th}')))
                    continue
                sets[th] = seqs(r)
                for w in r.trace:
                    if w['kind'] == 'wrapper' and w['tx_id'] != victim and w['params'] != [7, 2]:
                        out['violations'].append((
                            f'after a timeout-driven retry of {victim} the transcript {w["tx_id"]} was '
                            f'called with reduced limits {w["params"]} instead of [7, 2] (threads={th})',
                            dict(desc0, variation=f'timeout on {victim}, threads={th}')))
                        break
            if len(sets) == 2 and sets[1] != sets[2]:
                out['violations'].append((
                    f'with the same injected timeout on {victim}, --threads 1 and --threads 2 give '
                    f'different peptide sets (only in threads=2: {sorted(sets[2] - sets[1])[:3]}, only in '
                    f'threads=1: {sorted(sets[1] - sets[2])[:3]})',
                    dict(desc0, variation=f'timeout on {victim}')))
        # hash seeds (subprocess)
        for hs in ([1] if tier == 'quick' else [1, 2, 3]):
            if rng.random() < (0.34 if tier == 'quick' else 1.0):
                rr = run_sub(case, f'hs{hs}', hs, gvfs0, **common_kw)
                out['stats']['hashseed_runs'] = out['stats'].get('hashseed_runs', 0) + 1
                if rr['status'] != 'ok':
                    out['violations'].append((f'PYTHONHASHSEED={hs} run: {rr["status"]} {rr["error"]}',
                                              dict(desc0, variation=f'hashseed={hs}')))
                else:
                    compare(f'PYTHONHASHSEED={hs}', set(rr['seqs']), {})
        return out
    except Exception:   # noqa
        out['stats']['worker_error'] = 1
        out['error'] = traceback.format_exc()[-1500:]
        return out
    finally:
        case.cleanup()


# ------------------------------------------------------------------- C04
def c04_worker(job):
    seed, tier = job
    rng = random.Random(seed)
    out = {'cases': [], 'violations': [], 'stats': {}}
    n_genes = rng.choice([1, 2, 3])
    case = build_case(seed, n_genes, dict(per_tx=(1, 5), fusion_frac=0.3, circ_frac=0.3,
                                          alt_splice_frac=0.15, max_size=6))
    if case is None:
        out['stats']['gen_failed'] = 1
        return out
    try:
        recs = case.meta['records']
        multi = rng.random() < 0.5
        with gen_ref.quiet():
            if multi:
                # two identical isoforms per gene + I->L variants: the same peptide reaches the
                # global validity filter from two transcripts (of one batch when threads > 1)
                genome, anno, _ = gen_ref.load_reference(case)
                recs = recs + gen_ref.plant_i_to_l(anno, genome, rng, 2)
                recs = gen_ref.duplicate_isoforms(case, recs)
                # identical proteins, the first-listed one cds_start_NF: the pool must still hold the
                # Met-removed N-terminal peptides of the complete one
                if rng.random() < 0.8:
                    nf = gen_ref.tag_cds_start_nf(case, rng)
                    if nf:
                        out['stats']['first_of_identical_proteins_cds_start_nf'] = 1
            gen_ref.write_gvfs(case, recs)
            # non-coding twins of coding transcripts: callNovelORF re-derives canonical peptides
            # (incl. the Met-removed, miscleaved N-terminal ones) from ANOTHER transcript
            twins = gen_ref.noncoding_twins(case, rng, 0.7) if rng.random() < 0.7 else []
        if twins:
            out['stats']['noncoding_twin_inputs'] = 1
            out['stats']['noncoding_twins'] = len(twins)
        if rng.random() < 0.5:
            # mRNA_start_NF WITHOUT cds_start_NF: the CDS start is known, the pool keeps the
            # Met-removed N-terminal peptides of these proteins
            with gen_ref.quiet():
                tagged = gen_ref.tag_transcripts(case, rng, 'mRNA_start_NF', 0.6)
            if tagged:
                out['stats']['mrna_start_nf_only_transcripts'] = len(tagged)
        if not case.gvfs:
            out['stats']['empty'] = 1
            return out
        enzyme = rng.choice(['trypsin', 'trypsin', 'lysc', 'arg-c', 'chymotrypsin high specificity',
                             'glutamyl endopeptidase', 'lysn'])
        kw = dict(cleavage_rule=enzyme, miscleavage=rng.choice([0, 1, 2, 3]),
                  min_length=rng.choice([5, 7, 9]), max_length=rng.choice([15, 25, 40]),
                  min_mw=rng.choice([300., 500., 800.]),
                  selenocysteine_termination=rng.random() < 0.5,
                  w2f_reassignment=rng.random() < 0.5)
        limits = (kw['min_mw'], kw['min_length'], kw['max_length'])
        canon = pipe.canonical_pool(case, **kw)
        # "is canonical" judged by a pool that does not come from the code under test
        canon_model = pipe.lean_canonical_pool(case, **kw)
        if canon_model is None:
            out['stats']['lean_pool_unavailable'] = 1
        else:
            out['stats']['lean_pool_inputs'] = 1
            out['stats']['lean_pool_peptides'] = len(canon_model)
        run = gen_ref.run_call_variant(case, tag='cv', **kw)
        desc = dict(seed=seed, n_genes=n_genes, command='callVariant', multi_isoform=multi,
                    noncoding_twins=twins, **{k: v for k, v in kw.items()})
        if run.status != 'ok':
            out['stats']['callvariant_crash'] = 1
        else:
            out['stats']['callvariant_runs'] = 1
            out['stats']['callvariant_peptides'] = len(run.fasta)
            struct = pipe.Structure(run)
            line, lab = pipe.model_line(struct, run, set(), 1, False, limits, canon)
            out['cases'].append(('run', line, pipe.real_line(struct, run, lab), desc))
            for v in pipe.hygiene_violations(run, canon, limits, canon_model=canon_model)[:3]:
                out['violations'].append((f'callVariant: {v}', dict(desc, kind='hygiene')))
            if multi:
                th = rng.choice([2, 3])
                run2 = gen_ref.run_call_variant(case, tag='cvt', threads=th, **kw)
                out['stats']['multi_isoform_thread_runs'] = 1
                d2 = dict(desc, threads=th, multi_isoform=True)
                if run2.status == 'ok':
                    rej = sum(1 for r in run2.trace if r['kind'] == 'wrapper'
                              for sq in r['peptides'] if sq in canon)
                    out['stats']['globally_rejected_peptides'] = rej
                    line2, lab2 = pipe.model_line(struct, run2, set(), th, False, limits, canon)
                    out['cases'].append(('run', line2, pipe.real_line(struct, run2, lab2), d2))
                    for v in pipe.hygiene_violations(run2, canon, limits,
                                                     canon_model=canon_model)[:3]:
                        out['violations'].append((f'callVariant --threads {th}: {v}',
                                                  dict(d2, kind='hygiene')))
        # (c) CANONICAL COLLISIONS through proteome entries WITHOUT an annotated transcript (a proteome
        # FASTA is not a subset of the GTF): a few reported peptides are made canonical by such entries
        # and must vanish from the next run
        if run.status == 'ok' and len(run.fasta) >= 2 and rng.random() < 0.6:
            picks = rng.sample(sorted(sq for sq in run.fasta if 'X' not in sq and '*' not in sq),
                               min(3, len(run.fasta)))
            prot_orig = open(case.proteome).read()
            try:
                with open(case.proteome, 'at') as fh:
                    for n_, q in enumerate(picks):
                        tail = q if q[-1] in 'KR' or enzyme != 'trypsin' else q + 'K'
                        fh.write(f'>COLLP{n_}|COLLT{n_}|COLLG{n_}|XXX\nMAGGSK{tail}AAGGSAAGGSR\n')
                canon5 = pipe.canonical_pool(case, **kw)
                canon_model5 = pipe.lean_canonical_pool(case, **kw)
                run5 = gen_ref.run_call_variant(case, tag='cvcol', **kw)
                out['stats']['canonical_collision_runs'] = 1
                d5 = dict(desc, kind='hygiene', made_canonical=picks)
                if run5.status == 'ok':
                    hit = [q for q in picks if canon_model5 is not None and q in canon_model5]
                    out['stats']['canonical_collisions'] = out['stats'].get('canonical_collisions', 0) + len(hit)
                    for v in pipe.hygiene_violations(run5, canon5, limits, canon_model=canon_model5)[:3]:
                        out['violations'].append((f'callVariant after proteome entries without an annotated '
                                                  f'transcript made {picks} canonical: {v}', d5))
            finally:
                with open(case.proteome, 'wt') as fh:
                    fh.write(prot_orig)
        # (a) a FRACTIONAL mass limit just above a reported peptide: m < min_mw < ceil(m) — the
        # peptide must go, and nothing lighter than the limit may stay
        if run.status == 'ok' and run.fasta and rng.random() < 0.6:
            from Bio.SeqUtils import molecular_weight
            import math
            cand = sorted(sq for sq in run.fasta if 'X' not in sq and '*' not in sq)
            pick = rng.choice(cand)
            m = molecular_weight(pick, 'protein')
            edge = round(m + (math.ceil(m) - m) / 2, 3)
            if m < edge < math.ceil(m):
                kw3 = dict(kw, min_mw=edge)
                lim3 = (edge, kw['min_length'], kw['max_length'])
                run3 = gen_ref.run_call_variant(case, tag='cvmw', **kw3)
                out['stats']['fractional_min_mw_runs'] = 1
                d3 = dict(desc, min_mw=edge, kind='hygiene', just_below_limit=pick)
                if run3.status == 'ok':
                    canon3 = pipe.canonical_pool(case, **kw3)
                    for v in pipe.hygiene_violations(run3, canon3, lim3)[:3]:
                        out['violations'].append((f'callVariant --min-mw {edge}: {v}', d3))
        # (b) through an index directory whose EARLIER pools were built for narrower length windows
        # (generateIndex defaults, updateIndex with a narrow window, updateIndex with the requested
        # parameters): the command must filter with the pool of ITS parameters — a canonical peptide
        # longer than an earlier window must not be written.  On the inputs with planted I->L
        # variants (variant peptides that ARE canonical peptides of the twin isoform), trypsin,
        # max_length 40.
        if run.status == 'ok' and multi:
            kwi = dict(kw, cleavage_rule='trypsin', max_length=40)
            limi = (kwi['min_mw'], kwi['min_length'], 40)
            try:
                run0 = gen_ref.run_call_variant(case, tag='cvi0', **kwi)
                canoni = pipe.canonical_pool(case, **kwi)
                canon_modeli = pipe.lean_canonical_pool(case, **kwi)
                idx = make_index_dir(case)          # trypsin / no exception / 2 / 500. / 7 / 25
                narrow = rng.choice([9, 12, 15, 20])
                first = dict(miscleavage=kwi['miscleavage'], min_mw=kwi['min_mw'],
                             min_length=kwi['min_length'], max_length=narrow)
                update_index_dir(idx, **first)
                update_index_dir(idx, miscleavage=kwi['miscleavage'], min_mw=kwi['min_mw'],
                                 min_length=kwi['min_length'], max_length=40)
                run4 = gen_ref.run_call_variant(case, tag='cvidx', index_dir=idx, **kwi)
                out['stats']['index_route_runs'] = 1
                d4 = dict(desc, kind='hygiene', cleavage_rule='trypsin', max_length=40,
                          index_history=['generateIndex 2/500/7/25', f'updateIndex {first}',
                                         'updateIndex <requested>'])
                if run4.status == 'ok' and run0.status == 'ok':
                    out['stats']['index_route_canonical_longer_than_first_window'] = sum(
                        1 for sq in (canon_modeli or canoni) if len(sq) > narrow)
                    for v in pipe.hygiene_violations(run4, canoni, limi, canon_model=canon_modeli)[:3]:
                        out['violations'].append((f'callVariant --index-dir: {v}', d4))
                    if set(run4.fasta) != set(run0.fasta):
                        out['violations'].append((
                            'callVariant --index-dir writes other peptides than the run on the reference files: '
                            f'only with index {sorted(set(run4.fasta) - set(run0.fasta))[:3]}, only without '
                            f'{sorted(set(run0.fasta) - set(run4.fasta))[:3]}', d4))
                elif run4.status != run0.status:
                    out['violations'].append((f'callVariant --index-dir: {run4.status} ({run4.error}) but '
                                              f'{run0.status} on the reference files', d4))
            finally:
                shutil.rmtree(case.dir / 'index', ignore_errors=True)
        # callNovelORF / callAltTranslation
        for cmd in ('callNovelORF', 'callAltTranslation'):
            r2, canon2 = run_other(case, cmd, kw, rng)
            d2 = dict(desc, command=cmd)
            if r2 is None:
                continue
            if r2.status != 'ok':
                out['stats'][cmd + '_crash'] = 1
                continue
            out['stats'][cmd + '_runs'] = 1
            out['stats'][cmd + '_peptides'] = len(r2.fasta)
            for v in pipe.hygiene_violations(r2, canon2, limits, check_table=False,
                                             canon_model=canon_model)[:3]:
                out['violations'].append((f'{cmd}: {v}', dict(d2, kind='hygiene')))
            # pool model: every (seq, entry) added through add_peptide
            adds = ','.join(f'{s}' for s in r2.fasta)
            out['cases'].append(('pool', f'P\tpoolvalid\t{pipe.mw_int(limits[0])}\t{limits[1]}\t{limits[2]}'
                                         f'\t{",".join(sorted(canon2))}\t{adds}',
                                 'all-valid' if r2.fasta else 'all-valid', d2))
        return out
    except Exception:   # noqa
        out['stats']['worker_error'] = 1
        out['error'] = traceback.format_exc()[-1500:]
        return out
    finally:
        case.cleanup()


def run_other(case, cmd, kw, rng):
    gen_ref._imports()
    args = gen_ref.call_variant_args(case, case.dir / f'{cmd}.fasta', **{
        k: v for k, v in kw.items() if k in ('cleavage_rule', 'miscleavage', 'min_length',
                                              'max_length', 'min_mw')})
    args.command = cmd
    res = gen_ref.RunResult()
    try:
        if cmd == 'callNovelORF':
            from moPepGen.cli.call_novel_orf import call_novel_orf_peptide as fn
            args.min_tx_length = 21
            args.orf_assignment = rng.choice(['max', 'min'])
            args.w2f_reassignment = kw['w2f_reassignment']
            args.inclusion_biotypes = None
            args.exclusion_biotypes = None
            args.output_orf = None
            args.coding_novel_orf = rng.random() < 0.5
        else:
            from moPepGen.cli.call_alt_translation import call_alt_translation as fn
            args.w2f_reassignment = True
            args.selenocysteine_termination = True
        with gen_ref.quiet():
            fn(args)
    except BaseException as e:   # noqa
        if isinstance(e, KeyboardInterrupt):
            raise
        res.status = f'crash:{type(e).__name__}'
        res.error = str(e)[:300]
        return res, set()
    res.fasta = gen_ref.read_fasta(args.output_path)
    canon = pipe.canonical_pool(case, **{k: v for k, v in kw.items()
                                         if k in ('cleavage_rule', 'miscleavage', 'min_length',
                                                  'max_length', 'min_mw')})
    return res, canon
