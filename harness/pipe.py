"""Layer P correspondence: real callVariant runs (with the guarded trace /
fault-injection hooks) vs the Lean model `Pipe.runAll`.

One real run -> (protocol line for the model, canonical real output string).
Also direct evaluation of the C04 hygiene predicates on real output files.
"""
from __future__ import annotations
import os
import re
import subprocess
from decimal import Decimal
from typing import Dict, List, Optional, Set, Tuple

from . import common, gen_ref


def mw_int(x: float) -> int:
    return int(Decimal(repr(float(x))) * 10000)


def canonical_pool(case: gen_ref.Case, **kw) -> Set[str]:
    """canonical peptides as callVariant loads them (real load_references)"""
    gen_ref._imports()
    from moPepGen import params
    from moPepGen.cli import common as cli_common
    args = gen_ref.call_variant_args(case, case.dir / 'x.fasta', **kw)
    cp = params.CleavageParams(
        enzyme=args.cleavage_rule, exception=args.cleavage_exception,
        miscleavage=int(args.miscleavage), min_mw=float(args.min_mw),
        min_length=args.min_length, max_length=args.max_length)
    with gen_ref.quiet():
        _g, _a, _p, canonical = cli_common.load_references(
            args=args, invalid_protein_as_noncoding=False, cleavage_params=cp)
    return set(canonical)


def proteome_entries(case: gen_ref.Case) -> List[Tuple[str, str, bool]]:
    """(transcript id, protein sequence, cds_start_NF) read from the case's proteome FASTA and
    GTF *text* — no moPepGen reader involved."""
    nf = set()
    for ln in open(case.gtf):
        f = ln.rstrip('\n').split('\t')
        if len(f) < 9 or f[2] != 'transcript':
            continue
        tags = [a.strip().split(' ', 1)[1].strip('"') for a in f[8].split(';')
                if a.strip().startswith('tag ')]
        if 'cds_start_NF' in tags:
            tx = gen_ref._gtf_attr(f[8], 'transcript_id')
            nf.add(tx)
    out = []
    for block in open(case.proteome).read().split('>')[1:]:
        hdr, _, seq = block.partition('\n')
        tx = hdr.split('|')[1]
        out.append((tx, ''.join(seq.split()), tx in nf))
    return out


def lean_canonical_pool(case: gen_ref.Case, cleavage_rule: str = 'trypsin', miscleavage: int = 2,
                        min_mw: float = 500., min_length: int = 7, max_length: int = 25,
                        cleavage_exception: Optional[str] = None, **_ignored) -> Optional[Set[str]]:
    """The canonical pool from the LEAN model of the digest (`peptidePool`, Model/Digest.lean;
    proved equal to the positional definition in Props/C10) evaluated by the native driver on
    the proteome text + cds_start_NF flags: a judge of "is canonical" that does not come from
    the code under test.  None when the driver is unavailable / the model rejects the proteome."""
    exc = cleavage_exception
    if exc == 'auto':
        exc = 'trypsin_exception' if cleavage_rule == 'trypsin' else None
    ents = proteome_entries(case)
    enc = ';'.join(f'{int(nf)}:{seq}' for _tx, seq, nf in ents)
    line = '\t'.join(['C10', 'pool', cleavage_rule, exc or '-', str(int(miscleavage)),
                      str(mw_int(min_mw)), str(int(min_length)), str(int(max_length)), enc])
    if not os.path.exists(common.DRIVER):
        return None
    try:
        p = subprocess.run([common.DRIVER], input=line + '\n', capture_output=True, text=True,
                           timeout=300)
    except (OSError, subprocess.TimeoutExpired):
        return None
    out = p.stdout.split('\n')
    if p.returncode != 0 or not out or out[0].startswith(('crash:', 'bad-')):
        return None
    return {x for x in out[0].split(',') if x}


def model_canonical_pool(case: gen_ref.Case, **kw) -> Set[str]:
    """the canonical set the DEFINITIONS use: the Lean digest model of C10 on the proteome text and
    the cds_start_NF flags (independent of the repository's digest); the repository's own pool only
    when the driver is unavailable"""
    pool = lean_canonical_pool(case, **kw)
    if pool is None:
        return canonical_pool(case, **kw)
    return pool


def units_by_tx(trace: List[dict]) -> Dict[str, List[Tuple[str, Dict[str, List[str]]]]]:
    out: Dict[str, List] = {}
    for r in trace:
        if r['kind'] == 'unit':
            out.setdefault(r['tx_id'], []).append((r['unit'], r['peptides']))
    return out


def wrappers_by_tx(trace: List[dict]) -> Dict[str, List[dict]]:
    out: Dict[str, List[dict]] = {}
    for r in trace:
        if r['kind'] == 'wrapper':
            out.setdefault(r['tx_id'], []).append(r)
    return out


def tx_list(trace: List[dict]) -> List[str]:
    for r in trace:
        if r['kind'] == 'txs':
            return r['txs']
    return []


def parse_tally(log: str) -> Optional[List[int]]:
    pats = [r'Total transcripts processed: (\d+)', r'Variant peptides: (\d+)',
            r'Fusion peptides: (\d+)', r'circRNA peptides: (\d+)',
            r'Total variant peptides generated \(including redundant\): (\d+)',
            r'Total variant peptides saved: (\d+)']
    vals = []
    for p in pats:
        m = re.findall(p, log)
        if not m:
            return None
        vals.append(int(m[-1]))
    return vals


class Structure:
    """Unit structure of every transcript, from a fault-free baseline run."""
    def __init__(self, base: gen_ref.RunResult):
        self.txs = tx_list(base.trace)
        ub = units_by_tx(base.trace)
        self.gathered = {tx for tx in wrappers_by_tx(base.trace)}
        self.units: Dict[str, List[str]] = {tx: [u for u, _ in ub.get(tx, [])] for tx in self.txs}

    def all_units(self) -> List[str]:
        return [u for tx in self.txs for u in self.units.get(tx, [])]


def encode_unit(peps: Optional[Dict[str, List[str]]], lab: Dict[str, int]) -> str:
    if peps is None:
        return '!'
    return '@' + ','.join('~'.join([seq] + [str(lab[l]) for l in labels])
                          for seq, labels in peps.items())


def model_line(struct: Structure, run: gen_ref.RunResult, fail: Set[str], threads: int,
               skip: bool, limits: Tuple[float, int, int], canon: Set[str]
               ) -> Tuple[str, Dict[str, int]]:
    """Protocol line for `P run`: unit structure from the baseline, unit results from THIS
    run's trace (what the real callers returned), failing units from the injected set."""
    ub = {tx: dict(v) for tx, v in units_by_tx(run.trace).items()}
    labels = set()
    for r in run.trace:
        if r['kind'] in ('unit', 'wrapper'):
            for ls in r['peptides'].values():
                labels.update(ls)
    for hdrs in run.fasta.values():
        for h in hdrs:
            labels.update(h.split(' '))
    for row in run.table:
        if len(row) > 1:
            labels.add(row[1])
    lab = {l: i for i, l in enumerate(sorted(labels))}
    txs = []
    for tx in struct.txs:
        if tx not in struct.gathered:
            txs.append('-')
            continue
        names = struct.units.get(tx, [])
        main = [u for u in names if u.startswith('main:')]
        fus = [u for u in names if u.startswith('fusion:')]
        circ = [u for u in names if u.startswith('circ:')]

        def res(u):
            if u in fail:
                return '!'
            return encode_unit(ub.get(tx, {}).get(u, {}), lab)
        txs.append('/'.join(['1' if main else '0', res(main[0]) if main else '@',
                             '+'.join(res(u) for u in fus), '+'.join(res(u) for u in circ)]))
    min_mw, min_len, max_len = limits
    line = '\t'.join(['P', 'run', str(threads), '1' if skip else '0', str(mw_int(min_mw)),
                      str(min_len), str(max_len), ','.join(sorted(canon)), ';'.join(txs)])
    return line, lab


def real_line(struct: Structure, run: gen_ref.RunResult, lab: Dict[str, int]) -> str:
    idx = {tx: i for i, tx in enumerate(struct.txs)}
    batches = '|'.join(','.join(str(idx[t]) for t in r['txs'])
                       for r in run.trace if r['kind'] == 'batch')
    if run.status != 'ok':
        return 'abort'
    fa = ','.join(sorted('~'.join([seq] + [str(x) for x in sorted(lab[l] for l in hdr.split(' '))])
                         for seq, hdrs in run.fasta.items() for hdr in hdrs))
    rows = []
    for row in run.table:
        pair = (row[0], row[1])
        if not rows or rows[-1] != pair:
            rows.append(pair)
    rs = ','.join(sorted({f'{s}~{lab[l]}' for s, l in rows}))
    tally = parse_tally(run.log)
    ts = ','.join(str(x) for x in tally) if tally else 'no-tally'
    return f'ok B={batches} F={fa} R={rs} T={ts}'


def hygiene_violations(run: gen_ref.RunResult, canon: Set[str], limits: Tuple[float, int, int],
                       check_table: bool = True, canon_model: Optional[Set[str]] = None
                       ) -> List[str]:
    """C04 predicates evaluated directly on real output files.  `canon` is the pool the command
    itself loads, `canon_model` the pool of the Lean digest model on the same proteome."""
    from Bio.SeqUtils import molecular_weight
    min_mw, min_len, max_len = limits
    out = []
    for seq, hdrs in run.fasta.items():
        if len(hdrs) != 1:
            out.append(f'sequence {seq} occurs {len(hdrs)} times in the FASTA')
        if 'X' in seq or '*' in seq:
            out.append(f'sequence {seq} contains X or *')
            continue
        if seq in canon:
            out.append(f'sequence {seq} is in the canonical pool')
        elif canon_model is not None and seq in canon_model:
            out.append(f'sequence {seq} is a canonical peptide (digest model of the proteome, Lean '
                       f'peptidePool) but is missing from the pool the command filters with')
        if not (min_len <= len(seq) <= max_len):
            out.append(f'sequence {seq} length {len(seq)} outside [{min_len},{max_len}]')
        try:
            if molecular_weight(seq, 'protein') < min_mw:
                out.append(f'sequence {seq} lighter than {min_mw}')
        except ValueError:
            out.append(f'sequence {seq} has a residue without mass')
    if check_table:
        fa_pairs = {(s, l) for s, hdrs in run.fasta.items() for h in hdrs for l in h.split(' ')}
        tb_pairs = {(r[0], r[1]) for r in run.table}
        if fa_pairs != tb_pairs:
            d1 = sorted(fa_pairs - tb_pairs)[:3]
            d2 = sorted(tb_pairs - fa_pairs)[:3]
            out.append(f'table and FASTA list different (sequence, header entry) pairs: '
                       f'fasta-only {d1} table-only {d2}')
        for r in run.table:
            try:
                s, e = int(r[3]), int(r[4])
            except (ValueError, IndexError):
                out.append(f'malformed table row {r[:5]}')
                continue
            if r[0][s:e] != r[2]:
                out.append(f'table row sub-sequence {r[2]} != {r[0]}[{s}:{e}]')
    return out
