"""Layer G, function level, third stage — DIRECT stream for `Model/Translate.lean`.

The end-to-end streams reach `ThreeFrameTVG.translate` only with annotations the reference
generator produces (the CDS end is a stop codon, Sec annotations sit on in-frame TGA codons), so
the fake stop for a CDS end that is not a stop codon and the guards of `fix_selenocysteines` are
hardly exercised there.  Here the REAL stages are called in-process on small transcripts with
ARBITRARY annotations: random ORF (end on a stop codon or not, in frame or not), 0-3 Sec
annotations (planted in-frame TGA, TGA out of frame, or any position), mRNA_end_NF, coding or
non-coding, 0-5 SNV / insertion / deletion records:

    ThreeFrameTVG(...) -> init_three_frames -> create_variant_graph -> fit_into_codons
    -> [dump = input of the model] -> translate -> [snapshot = real output]

and the snapshot is compared with `Translate.translateGraph` on the dump (`G translate`).
"""
from __future__ import annotations
import random
import warnings
from typing import Dict, List, Optional, Tuple

from . import common, graph_stages  # noqa: F401  (common puts the repository on sys.path)

STOPS = ('TAA', 'TAG', 'TGA')


def _rand_seq(rng: random.Random, n: int) -> List[str]:
    return [rng.choice('ACGT') for _ in range(n)]


def gen_case(rng: random.Random) -> dict:
    """a small transcript with arbitrary annotations and small records"""
    n = rng.randint(24, 75)
    seq = _rand_seq(rng, n)
    coding = rng.random() < 0.7
    orf = None
    if coding:
        start = rng.randint(0, 8)
        seq[start:start + 3] = list('ATG')
        ncod = rng.randint(3, max(3, (n - start) // 3 - 1))
        end = start + 3 * ncod
        kind = rng.random()
        if kind < 0.45 and end + 3 <= n:
            seq[end:end + 3] = list(rng.choice(STOPS))      # a proper stop codon at the CDS end
        elif kind < 0.6:
            end = min(n, end + rng.choice([1, 2]))           # CDS end out of frame
        # else: whatever codon stands there (mostly not a stop codon)
        end = min(end, n)
        orf = (start, end)
        # remove accidental in-frame stops before the CDS end in half of the cases
        if rng.random() < 0.5:
            for p in range(start + 3, min(end, n - 2), 3):
                if ''.join(seq[p:p + 3]) in STOPS and p != end:
                    seq[p] = 'C'
    secs = []
    for _ in range(rng.choice([0, 0, 1, 1, 2, 3])):
        k = rng.random()
        base = orf[0] if orf else rng.randint(0, 2)
        if k < 0.6:
            p = base + 3 * rng.randint(1, max(1, (n - base) // 3 - 1))
            if p + 3 <= n and (orf is None or p != orf[1]):
                seq[p:p + 3] = list('TGA')
                secs.append(p)
        elif k < 0.8:
            p = rng.randint(0, n - 3)
            seq[p:p + 3] = list('TGA')                      # TGA, any frame
            secs.append(p)
        else:
            secs.append(rng.randint(0, n - 3))              # any position
    if rng.random() < 0.8:
        secs = sorted(set(secs))
    variants = []
    lo = (orf[0] + 3) if orf else 3
    for i in range(rng.choice([0, 1, 1, 2, 3, 4, 5])):
        if lo >= n - 1:
            break
        # near a Sec codon / the CDS end in half of the cases
        anchors = list(secs) + ([orf[1]] if orf else [])
        if anchors and rng.random() < 0.5:
            p = max(lo, min(n - 2, rng.choice(anchors) + rng.randint(-3, 4)))
        else:
            p = rng.randint(lo, n - 2)
        t = rng.random()
        if t < 0.5:
            ref = seq[p]
            alt = rng.choice([c for c in 'ACGT' if c != ref])
            variants.append((p, p + 1, ref, alt, 'SNV', f'SNV-{p}-{i}'))
        elif t < 0.75:
            ins = ''.join(_rand_seq(rng, rng.randint(1, 4)))
            variants.append((p, p + 1, seq[p], seq[p] + ins, 'INDEL', f'INS-{p}-{i}'))
        else:
            k = rng.randint(1, 4)
            if p + 1 + k <= n:
                variants.append((p, p + 1 + k, ''.join(seq[p:p + 1 + k]), seq[p], 'INDEL', f'DEL-{p}-{i}'))
    variants.sort(key=lambda v: (v[0], v[1]))
    return {'seq': ''.join(seq), 'coding': coding, 'orf': orf, 'sec': secs,
            'end_nf': rng.random() < 0.35, 'start_nf': rng.random() < 0.15, 'vars': variants}


def run_case(case: dict) -> Tuple[Optional[str], Optional[str], str]:
    """(protocol line, canonical real output, status) — the real stages in-process"""
    from Bio.Seq import Seq
    from moPepGen import svgraph, seqvar, dna
    from moPepGen.SeqFeature import FeatureLocation, MatchedLocation
    from moPepGen.seqvar.VariantRecordWithCoordinate import VariantRecordWithCoordinate
    tx_id = 'ENST0001'
    n = len(case['seq'])
    seq = dna.DNASeqRecordWithCoordinates(
        Seq(case['seq']),
        locations=[MatchedLocation(query=FeatureLocation(start=0, end=n),
                                   ref=FeatureLocation(start=0, end=n, seqname=tx_id))],
        orf=FeatureLocation(start=case['orf'][0], end=case['orf'][1]) if case['orf'] else None,
        selenocysteine=[FeatureLocation(start=p, end=p + 3) for p in case['sec']])
    recs = [seqvar.VariantRecord(location=FeatureLocation(start=s, end=e, seqname=tx_id), ref=r, alt=a,
                                 _type=t, _id=i, attrs={'TRANSCRIPT_ID': tx_id})
            for (s, e, r, a, t, i) in case['vars']]
    store: List[graph_stages.Rec] = []
    with warnings.catch_warnings():
        warnings.simplefilter('ignore')
        with graph_stages.capture(store):
            try:
                g = svgraph.ThreeFrameTVG(seq=seq, _id=tx_id, cds_start_nf=case['start_nf'],
                                          has_known_orf=case['coding'], mrna_end_nf=case['end_nf'],
                                          coordinate_feature_type='transcript', coordinate_feature_id=tx_id)
                g.sect_variants = [VariantRecordWithCoordinate(
                    location=FeatureLocation(start=p, end=p + 3),
                    variant=seqvar.VariantRecord(location=FeatureLocation(start=p, end=p + 3), ref='TGA',
                                                 alt='<SECT>', _type='SECT', _id=f'SECT-{p + 1}',
                                                 attrs={'TRANSCRIPT_ID': tx_id})) for p in case['sec']]
                g.init_three_frames()
                g.create_variant_graph(variants=recs, variant_pool=None, genome=None, anno=None)
                g.fit_into_codons()
            except Exception as e:      # noqa: BLE001 — an earlier stage refuses the input: not this stream
                return None, None, 'prior:' + type(e).__name__
            try:
                g.translate()
            except Exception:           # noqa: BLE001 — recorded by the wrapper (`crash:<Type>`)
                pass
    rs = [r for r in store if getattr(r, 'translate', None) is not None]
    if len(rs) != 1:
        return None, None, 'no-dump'
    tc = graph_stages.translate_case(rs[0], {})
    return tc[0], tc[1], 'ok'


def worker(job):
    import logging
    logging.disable(logging.WARNING)     # "The codon at the given Selenocysteine position is not a stop codon."
    seed, prop, stream, first, k = job
    out = []
    for i in range(first, first + k):
        rng = common.rng_for(seed, prop, stream, i)     # = ctx.rng(stream, i)
        case = gen_case(rng)
        try:
            line, real, status = run_case(case)
        except Exception as e:      # noqa: BLE001
            line, real, status = None, None, 'harness:' + type(e).__name__
        out.append((line, real, status, case))
    return out


def run_stream(ctx: common.Ctx, n: int, stream: str = 'G-translate-direct') -> int:
    import multiprocessing as mp
    per, batch = 50, 8000          # cases per job / per driver call (bounds the memory of a thorough run)

    def nontrivial(real: str) -> bool:
        # a variant node, a rewritten Sec position or a fake stop
        fl = graph_stages.translate_flags(real)
        return bool(fl.get('with_variant_node') or fl.get('with_selenocysteine_fixed') or fl.get('with_fake_stop'))

    nd = 0
    with mp.get_context('fork').Pool(8) as pool:
        for b0 in range(0, n, batch):
            nb = min(batch, n - b0)
            jobs = [(ctx.seed, ctx.prop, stream, b0 + j * per, min(per, nb - j * per))
                    for j in range((nb + per - 1) // per)]
            cases = []
            for chunk in pool.map(worker, jobs):
                for line, real, status, case in chunk:
                    if status != 'ok':
                        ctx.count(stream, 'skipped_' + status.replace(':', '_'))
                    else:
                        cases.append((line, real, case))
            nd += ctx.diff_stream(stream, cases, False, lambda c: c, nontrivial,
                                  'translate: real peptide graph differs from the function-level model')
            ctx.count(stream, 'compared', len(cases))
            for _l, real, _c in cases:
                for k_, v_ in graph_stages.translate_flags(real).items():
                    if v_:
                        ctx.count(stream, k_)
    return nd
