"""C13 — GVF files: lossless round trip and index-equivalent access.

Correspondence streams (real code in-process vs native Lean driver):
  space      exhaustive: every code point, str.isspace() (what rstrip() removes) vs isPySpace
  int        decimal strings, int() vs parseInt (domain -?[0-9]+ and rejections)
  toline     VariantRecord.to_string for every record kind x attribute combinations (+ malformed)
  parse      seqvar.io.line_to_variant_record on written lines and on mutated lines
  fixpoint   write -> parse -> write on the real code (direct property check) and the same
             lines through the model (proved identity on well-formed records)
  circline / circparse / circfix     the same three for circRNA records
  index      GVFIndex.iterate_pointer on 1 file, any grouping/interleaving (variant + circRNA)
  idxtext    the .idx written by the real indexGVF CLI function vs writeIdx
  pool       VariantRecordPoolOnDisk + Opener over 1-4 files with / without .idx:
             records reached through pool.pointers[tx] vs linear scan (direct) vs model
  getitem    VariantRecordPoolOnDisk[tx] (full __getitem__ with annotation) through the
             index vs the same __getitem__ fed by a linear scan (direct)
  stale      edit-after-index histories (append, delete, change a byte, reorder,
             checksum line removed / damaged, no-op rewrite, re-index)
"""
from __future__ import annotations
import argparse
import hashlib
import io
import json
import os
import shutil
import sys
import tempfile
from pathlib import Path

from . import common

US = '\x1f'
KINDS = ['SNV', 'INDEL', 'MNV', 'RNAEditingSite', 'Fusion', 'Insertion', 'Deletion',
         'Substitution']
FINDING_CIRC = 'circ-genomic-position-key'


def esc(s: str) -> str:
    return s.replace('\\', '\\\\').replace('\t', '\\t').replace('\n', '\\n').replace('\r', '\\r')


def constants_meta():
    man = json.load(open(os.path.join(common.LEAN_DIR, 'MoPepGen', 'Generated',
                                      'manifest.json')))
    return man['Constants.lean']['meta']


# ------------------------------------------------------------------ generators
VAL_CHARS = 'ABCDEFGHIJKLMNOPQRSTUVWXYZabcdefghijklmnopqrstuvwxyz0123456789:-._,|/()+*% '
KEY_CHARS = 'ABCDEFGHIJKLMNOPQRSTUVWXYZ0123456789_'
NONASCII = 'éßΩ中𝔊'


def gen_value(rng, nonascii=False, last=False):
    n = rng.choice([0, 1, 2, 5, 9, 14])
    alphabet = VAL_CHARS + (NONASCII if nonascii else '')
    v = ''.join(rng.choice(alphabet) for _ in range(n))
    v = v.strip('"')
    if last:
        v = v.rstrip()
    return v


def gen_key(rng):
    return ''.join(rng.choice(KEY_CHARS) for _ in range(rng.randint(1, 8)))


def gen_seq(rng, n):
    return ''.join(rng.choice('ACGT') for _ in range(n))


def shuffle_dict(rng, d, keep_first=None):
    keys = list(d)
    rng.shuffle(keys)
    return {k: d[k] for k in keys}


def gen_record_spec(rng, kind, tx, gene, nonascii=False):
    """A plain-data description of one well-formed record:
    (seqname, start, end, ref, alt, type, id, attrs-dict)."""
    start = rng.choice([0, 1, 9, 10, 99, rng.randint(0, 100000)])
    attrs = {}
    tx_in_attr = rng.random() < 0.85
    seqname = gene if tx_in_attr else tx
    if tx_in_attr:
        attrs['TRANSCRIPT_ID'] = tx
    else:
        attrs['GENE_ID'] = gene
    if rng.random() < 0.8:
        attrs['GENE_SYMBOL'] = gen_value(rng, nonascii) or 'SYM'
    if rng.random() < 0.8:
        attrs['GENOMIC_POSITION'] = f'chr{rng.randint(1, 22)}:{start + 1000}-{start + 1001}'
    if rng.random() < 0.2:
        attrs['STRAND'] = rng.choice([1, -1, '+', '-'])
    posval = lambda x: x if rng.random() < 0.5 else str(x)   # noqa: E731
    if kind in ('SNV', 'RNAEditingSite'):
        ref, alt = gen_seq(rng, 1), gen_seq(rng, 1)
        end = start + 1
    elif kind == 'INDEL':
        if rng.random() < 0.5:
            ref, alt = gen_seq(rng, 1), gen_seq(rng, rng.randint(2, 7))
        else:
            ref, alt = gen_seq(rng, rng.randint(2, 7)), gen_seq(rng, 1)
        end = start + len(ref)
    elif kind == 'MNV':
        ref, alt = gen_seq(rng, rng.randint(2, 6)), gen_seq(rng, rng.randint(2, 6))
        end = start + len(ref)
        if rng.random() < 0.5:
            attrs['INDIVIDUAL_VARIANT_IDS'] = [f'SNV-{start + i}-A-T'
                                               for i in range(rng.randint(0, 3))]
            attrs['MERGED_MNV'] = True
    elif kind == 'Fusion':
        ln = rng.choice([1, 1, 1, 3])
        ref, alt = gen_seq(rng, ln), '<FUSION>'
        end = start + ln
        attrs['ACCEPTER_GENE_ID'] = 'G' + str(rng.randint(1, 9))
        attrs['ACCEPTER_TRANSCRIPT_ID'] = 'T' + str(rng.randint(1, 9))
        attrs['ACCEPTER_POSITION'] = posval(rng.choice([0, 7, rng.randint(0, 9999)]))
        if rng.random() < 0.5:
            attrs['ACCEPTER_SYMBOL'] = gen_value(rng, nonascii)
            attrs['ACCEPTER_GENOMIC_POSITION'] = f'chr2:{rng.randint(1, 999)}-{rng.randint(1, 999)}'
    elif kind == 'Insertion':
        ln = rng.choice([1, 1, 2])
        ref, alt = gen_seq(rng, ln), '<INS>'
        end = start + ln
        ds = rng.randint(0, 9999)
        attrs['DONOR_GENE_ID'] = gene
        attrs['DONOR_START'] = posval(ds)
        attrs['DONOR_END'] = posval(ds + rng.randint(0, 300))
        attrs['COORDINATE'] = 'gene'
    elif kind == 'Deletion':
        ref, alt = gen_seq(rng, rng.choice([1, 1, 4])), '<DEL>'
        end = start + rng.randint(0, 400)
        attrs['START'] = posval(start)
        attrs['END'] = posval(end if rng.random() < 0.8 else end + rng.randint(0, 5))
    else:   # Substitution
        ref, alt = gen_seq(rng, rng.choice([1, 1, 3])), '<SUB>'
        end = start + rng.randint(0, 400)
        ds = rng.randint(0, 9999)
        attrs['START'] = posval(start)
        attrs['END'] = posval(end)
        attrs['DONOR_START'] = posval(ds)
        attrs['DONOR_END'] = posval(ds + rng.randint(0, 300))
        attrs['DONOR_GENE_ID'] = gene
        attrs['COORDINATE'] = 'gene'
    if rng.random() < 0.25:   # a position key on a kind that does not normally carry it
        attrs[rng.choice(['START', 'DONOR_START', 'ACCEPTER_START', 'ACCEPTER_POSITION'])] = \
            posval(rng.choice([-1, 0, 5, 999999999999]))
    for _ in range(rng.choice([0, 0, 1, 3])):
        attrs[gen_key(rng)] = gen_value(rng, nonascii)
    if rng.random() < 0.6:
        attrs = shuffle_dict(rng, attrs)
    # the last value must not end in white space (rstrip of the line)
    lastk = list(attrs)[-1]
    if isinstance(attrs[lastk], str):
        attrs[lastk] = attrs[lastk].rstrip()
    _id = f'{kind[:3].upper()}-{start + 1}-{ref}-{alt.strip("<>")}'
    return (seqname, start, end, ref, alt, kind, _id, attrs)


def make_record(spec):
    from moPepGen.seqvar.VariantRecord import VariantRecord
    from moPepGen.SeqFeature import FeatureLocation
    seqname, start, end, ref, alt, kind, _id, attrs = spec
    return VariantRecord(location=FeatureLocation(seqname=seqname, start=start, end=end),
                         ref=ref, alt=alt, _type=kind, _id=_id, attrs=dict(attrs))


def enc_attr_val(v):
    if isinstance(v, list):
        return 'l' + ''.join(US + str(x) for x in v)
    return 's' + str(v)


def toline_protocol(spec):
    seqname, start, end, ref, alt, kind, _id, attrs = spec
    parts = ['C13', 'toline', esc(seqname), str(start), str(end), esc(ref), esc(alt), esc(kind),
             esc(_id)]
    for k, v in attrs.items():
        parts += [esc(k), esc(enc_attr_val(v))]
    return '\t'.join(parts)


def exc_class(e):
    return 'crash:' + type(e).__name__


def raised_in_real_code(e) -> bool:
    """the innermost frame of the traceback is code of the repository (or of Biopython
    called by it), not of the harness"""
    import traceback
    tb = traceback.extract_tb(e.__traceback__)
    if not tb:
        return False
    fn = os.path.abspath(tb[-1].filename)
    here = os.path.dirname(os.path.abspath(__file__))
    return not fn.startswith(here)


def real_crash(ctx, stream, e, describe):
    """the real code raised while writing / indexing / scanning files of well-formed records:
    a failing input of the property, not an infrastructure error"""
    import traceback
    if not raised_in_real_code(e):
        raise e
    ctx.add_violation(f'{stream}: the real code raises {type(e).__name__} on files of '
                      'well-formed records',
                      dict(describe, exception=''.join(
                          traceback.format_exception_only(type(e), e)).strip(),
                          where=[f'{f.filename}:{f.lineno}' for f in
                                 traceback.extract_tb(e.__traceback__)[-3:]]))


def real_toline(spec):
    try:
        return 'ok:' + esc(make_record(spec).to_string())
    except Exception as e:   # noqa
        return exc_class(e)


def dump_real_record(r):
    parts = [r.location.seqname, str(int(r.location.start)), str(int(r.location.end)),
             str(r.ref), str(r.alt), r.type, r.id]
    for k, v in r.attrs.items():
        parts += [k, enc_attr_val(v)]
    return esc(US.join(parts))


def real_parse(line):
    from moPepGen.seqvar import io as sio
    try:
        return 'ok:' + dump_real_record(sio.line_to_variant_record(line))
    except Exception as e:   # noqa
        return exc_class(e)


def real_roundtrip(line):
    from moPepGen.seqvar import io as sio
    try:
        return 'ok:' + esc(sio.line_to_variant_record(line).to_string())
    except Exception as e:   # noqa
        return exc_class(e)


def mutate_line(rng, line):
    """syntactically damaged or unusual GVF lines (ASCII; no forms on which Python's
    int()/upper() go beyond the modelled domain)"""
    f = line.split('\t')
    k = rng.randrange(24)
    if k == 0:
        f = f[:rng.randint(0, 7)]
    elif k == 1:
        f.append('EXTRA')
    elif k == 2:
        f[1] = rng.choice(['', 'x', '1.5', '-', '--3', '12a', '-7', '0'])
    elif k == 3:
        f[4] = rng.choice(['<XYZ>', '<', '<del>', '<DUP>', '<FUSION', ''])
    elif k == 4:
        f[4] = rng.choice(['<DEL>', '<SUB>'])
        f[7] = ';'.join(x for x in f[7].split(';') if not x.startswith('END='))
    elif k == 5:
        f[4] = rng.choice(['<DEL>', '<SUB>'])
        f[7] += ';END=' + rng.choice(['x', '', '-5', '0', '3', '99999999'])
    elif k == 6:
        f[7] += ';NOEQ'
    elif k == 7:
        f[7] += ';A=B=C'
    elif k == 8:
        f[7] = ''
    elif k == 9:
        f[7] += ';' + f[7].split(';')[0].split('=')[0] + '=DUP'
    elif k == 10:
        f[7] += ';Q="quoted"'
    elif k == 11:
        f[7] += rng.choice([' ', '\t', '  \t ', '\x0b', '\x1c', ';'])
    elif k == 12:
        f[7] += ';start=5;Start=6'
    elif k == 13:
        f[7] += ';START=' + rng.choice(['x', '', '1.0', '-', '-0', '007', '0'])
    elif k == 14:
        f[3] = ''
        f[4] = rng.choice(['<FUSION>', '<INS>', 'A', ''])
    elif k == 15:
        f[3] = rng.choice(['AC', 'ACGT'])
        f[4] = rng.choice(['<FUSION>', '<INS>', '<DEL>'])
    elif k == 16:
        f[7] = f[7].replace(';', ';;', 1)
    elif k == 17:
        f[0] = rng.choice(['', '#G', ' G'])
    elif k == 18:
        f[7] += ';V="'
    elif k == 19:
        f[7] += ';W=""x""'
    elif k == 20:
        return line + rng.choice(['\n', ' \n', '\r\n'])
    elif k == 21:
        f[7] = 'TRANSCRIPT_ID=' + ';' + f[7]
    elif k == 22:
        f[2] = ''
    else:
        f[7] = f[7].split(';')[0]
    return '\t'.join(f)


def mutate_spec(rng, spec):
    seqname, start, end, ref, alt, kind, _id, attrs = spec
    attrs = dict(attrs)
    k = rng.randrange(9)
    if k == 0:
        ref = '' if alt.startswith('<') else ref
        end = start
    elif k == 1:
        attrs['START'] = rng.choice(['x', '', [1, 2], '1.5', '-'])
    elif k == 2:
        kind = rng.choice(['circRNA', 'SECT', 'W2F'])
        end = start + len(ref)
    elif k == 3:
        attrs = {}
    elif k == 4:
        attrs['start'] = 5
    elif k == 5:
        kind = 'Unknown'
    elif k == 6:
        end = start + len(ref) + 1 if kind not in ('Deletion', 'Substitution') else end
    elif k == 7:
        attrs['LIST'] = rng.choice([[], [''], ['a', 'b'], [1, 2, 3]])
    else:
        attrs['DONOR_START'] = -1
    return (seqname, start, end, ref, alt, kind, _id, attrs)


# ------------------------------------------------------------------- circRNA
def gen_circ_spec(rng, tx, gene, nonascii=False):
    n = rng.choice([1, 1, 2, 3, 5])
    frags = []
    pos = rng.choice([0, 5, rng.randint(0, 50000)])
    for _ in range(n):
        ln = rng.choice([0, 1, 20, rng.randint(1, 500)])
        frags.append((pos, pos + ln))
        pos += ln + rng.randint(0, 300)
    if rng.random() < 0.15:
        rng.shuffle(frags)
    intron = sorted(rng.sample(range(0, n + 1), rng.randint(0, min(2, n))))
    gp = '' if rng.random() < 0.25 else rng.choice(
        [f'chr{rng.randint(1, 22)}:{frags[0][0] + 100}:{frags[-1][1] + 100}',
         gen_value(rng, nonascii, last=True)])
    cid = f'CIRC-{tx}-' + '-'.join(f'E{i + 1}' for i in range(n))
    sym = gen_value(rng, nonascii) if rng.random() < 0.7 else ''
    return (gene, frags, intron, cid, tx, sym, gp)


def make_circ(spec):
    from moPepGen.circ.CircRNA import CircRNAModel
    from moPepGen.SeqFeature import FeatureLocation, SeqFeature
    gene, frags, intron, cid, tx, sym, gp = spec
    fragments = []
    for j, (s, e) in enumerate(frags):
        loc = FeatureLocation(seqname=gene, start=s, end=e)
        fragments.append(SeqFeature(chrom=gene, location=loc, attributes={},
                                    type='intron' if j + 1 in intron else 'exon'))
    return CircRNAModel(tx, fragments, list(intron), cid, gene, sym, gp)


def circ_protocol(spec):
    gene, frags, intron, cid, tx, sym, gp = spec
    return '\t'.join(['C13', 'circline', esc(gene),
                      ','.join(f'{s},{e}' for s, e in frags),
                      ','.join(str(x) for x in intron), esc(cid), esc(tx), esc(sym), esc(gp)])


def dump_real_circ(c):
    frs = ','.join(f'{int(f.location.start)},{int(f.location.end)}' for f in c.fragments)
    return esc(US.join([c.gene_id, frs, ','.join(str(x) for x in c.intron), c.id,
                        c.transcript_id, c.gene_name, c.genomic_position]))


def real_circ_parse(line):
    from moPepGen.circ import io as cio
    try:
        return 'ok:' + dump_real_circ(cio.line_to_circ_model(line))
    except Exception as e:   # noqa
        return exc_class(e)


def real_circ_roundtrip(line):
    from moPepGen.circ import io as cio
    try:
        return 'ok:' + esc(cio.line_to_circ_model(line).to_string())
    except Exception as e:   # noqa
        return exc_class(e)


def mutate_circ_line(rng, line):
    f = line.split('\t')
    k = rng.randrange(12)
    if k == 0:
        f = f[:rng.randint(0, 7)]
    elif k == 1:
        f[1] = rng.choice(['', 'x', '-4', '1.0'])
    elif k == 2:
        f[7] = ';'.join(x for x in f[7].split(';')
                        if not x.startswith(rng.choice(['OFFSET', 'LENGTH', 'INTRON',
                                                        'TRANSCRIPT_ID', 'GENE_SYMBOL',
                                                        'GENOMIC_']) ))
    elif k == 3:
        f[7] = f[7].replace('LENGTH=', 'LENGTH=-3,', 1)
    elif k == 4:
        f[7] = f[7].replace('OFFSET=', 'OFFSET=x,', 1)
    elif k == 5:
        f[7] += ';NOEQ'
    elif k == 6:
        f[7] += ';A=B=C'
    elif k == 7:
        f[7] += rng.choice([' ', '\t', ';'])
    elif k == 8:
        f[7] = f[7].replace('INTRON=', 'INTRON=,', 1)
    elif k == 9:
        f[7] += ';GENOMIC_LOCATION=locus;GENOMIC_POSITION=pos2'
    elif k == 10:
        f[7] = f[7].replace('OFFSET=', 'OFFSET=0,', 1)
    else:
        f[7] += ';OFFSET=0;LENGTH=1'
    return '\t'.join(f)


# --------------------------------------------------------------------- files
def metadata(circ: bool):
    from moPepGen.seqvar.GVFMetadata import GVFMetadata
    if circ:
        return GVFMetadata(parser='parseCIRCexplorer', source='circRNA', chrom='Gene ID',
                           reference_index='/ref/index')
    return GVFMetadata(parser='parseVEP', source='gSNP', chrom='Gene ID',
                       reference_index='/ref/index', genome_fasta='', annotation_gtf='')


def write_gvf(path: str, specs, circ: bool):
    from moPepGen.seqvar import io as sio
    from moPepGen.circ import io as cio
    if circ:
        with open(path, 'w') as fh:
            cio.write([make_circ(s) for s in specs], metadata(True), fh)
    else:
        sio.write([make_record(s) for s in specs], path, metadata(False))


def sha512(path):
    return hashlib.sha512(open(path, 'rb').read()).hexdigest()


def real_index(path: str):
    """the real indexGVF CLI function"""
    from moPepGen.cli.index_gvf import index_gvf
    index_gvf(argparse.Namespace(command='indexGVF', input_path=Path(path), debug_level=1,
                                 quiet=True))


def is_circ_file(path):
    from moPepGen.seqvar.GVFMetadata import GVFMetadata
    with open(path, 'rt') as fh:
        return GVFMetadata.parse(fh).is_circ_rna()


def real_scan(paths, tx):
    """linear scan of the files with the real parsers"""
    from moPepGen.seqvar import io as sio
    from moPepGen.circ import io as cio
    out = []
    for p in paths:
        if is_circ_file(p):
            with open(p, 'rt') as fh:
                out += [r for r in cio.parse(fh) if r.transcript_id == tx]
        else:
            out += [r for r in sio.parse(p) if r.transcript_id == tx]
    return out


def classify_open_error(e):
    if isinstance(e, ValueError) and e.args:
        if e.args[0] == 'Cannot find checksum value from the idx file.':
            return 'reject:missing-checksum'
        if e.args[0] == "GVF checksum don't match.":
            return 'reject:checksum-mismatch'
    return exc_class(e)


def real_pool(paths, txs):
    """{tx: canonical} through VariantRecordPoolOnDisk + Opener, or an open error for all."""
    from moPepGen.seqvar.VariantRecordPoolOnDisk import (VariantRecordPoolOnDisk,
                                                         VariantRecordPoolOnDiskOpener)
    pool = VariantRecordPoolOnDisk(gvf_files=[Path(p) for p in paths])
    opener = VariantRecordPoolOnDiskOpener(pool)
    res = {}
    try:
        try:
            opener.open()
        except Exception as e:   # noqa
            cls = classify_open_error(e)
            return {tx: cls for tx in txs}, None
        keys = list(pool.pointers)
        for tx in txs:
            try:
                recs = []
                for ptr in pool.pointers[tx]:
                    recs += ptr.load()
                res[tx] = 'ok:' + esc(US.join(r.to_string() for r in recs))
            except Exception as e:   # noqa
                res[tx] = exc_class(e)
        return res, keys
    finally:
        opener.close()


def pool_protocol(op, circ_flags, tx, paths, with_idx=True):
    parts = ['C13', op, '1' if any(circ_flags) else '0', esc(tx)]
    # one pool has one parser per file; the driver takes a single flag, so mixed
    # pools are split by the caller
    for p in paths:
        content = open(p, 'rb').read().decode('utf-8')
        if op == 'scan':
            parts.append(esc(content))
        else:
            idxp = p + '.idx'
            idx = open(idxp, 'rb').read().decode('utf-8') if (with_idx and os.path.exists(idxp)) \
                else None
            parts += [esc(content), sha512(p), '-' if idx is None else esc(idx)]
    return '\t'.join(parts)


def arrange(rng, specs_by_tx):
    """all orders/groupings: grouped, interleaved round-robin, random shuffle, runs"""
    mode = rng.randrange(4)
    txs = list(specs_by_tx)
    if mode == 0:       # grouped by transcript
        rng.shuffle(txs)
        return [s for t in txs for s in specs_by_tx[t]]
    allrec = [s for t in txs for s in specs_by_tx[t]]
    if mode == 1:       # fully random
        rng.shuffle(allrec)
        return allrec
    if mode == 2:       # round robin
        out, pools = [], {t: list(v) for t, v in specs_by_tx.items()}
        while any(pools.values()):
            for t in txs:
                if pools[t]:
                    out.append(pools[t].pop(0))
        return out
    # random runs of length 1-3
    out, pools = [], {t: list(v) for t, v in specs_by_tx.items()}
    while any(pools.values()):
        t = rng.choice([t for t in txs if pools[t]])
        for _ in range(rng.randint(1, 3)):
            if pools[t]:
                out.append(pools[t].pop(0))
    return out


def tx_of_spec(spec, circ):
    if circ:
        return spec[4]
    return spec[7].get('TRANSCRIPT_ID', spec[0])


# ----------------------------------------------------------------------- run
def run(ctx: common.Ctx):
    sys.path.insert(0, common.REPO)
    import logging
    logging.disable(logging.CRITICAL)
    from moPepGen import constant
    from moPepGen.seqvar import io as sio
    from moPepGen.circ import io as cio

    meta = constants_meta()
    if list(constant.ATTRS_POSITION) != meta['ATTRS_POSITION'] or \
            list(constant.SINGLE_NUCLEOTIDE_SUBSTITUTION) != meta['SINGLE_NUCLEOTIDE_SUBSTITUTION']:
        ctx.add_broken('translation', 'constants',
                       'imported moPepGen.constant differs from the text the translator read')
    keys_agree = meta['CIRC_READER_KEY'] == meta['CIRC_WRITER_KEY']
    ctx.coverage['circ_reader_key'] = meta['CIRC_READER_KEY']
    ctx.coverage['circ_writer_key'] = meta['CIRC_WRITER_KEY']
    ctx.coverage['rule'] = (
        'records: every kind (SNV, INDEL, MNV, RNAEditingSite, Fusion, Insertion, Deletion, '
        'Substitution, circRNA) x seeded attribute combinations (kind-specific keys, position '
        'keys as int or str, list/bool values, extra random keys, shuffled order, TRANSCRIPT_ID '
        'in attrs or as seqname, non-ASCII values) + a separate malformed stream (mutated lines / '
        'records); files: 1-4 GVF files, 1-6 transcripts, records grouped / shuffled / round-robin '
        '/ random runs, each file with or without .idx from the real indexGVF; edit histories on '
        'an indexed file; space: all code points. non-trivial = real output is a record/line '
        'list with >= 1 element or an error class')
    tmp = tempfile.mkdtemp(prefix='c13_')
    try:
        _run(ctx, tmp, keys_agree, sio, cio)
    finally:
        shutil.rmtree(tmp, ignore_errors=True)
    ctx.assumptions += [
        'SHA-512 (hashlib) is collision-free on the files compared: the model takes the hash as a '
        'parameter H',
        'one model character = one byte: the index streams that go through the model are ASCII; '
        'non-ASCII values are exercised on the real code only (pool vs linear scan, direct)',
        'Python int() / str.upper() outside -?[0-9]+ / ASCII are outside the model (never generated)',
        'Bio.SeqFeature.SimpleLocation raises ValueError iff end < start (validated by the parse / '
        'circparse streams)',
    ]


def _run(ctx, tmp, keys_agree, sio, cio):
    # ---- space: exhaustive over all code points
    cases = []
    step = 0x2000
    for lo in range(0, 0x110000, step):
        hi = lo + step
        real = ','.join(str(cp) for cp in range(lo, hi)
                        if not (0xD800 <= cp < 0xE000) and chr(cp).isspace()
                        and ('x' + chr(cp)).rstrip() == 'x')
        cases.append((f'C13\tspace\t{lo}\t{hi}', real, (lo, hi)))
    ctx.diff_stream('space', cases, False, lambda o: {'lo': o[0], 'hi': o[1]}, lambda o: o != '')
    ctx.coverage['exhaustive'] = True

    # ---- int
    rng = ctx.rng('int')
    cases = []
    for i in range(ctx.n(600, 6000)):
        if rng.random() < 0.5:
            s = str(rng.choice([0, 1, -1, 9, 10, 99, 100, -100, rng.randint(-10 ** 12, 10 ** 12)]))
        else:
            s = ''.join(rng.choice('0123456789-ax.') for _ in range(rng.randint(0, 5)))
        try:
            real = 'ok:' + str(int(s))
        except ValueError:
            real = 'crash:ValueError'
        cases.append((f'C13\tint\t{esc(s)}', real, s))
    ctx.diff_stream('int', cases, False, lambda o: {'text': o}, lambda o: True)

    # ---- toline / parse / fixpoint
    rng = ctx.rng('records')
    n = ctx.n(2000, 50000)
    c_to, c_parse, c_fix = [], [], []
    specs_all = []
    for i in range(n):
        kind = KINDS[i % len(KINDS)]
        spec = gen_record_spec(rng, kind, f'ENST{rng.randint(1, 30)}.{rng.randint(1, 3)}',
                               f'ENSG{rng.randint(1, 9)}', nonascii=rng.random() < 0.15)
        specs_all.append(spec)
        real = real_toline(spec)
        c_to.append((toline_protocol(spec), real, spec))
        if not real.startswith('ok:'):
            ctx.add_violation('a well-formed record cannot be written',
                              {'stream': 'toline', 'record': repr(spec), 'real': real})
            continue
        line = make_record(spec).to_string()
        c_parse.append((f'C13\tparse\t{esc(line)}', real_parse(line), line))
        rt = real_roundtrip(line)
        c_fix.append((f'C13\troundtrip\t{esc(line)}', rt, line))
        if rt != 'ok:' + esc(line):
            ctx.add_violation('GVF text is not a fix-point of write -> parse -> write',
                              {'stream': 'fixpoint', 'record': repr(spec), 'line': line,
                               'rewritten': rt})
    dspec = lambda o: {'record': repr(o)}   # noqa: E731
    dline = lambda o: {'line': o}           # noqa: E731
    ok = lambda o: True                     # noqa: E731
    ctx.diff_stream('toline', c_to, False, dspec, ok)
    ctx.diff_stream('parse', c_parse, False, dline, ok)
    ctx.diff_stream('fixpoint', c_fix, True, dline, ok,
                    'write -> parse -> write differs from the proved identity')
    # file level: seqvar.io.write -> parse -> write gives the same record text
    rng = ctx.rng('filefix')
    for i in range(ctx.n(40, 400)):
        k = rng.randint(1, 40)
        specs = [specs_all[rng.randrange(len(specs_all))] for _ in range(k)]
        p1, p2 = os.path.join(tmp, 'fx1.gvf'), os.path.join(tmp, 'fx2.gvf')
        try:
            write_gvf(p1, specs, False)
            recs = list(sio.parse(p1))
            sio.write(recs, p2, metadata(False))
        except Exception as e:   # noqa
            real_crash(ctx, 'filefix', e, {'records': [repr(x) for x in specs]})
            continue
        body = lambda p: [ln for ln in open(p, encoding='utf-8').read().split('\n')   # noqa: E731
                          if not ln.startswith('##')]
        b1, b2 = body(p1), body(p2)
        ctx.evaluated('filefix', f'{i}', True, {'records': k})
        if b1 != b2 or len(recs) != k:
            bad = next((j for j, (a, b) in enumerate(zip(b1, b2)) if a != b), None)
            ctx.add_violation('seqvar.io.write -> parse -> write changes the GVF text',
                              {'stream': 'filefix', 'records': [repr(s) for s in specs],
                               'first_diff_line': bad})

    # malformed
    rng = ctx.rng('malformed')
    c_to, c_parse, c_rt = [], [], []
    for i in range(ctx.n(1500, 30000)):
        spec = specs_all[rng.randrange(len(specs_all))]
        if i % 3 == 0:
            ms = mutate_spec(rng, spec)
            c_to.append((toline_protocol(ms), real_toline(ms), ms))
        else:
            base = make_record(spec).to_string()
            if any(ord(c) > 127 for c in base):
                continue
            ml = mutate_line(rng, base)
            c_parse.append((f'C13\tparse\t{esc(ml)}', real_parse(ml), ml))
            c_rt.append((f'C13\troundtrip\t{esc(ml)}', real_roundtrip(ml), ml))
    ctx.diff_stream('toline_malformed', c_to, False, dspec, ok)
    ctx.diff_stream('parse_malformed', c_parse, False, dline, ok)
    ctx.diff_stream('roundtrip_malformed', c_rt, False, dline, ok)

    # ---- circRNA
    rng = ctx.rng('circ')
    c_to, c_parse, c_fix, c_mal = [], [], [], []
    circ_specs = []
    for i in range(ctx.n(800, 15000)):
        spec = gen_circ_spec(rng, f'ENST{rng.randint(1, 30)}.1', f'ENSG{rng.randint(1, 9)}',
                             nonascii=rng.random() < 0.15)
        circ_specs.append(spec)
        try:
            line = make_circ(spec).to_string()
            real = 'ok:' + esc(line)
        except Exception as e:   # noqa
            real = exc_class(e)
        c_to.append((circ_protocol(spec), real, spec))
        if not real.startswith('ok:'):
            ctx.add_violation('a well-formed circRNA record cannot be written',
                              {'stream': 'circline', 'record': repr(spec), 'real': real})
            continue
        c_parse.append((f'C13\tcircparse\t{esc(line)}', real_circ_parse(line), line))
        rt = real_circ_roundtrip(line)
        c_fix.append((f'C13\tcircroundtrip\t{esc(line)}', rt, line))
        if rt != 'ok:' + esc(line):
            # the known defect: reader key != writer key, and the only change is that the
            # genomic position is blank after the round trip
            blank = line[:line.rfind('=') + 1]
            known = (not keys_agree) and spec[6] != '' and rt == 'ok:' + esc(blank)
            ctx.add_violation(
                'circRNA GVF text is not a fix-point of write -> parse -> write',
                {'stream': 'circfix', 'record': repr(spec), 'line': line, 'rewritten': rt},
                finding_key=FINDING_CIRC if known else None)
        if all(ord(c) < 128 for c in line) and i % 2 == 0:
            ml = mutate_circ_line(rng, line)
            c_mal.append((f'C13\tcircparse\t{esc(ml)}', real_circ_parse(ml), ml))
    ctx.diff_stream('circline', c_to, False, dspec, ok)
    ctx.diff_stream('circparse', c_parse, False, dline, ok)
    # the model uses the keys the translator read from the source: it follows the code as it
    # is; with agreeing keys its round trip is the proved identity (observable)
    ctx.diff_stream('circfix', c_fix, keys_agree, dline, ok,
                    'circRNA write -> parse -> write differs from the proved identity')
    ctx.diff_stream('circparse_malformed', c_mal, False, dline, ok)

    # ---- index / idxtext / pool
    rng = ctx.rng('files')
    c_index, c_idx, c_pool, c_scan = [], [], [], []
    nscen = ctx.n(120, 1500)
    for sc in range(nscen):
        try:
            _file_scenario(ctx, tmp, rng, sc, c_index, c_idx, c_pool, c_scan)
        except Exception as e:   # noqa
            real_crash(ctx, 'pool', e, {'scenario': sc})
    dfile = lambda o: o   # noqa: E731
    nonempty = lambda o: o not in ('ok:', 'crash:KeyError')   # noqa: E731
    ctx.diff_stream('index', c_index, False, dfile, nonempty)
    ctx.diff_stream('idxtext', c_idx, False, dfile, nonempty)
    ctx.diff_stream('pool', c_pool, True, dfile, nonempty,
                    'VariantRecordPoolOnDisk pointers reach other records than the proved model')
    ctx.diff_stream('scan', c_scan, False, dfile, nonempty)

    run_stale(ctx, tmp)
    run_getitem(ctx, tmp)


def _file_scenario(ctx, tmp, rng, sc, c_index, c_idx, c_pool, c_scan):
    if True:
        nfiles = rng.randint(1, 4)
        circ_pool = rng.random() < 0.25
        ascii_only = rng.random() < 0.8
        ntx = rng.randint(1, 6)
        txs = [f'ENST{j + 1}.{rng.randint(1, 2)}' for j in range(ntx)]
        paths, all_specs = [], []
        for fi in range(nfiles):
            by_tx = {}
            for t in txs:
                if rng.random() < 0.75:
                    cnt = rng.choice([1, 1, 2, 3, 6])
                    if circ_pool:
                        by_tx[t] = [gen_circ_spec(rng, t, f'ENSG{rng.randint(1, 4)}',
                                                  nonascii=not ascii_only) for _ in range(cnt)]
                    else:
                        by_tx[t] = [gen_record_spec(rng, rng.choice(KINDS), t,
                                                    f'ENSG{rng.randint(1, 4)}',
                                                    nonascii=not ascii_only) for _ in range(cnt)]
            if rng.random() < 0.2 and by_tx:   # exact duplicates of a record (set() later)
                t0 = rng.choice(list(by_tx))
                by_tx[t0].append(by_tx[t0][0])
            specs = arrange(rng, by_tx)
            p = os.path.join(tmp, f's{sc}_f{fi}.gvf')
            write_gvf(p, specs, circ_pool)
            paths.append(p)
            all_specs += specs
            if rng.random() < 0.5:
                real_index(p)
        describe = {'files': [open(p, encoding='utf-8').read() for p in paths],
                    'idx': [os.path.exists(p + '.idx') for p in paths], 'circ': circ_pool}
        is_ascii = all(all(ord(c) < 128 for c in f) for f in describe['files'])
        # pointers of each single file
        from moPepGen.seqvar.GVFIndex import iterate_pointer
        for p in paths:
            with open(p, 'rb') as fh:
                try:
                    ptrs = list(iterate_pointer(fh, circ_pool))
                    real = 'ok:' + esc(US.join(x for q in ptrs
                                               for x in (q.key, str(q.start), str(q.end))))
                except Exception as e:   # noqa
                    real = exc_class(e)
            content = open(p, 'rb').read().decode('utf-8')
            if is_ascii:
                c_index.append((f'C13\tindex\t{int(circ_pool)}\t{esc(content)}', real,
                                {'file': content}))
                if os.path.exists(p + '.idx'):
                    c_idx.append((f'C13\tidxtext\t{int(circ_pool)}\t{sha512(p)}\t{esc(content)}',
                                  'ok:' + esc(open(p + '.idx').read()), {'file': content}))
        query = txs + ['ENST_ABSENT']
        res, keys = real_pool(paths, query)
        expect_keys = []
        for s in all_specs:
            t = tx_of_spec(s, circ_pool)
            if t not in expect_keys:
                expect_keys.append(t)
        if keys is not None and sorted(keys) != sorted(expect_keys):
            ctx.add_violation('the transcripts known to the pool differ from those in the files',
                              dict(describe, pool_keys=sorted(keys), file_keys=sorted(expect_keys)))
        for t in query:
            lin = real_scan(paths, t)
            lin_c = 'ok:' + esc(US.join(r.to_string() for r in lin)) if lin else 'crash:KeyError'
            got = res[t]
            ctx.evaluated('pool_direct', f'{sc}|{t}', bool(lin), dict(describe, tx=t)
                          if sc < 2 else None)
            if got != lin_c:
                # multiset comparison as the property states it
                same_multiset = got.startswith('ok:') and lin_c.startswith('ok:') and \
                    sorted(got[3:].split(US)) == sorted(lin_c[3:].split(US))
                ctx.add_violation(
                    'records reached through the byte-offset index differ from the linear scan'
                    + (' (order only)' if same_multiset else ''),
                    dict(describe, tx=t, via_index=got, linear_scan=lin_c))
            if is_ascii:
                c_pool.append((pool_protocol('pool', [circ_pool], t, paths), got,
                               dict(describe, tx=t)))
                c_scan.append((pool_protocol('scan', [circ_pool], t, paths),
                               lin_c if lin else 'ok:', dict(describe, tx=t)))


# ------------------------------------------------------------ stale histories
EDITS = ['append', 'delete', 'byte', 'reorder', 'drop_checksum', 'damage_checksum',
         'noop', 'reindex', 'truncate_idx', 'swap_idx', 'header_edit']


def run_stale(ctx, tmp):
    rng = ctx.rng('stale')
    cases = []
    for sc in range(ctx.n(150, 2000)):
        try:
            _stale_scenario(ctx, tmp, rng, sc, cases)
        except Exception as e:   # noqa
            real_crash(ctx, 'stale', e, {'scenario': sc})
    ctx.diff_stream('stale', cases, True, lambda o: o, lambda o: True,
                    'index validation differs from the proved model')


def _stale_scenario(ctx, tmp, rng, sc, cases):
    if True:
        circ = rng.random() < 0.2
        txs = [f'ENST{j + 1}.1' for j in range(rng.randint(1, 4))]
        by_tx = {t: [(gen_circ_spec(rng, t, 'ENSG1') if circ else
                      gen_record_spec(rng, rng.choice(KINDS), t, 'ENSG1'))
                     for _ in range(rng.randint(1, 3))] for t in txs}
        specs = arrange(rng, by_tx)
        p = os.path.join(tmp, f'st{sc}.gvf')
        write_gvf(p, specs, circ)
        real_index(p)
        before = open(p, 'rb').read()
        edit = EDITS[sc % len(EDITS)]
        lines = before.decode().split('\n')[:-1]
        hdr = [ln for ln in lines if ln.startswith('#')]
        body = [ln for ln in lines if not ln.startswith('#')]
        idx_path = p + '.idx'
        if edit == 'append':
            extra = (make_circ(gen_circ_spec(rng, txs[0], 'ENSG1')).to_string() if circ else
                     make_record(gen_record_spec(rng, 'SNV', txs[0], 'ENSG1')).to_string())
            body.append(extra)
        elif edit == 'delete':
            del body[rng.randrange(len(body))]
        elif edit == 'byte':
            j = rng.randrange(len(body))
            f = body[j].split('\t')
            f[2] = f[2] + 'x' if rng.random() < 0.5 else ('y' + f[2][1:] if f[2] else 'y')
            body[j] = '\t'.join(f)
        elif edit == 'reorder':
            if len(body) > 1:
                a, b = rng.sample(range(len(body)), 2)
                body[a], body[b] = body[b], body[a]
            else:
                body = body + body
        elif edit == 'header_edit':
            hdr[2] = hdr[2] + 'X'
        new = ('\n'.join(hdr + body) + '\n').encode()
        if edit in ('append', 'delete', 'byte', 'reorder', 'header_edit'):
            with open(p, 'wb') as fh:
                fh.write(new)
        elif edit == 'noop':
            with open(p, 'wb') as fh:
                fh.write(before)
        elif edit == 'reindex':
            body.append(body[0])
            with open(p, 'wb') as fh:
                fh.write(('\n'.join(hdr + body) + '\n').encode())
            real_index(p)
        elif edit == 'drop_checksum':
            il = open(idx_path).read().split('\n')
            open(idx_path, 'w').write('\n'.join(il[1:]))
        elif edit == 'damage_checksum':
            il = open(idx_path).read().split('\n')
            il[0] = rng.choice(['# CHECKSUM', '# checksum=' + il[0][11:], '#', 'CHECKSUM=' + il[0][11:],
                                '# comment\n' + il[0], '# CHECKSUM=' + il[0][11:-1] + 'g',
                                '#CHECKSUM=' + il[0][11:], '##  CHECKSUM=' + il[0][11:] + '  '])
            open(idx_path, 'w').write('\n'.join(il))
        elif edit == 'truncate_idx':
            open(idx_path, 'w').write('')
        elif edit == 'swap_idx':
            # the .idx of another (different) file
            q = os.path.join(tmp, f'st{sc}_other.gvf')
            write_gvf(q, specs + specs[:1], circ)
            real_index(q)
            shutil.copy(q + '.idx', idx_path)
        after = open(p, 'rb').read()
        stale = after != before
        res, _ = real_pool([p], [txs[0]])
        got = res[txs[0]]
        d = {'edit': edit, 'gvf_before': before.decode(), 'gvf_after': after.decode(),
             'idx': open(idx_path).read(), 'tx': txs[0]}
        ctx.evaluated('stale_direct', f'{sc}', True, d if sc < 2 else None)
        must_reject = (stale and edit != 'reindex') or edit in ('drop_checksum', 'truncate_idx',
                                                                'swap_idx')
        if must_reject and not got.startswith('reject:'):
            ctx.add_violation('an .idx that does not correspond to the GVF content is accepted', d)
        if edit in ('noop', 'reindex') and got.startswith('reject:'):
            ctx.add_violation('an .idx that corresponds to the GVF content is rejected', d)
        cases.append((pool_protocol('pool', [circ], txs[0], [p]), got, d))


# --------------------------------------------------- full __getitem__ with anno
def run_getitem(ctx, tmp):
    """VariantRecordPoolOnDisk[tx] through the index vs the same __getitem__ fed with the
    records of a linear scan, on the test annotation of the repository."""
    from moPepGen.seqvar.VariantRecordPoolOnDisk import (VariantRecordPoolOnDisk,
                                                         VariantRecordPoolOnDiskOpener)
    from moPepGen import gtf, dna
    files = os.path.join(common.REPO, 'test', 'files')
    try:
        anno = gtf.GenomicAnnotation()
        anno.dump_gtf(os.path.join(files, 'annotation.gtf'))
        genome = dna.DNASeqDict()
        genome.dump_fasta(os.path.join(files, 'genome.fasta'))
    except Exception as e:   # noqa
        ctx.notes.append(f'getitem stream skipped: cannot load test annotation ({type(e).__name__})')
        return
    rng = ctx.rng('getitem')
    coding = [t for t, m in anno.transcripts.items()]
    ser = lambda s: {   # noqa: E731
        'transcriptional': [r.to_string() for r in s.transcriptional],
        'intronic': [r.to_string() for r in s.intronic],
        'fusion': [r.to_string() for r in s.fusion],
        'circ_rna': sorted(r.to_string() for r in s.circ_rna)}

    class ScanPointer:
        def __init__(self, recs):
            self.recs = recs

        def load(self):
            return list(self.recs)

    def other_genes(gid):
        return [t for t, m in anno.transcripts.items() if m.transcript.gene_id != gid]

    def access(pl, t):
        try:
            return ser(pl[t])
        except Exception as e:   # noqa  (an invalid record is rejected the same way on both routes)
            return ('raised', type(e).__name__, str(e)[:120])
    nfus = [0]
    for sc in range(ctx.n(60, 600)):
        nfiles = rng.randint(1, 3)
        txs = rng.sample(coding, min(len(coding), rng.randint(1, 4)))
        paths = []
        for fi in range(nfiles):
            circ = rng.random() < 0.25
            by_tx = {}
            for t in txs:
                if rng.random() < 0.8:
                    model = anno.transcripts[t]
                    gene_id = model.transcript.gene_id
                    gene = anno.genes[gene_id]
                    gene_seq = gene.get_gene_sequence(genome[gene.chrom])
                    glen = len(gene_seq)
                    out = []
                    for _ in range(rng.randint(1, 4)):
                        if circ:
                            s0 = rng.randint(0, max(0, glen - 40))
                            out.append((gene_id, [(s0, s0 + 10), (s0 + 20, s0 + 30)], [],
                                        f'CIRC-{t}-{s0}', t, 'SYM', ''))
                        elif rng.random() < 0.3 and len(other_genes(gene_id)) > 0:
                            # a Fusion record; breakpoints anywhere in the two genes (exonic or
                            # intronic: the accessor shifts intronic breakpoints to the closest
                            # exon and keeps the intronic stretch as an insertion)
                            st = rng.randint(1, max(1, glen - 10))
                            ref = str(gene_seq.seq[st])
                            t2 = rng.choice(other_genes(gene_id))
                            g2 = anno.transcripts[t2].transcript.gene_id
                            g2len = len(anno.genes[g2].location)
                            ap = rng.randint(1, max(1, g2len - 10))
                            out.append((gene_id, st, st + 1, ref, '<FUSION>', 'Fusion',
                                        f'FUSION-{t}:{st}-{t2}:{ap}',
                                        {'TRANSCRIPT_ID': t, 'GENE_SYMBOL': 'S',
                                         'GENOMIC_POSITION': f'chr1:{st}',
                                         'ACCEPTER_GENE_ID': g2, 'ACCEPTER_TRANSCRIPT_ID': t2,
                                         'ACCEPTER_SYMBOL': 'S2', 'ACCEPTER_POSITION': ap,
                                         'ACCEPTER_GENOMIC_POSITION': f'chr1:{ap}'}))
                            nfus[0] += 1
                        else:
                            st = rng.randint(1, max(1, glen - 10))
                            ref = str(gene_seq.seq[st])
                            if rng.random() < 0.7:
                                alt = rng.choice([c for c in 'ACGT' if c != ref])
                                kind = 'SNV'
                            else:
                                alt = ref + gen_seq(rng, rng.randint(1, 3))
                                kind = 'INDEL'
                            out.append((gene_id, st, st + 1, ref, alt, kind,
                                        f'{kind}-{st + 1}-{ref}-{alt}',
                                        {'TRANSCRIPT_ID': t, 'GENE_SYMBOL': 'S',
                                         'GENOMIC_POSITION': f'chr1:{st}'}))
                    by_tx[t] = out
            p = os.path.join(tmp, f'g{sc}_f{fi}.gvf')
            write_gvf(p, arrange(rng, by_tx), circ)
            paths.append(p)
            if rng.random() < 0.5:
                real_index(p)
        pool = VariantRecordPoolOnDisk(gvf_files=[Path(p) for p in paths], anno=anno,
                                       genome=genome)
        d = {'files': [open(p).read() for p in paths],
             'idx': [os.path.exists(p + '.idx') for p in paths]}
        try:
            with VariantRecordPoolOnDiskOpener(pool):
                # every transcript is visited one to three times in a shuffled order: a later
                # visit must give what the first one gave (= the accessor over a fresh linear scan)
                visits = [t for t in txs for _ in range(rng.randint(1, 3))]
                rng.shuffle(visits)
                seen = set()
                for t in visits:
                    lin = real_scan(paths, t)
                    if not lin:
                        if t in pool:
                            ctx.add_violation('pool knows a transcript that no file contains',
                                              dict(d, tx=t))
                        continue
                    via = access(pool, t)
                    ref_pool = VariantRecordPoolOnDisk(pointers={t: [ScanPointer(lin)]},
                                                       anno=anno, genome=genome)
                    exp = access(ref_pool, t)
                    ctx.evaluated('getitem_direct', f'{sc}|{t}|{t in seen}', True,
                                  dict(d, tx=t) if sc < 1 else None)
                    if t in seen:
                        ctx.count('getitem_direct', 'repeated_visits')
                    if via != exp:
                        ctx.add_violation(
                            'VariantRecordPoolOnDisk[tx] through the index differs from the '
                            'same accessor over a linear scan' +
                            (' on a REPEATED visit of the transcript' if t in seen else ''),
                            dict(d, tx=t, via_index=via, linear_scan=exp, visits=visits))
                    seen.add(t)
        except Exception as e:   # noqa
            ctx.add_broken('correspondence', 'getitem',
                           f'{type(e).__name__}: {e} on {json.dumps(d)[:1500]}')
            return
