"""Fusion and circRNA backbones for the callVariant differential: the harness assembles the
backbone sequence from the GVF record fields with the annotation API (its own reading of the
documented semantics), maps the small records onto it and lets the Lean definition
`Spec.callBackbone` enumerate; the union with the ordinary per-transcript sets must equal the
real FASTA."""
from __future__ import annotations
import random
from pathlib import Path
import shutil
import traceback
from typing import Dict, List, Optional, Set

from . import common, gen_ref, pipe, cv_explore
from .cv_explore import CLS, as_var, gene_seq_of, resolve_exc, tx_fields, cleave_fields


def load_pool(case, anno, genome):
    from moPepGen import seqvar
    pool = seqvar.VariantRecordPool()
    pool.anno = anno
    for path in case.gvfs:
        with open(path) as handle:
            pool.load_variants(handle=handle, anno=anno, genome=genome)
    return pool


def tx_dict(anno, genome, tx_id, variants):
    tx_model = anno.transcripts[tx_id]
    tx_seq = tx_model.get_transcript_sequence(genome[tx_model.transcript.chrom])
    gs = gene_seq_of(anno, genome, tx_model)
    return {
        'seq': str(tx_seq.seq), 'coding': bool(tx_model.is_protein_coding),
        'orf': (int(tx_seq.orf.start), int(tx_seq.orf.end)) if tx_seq.orf else None,
        'start_nf': tx_model.is_cds_start_nf(), 'end_nf': tx_model.is_mrna_end_nf(),
        'sec': [int(s.start) for s in tx_seq.selenocysteine],
        'vars': [as_var(v, tx_seq, gs) for v in variants],
    }, tx_seq, gs


def var_field(vars_, idmap):
    out = []
    for (s, e, r, a, t, vid) in vars_:
        if t not in CLS:
            return None
        out.append(f'{s}:{e}:{r}:{a}:{CLS[t]}:{cv_explore.vid_field(vid, idmap)}')
    return ';'.join(out)


def main_line(tx, kw, canon, idmap, exc):
    vf = var_field(tx['vars'], idmap)
    if vf is None:
        return None
    return '\t'.join(['S', 'cv'] + tx_fields(tx) + [vf] + cleave_fields(kw, exc) + [
        '1' if kw['selenocysteine_termination'] else '0', '1' if kw['w2f_reassignment'] else '0',
        ','.join(sorted(canon))])


def ref_line(tx, kw, exc, sect, w2f):
    return '\t'.join(['S', 'ref'] + tx_fields(tx) + cleave_fields(kw, exc) +
                     ['1' if sect else '0', '1' if w2f else '0'])


# position of the record list in a `cvb` protocol line (['S', 'cvb'] + 7 transcript fields + limit + flag)
CVB_VARS_AT = 11


def fusion_backbone(out, desc, anno, genome, pool, donor, acc, tdicts, kw, canon, idmap, exc, lines):
    """fills out['cvb'] / out['canon'] (+ the donor 'ref' line) for the ONE fusion donor -> acc;
    returns False when the case cannot be evaluated"""
    # the fusion backbone
    dser = pool[donor]
    if len(dser.fusion) != 1:
        out['stats']['fusion_not_loaded'] = 1
        return False
    fz = dser.fusion[0]
    dd, dseq, dgs = tdicts[donor] if donor in tdicts else tx_dict(anno, genome, donor, [])
    am = anno.transcripts[acc]
    aseq = am.get_transcript_sequence(genome[am.transcript.chrom])
    ags = gene_seq_of(anno, genome, am)
    bp = int(fz.location.start)
    orf_start = (dd['orf'][0] if dd['orf'] else 0) + 3
    desc.update(breakpoint_tx=bp, donor_orf=dd['orf'], donor_coding=dd['coding'], donor_sec=list(dd['sec']))
    out['stats']['coding_donor' if dd['coding'] else 'noncoding_donor'] = 1
    skip_fusion = bp < orf_start
    if skip_fusion:
        out['stats']['fusion_before_start'] = 1
    lis, lie = fz.attrs.get('LEFT_INSERTION_START'), fz.attrs.get('LEFT_INSERTION_END')
    ris, rie = fz.attrs.get('RIGHT_INSERTION_START'), fz.attrs.get('RIGHT_INSERTION_END')
    lins = dgs[int(lis):int(lie)] if lis is not None else ''
    rins = ags[int(ris):int(rie)] if ris is not None else ''
    if lins or rins:
        out['stats']['intronic_breakpoint'] = 1
        desc.update(left_insertion=[int(lis), int(lie)] if lis is not None else None,
                    right_insertion=[int(ris), int(rie)] if ris is not None else None)
    abp = anno.coordinate_gene_to_transcript(fz.get_accepter_position(), am.transcript.gene_id, acc)
    back = dd['seq'][:bp] + lins + rins + str(aseq.seq)[abp:]
    shift = bp + len(lins) + len(rins) - abp
    bvars = [v for v in dd['vars'] if v[1] < bp]
    # small records INSIDE a retained intronic stretch (gene coordinates of the donor / accepter gene,
    # strand-aware like the stretch itself): gene position g of the left stretch is backbone position
    # bp + (g - LEFT_INSERTION_START), of the right stretch bp + |left| + (g - RIGHT_INSERTION_START).
    # The command applies a record there when it lies strictly inside the stretch (first and last base
    # of the stretch excluded: filter_variants, start > lo and end < hi); the generator keeps 2 nt away
    # from both ends; an input with a record nearer to / across an end is counted and NOT judged.
    n_in = n_fs = 0
    fs_ids = {'left': [], 'right': []}
    for side, tx_id, lo, hi, off in (('left', donor, lis, lie, bp), ('right', acc, ris, rie, bp + len(lins))):
        if lo is None or tx_id not in pool.data:
            continue
        lo, hi = int(lo), int(hi)
        for w in pool[tx_id].intronic:
            a, b = int(w.location.start), int(w.location.end)
            if b <= lo or hi <= a:
                continue
            if w.type not in ('SNV', 'INDEL', 'RNAEditingSite'):
                out['stats']['unsupported_type'] = 1
                return False
            if not (lo < a and b < hi):
                out['stats']['record_on_edge_of_retained_stretch'] = 1
                return False
            bvars.append((off + a - lo, off + b - lo, str(w.ref), str(w.alt), w.type, w.id))
            n_in += 1
            if (len(str(w.alt)) - len(str(w.ref))) % 3:
                n_fs += 1
                fs_ids[side].append(w.id)
    if n_in:
        out['stats']['with_records_in_retained_stretch'] = 1
        out['stats']['records_in_retained_stretch'] = n_in
        out['stats']['frameshifting_in_retained_stretch'] = n_fs
        desc.update(retained_stretch_records=n_in, retained_stretch_frameshifts=n_fs)
    if acc in pool.data:
        agsq = ags
        for v in pool[acc].transcriptional:
            av = as_var(v, aseq, agsq)
            if av[0] > abp:
                bvars.append((av[0] + shift, av[1] + shift, av[2], av[3], av[4], av[5]))
    # structural signature of the open finding frameshifts-in-both-retained-stretches-of-fusion: a
    # frameshifting record in the LEFT stretch and a frameshifting record in the RIGHT stretch
    # (`behind`: the records at or behind the first of the latter)
    if fs_ids['left'] and fs_ids['right']:
        first_r = min(v[0] for v in bvars if v[5] in fs_ids['right'])
        out['stats']['frameshifts_in_both_retained_stretches'] = 1
        out['both_fs'] = {
            'left_fs': list(fs_ids['left']), 'right_fs': list(fs_ids['right']),
            'behind': [v[5] for v in bvars if v[0] >= first_r],
            'vf_no_left_fs': var_field([v for v in bvars if v[5] not in fs_ids['left']], idmap),
            'vf_no_right_fs': var_field([v for v in bvars if v[5] not in fs_ids['right']], idmap)}
        desc.update(frameshifts_in_both_retained_stretches={k: out['both_fs'][k]
                                                            for k in ('left_fs', 'right_fs', 'behind')})
    if any(v[4] in ('Insertion', 'Deletion', 'Substitution') for v in bvars):
        out['stats']['as_with_fusion'] = 1
        return False
    btx = {'seq': back, 'coding': dd['coding'], 'orf': dd['orf'], 'start_nf': dd['start_nf'],
           'end_nf': am.is_mrna_end_nf(), 'sec': [s for s in dd['sec'] if s + 3 <= bp],
           'vars': bvars}
    if not skip_fusion:
        vf = var_field(bvars, idmap)
        lim = str(bp + len(lins) + len(rins))
        lines.append(('ref', ref_line(dd, kw, exc, kw['selenocysteine_termination'],
                                      kw['w2f_reassignment'])))
        out['cvb'] = ['S', 'cvb'] + tx_fields(btx) + [lim, '1', vf] + cleave_fields(kw, exc) + \
            ['0', '1' if kw['w2f_reassignment'] else '0']
        assert out['cvb'][CVB_VARS_AT] == vf
        out['canon'] = ','.join(sorted(canon))
    return True


def retained_stretch_records(out, anno, genome, rng, fus, donor, acc, recs):
    """fusions with an INTRONIC donor / accepter breakpoint keep the intronic stretch between the exon
    and the breakpoint (LEFT_INSERTION_* / RIGHT_INSERTION_*), and small records inside it are applied
    there.  70 % of the fusions get their breakpoint(s) moved into an intron, 8-45 nt from the exon (a
    SHORT stretch: the donor frame usually reads through it); an input with a retained stretch gets,
    with probability 0.6, 1-3 SNV / insertion / deletion records INSIDE the stretch (>= 2 nt from both
    of its ends, mostly close to the accepter side so that a shifted frame reaches the accepter), and in
    half of those cases one more record on the accepter right behind the breakpoint.  Appends to `recs`,
    returns the fusion record to use."""
    st = out['stats']
    if rng.random() < 0.7:
        side = rng.choice(['donor', 'donor', 'donor', 'acc', 'both'])
        try:
            # the other side stays as moPepGen.fake drew it when its breakpoint is exonic or its
            # retained stretch is short as well; a long stretch there is shortened too
            l0, l1, r0, r1, _a = gen_ref.fusion_insertions(anno, fus)
            f2 = gen_ref.intronic_fusion(
                anno, genome, fus, rng,
                side in ('donor', 'both') or (l0 is not None and int(l1) - int(l0) > 45),
                side in ('acc', 'both') or (r0 is not None and int(r1) - int(r0) > 45))
        except Exception:   # noqa
            f2 = None
        if f2 is not None:
            fus = f2
            st['short_retained_stretch'] = 1
    try:
        lis, lie, ris, rie, apos = gen_ref.fusion_insertions(anno, fus)
    except Exception:   # noqa
        return fus
    if lis is not None:
        st['intronic_donor_breakpoint'] = 1
    if ris is not None:
        st['intronic_accepter_breakpoint'] = 1
    ranges = []
    if lis is not None:
        ranges.append((donor, int(lis), int(lie)))
    if ris is not None:
        ranges.append((acc, int(ris), int(rie)))
    if not ranges or rng.random() >= 0.6:
        return fus
    seen = {r.id for r in recs}
    share = [0] * len(ranges)
    for _ in range(rng.randint(1, 3)):
        share[rng.randrange(len(ranges))] += 1
    n_new, new = 0, []
    for (tx, lo, hi), n in zip(ranges, share):
        if not n:
            continue
        tail = rng.choice([8, 8, 12, 16, 24, None])
        for rec in gen_ref.stretch_variants(anno, genome, tx, lo, hi, rng, n, margin=2, tail=tail):
            if rec.id not in seen:
                seen.add(rec.id)
                recs.append(rec)
                new.append(rec)
                n_new += 1
    if not n_new:
        return fus
    st['gen_inputs_with_records_in_retained_stretch'] = 1
    st['gen_records_in_retained_stretch'] = n_new
    if any(anno.transcripts[r.attrs['TRANSCRIPT_ID']].transcript.strand == -1 for r in new):
        st['gen_stretch_records_on_minus_strand_gene'] = 1
    if rng.random() < 0.5:
        # a record on the accepter right behind the breakpoint: its peptides need the fusion, and
        # - read in a shifted frame - the frameshifting record of the stretch as well (one is added
        # to the stretch next to the accepter when none of the records drawn above shifts the frame)
        if not any((len(r.alt) - len(r.ref)) % 3 for r in new) and len(new) < 3:
            tx, lo, hi = ranges[-1]
            for rec in gen_ref.stretch_variants(
                    anno, genome, tx, lo, hi, rng, 1, margin=2, tail=rng.choice([8, 12, 16]),
                    kinds=('INS', 'DEL'), sizes=(1, 2),
                    used=[(int(r.location.start), int(r.location.end)) for r in new
                          if r.attrs['TRANSCRIPT_ID'] == tx]):
                if rec.id not in seen:
                    seen.add(rec.id)
                    recs.append(rec)
                    new.append(rec)
                    n_new += 1
            st['gen_records_in_retained_stretch'] = n_new
        try:
            agid = anno.transcripts[acc].transcript.gene_id
            abp = anno.coordinate_gene_to_transcript(int(apos), agid, acc)
            rec = gen_ref.small_variant(anno, genome, acc, abp + rng.randint(1, 9),
                                        rng.choice(['SNV', 'SNV', 'INS', 'DEL']), rng.randint(1, 3), rng)
        except Exception:   # noqa
            rec = None
        if rec is not None and rec.id not in seen:
            recs.append(rec)
            st['gen_accepter_record_behind_breakpoint'] = 1
    return fus


def fusion_worker(job):
    """two genes, small records on both, ONE fusion donor -> acceptor (+ records inside the intronic
    stretch a fusion with an intronic breakpoint retains, see `retained_stretch_records`)"""
    seed, tier, opts = job
    rng = random.Random(seed)
    out = {'stats': {}, 'seed': seed}
    case = gen_ref.Case(gen_ref.work_dir('fus'))
    try:
        with gen_ref.quiet():
            if rng.random() < 0.4:
                # donor and acceptor on different chromosomes
                gen_ref.make_reference_two_chrom(case, seed)
                out['stats']['two_chromosomes'] = 1
            else:
                gen_ref.make_reference(case, seed, 2)
            genome, anno, _ = gen_ref.load_reference(case)
            txs = list(anno.transcripts.keys())
            donor, acc = (txs[0], txs[1]) if rng.random() < 0.5 else (txs[1], txs[0])
            recs = []
            for tx_id in txs:
                recs += gen_ref.dense_variants(anno, genome, tx_id, rng, rng.randint(0, 3),
                                               max_size=4, window=60)
            import random as _r
            from moPepGen import fake
            fus = None
            for _ in range(20):
                _r.seed(rng.randrange(1 << 30))
                try:
                    f = fake.fake_fusion(anno, genome, donor)
                except Exception:   # noqa
                    continue
                if f.attrs['ACCEPTER_TRANSCRIPT_ID'] == acc:
                    fus = f
                    break
            if fus is None:
                out['stats']['no_fusion'] = 1
                return out
            fus = retained_stretch_records(out, anno, genome, rng, fus, donor, acc, recs)
            recs.append(fus)
            gen_ref.write_gvfs(case, recs)
        kw = cv_explore.default_kw(rng, True, opts.get('exception'))
        canon = pipe.model_canonical_pool(case, **kw)
        run = gen_ref.run_call_variant(case, tag='cv', **kw)
        desc = {'seed': seed, 'kw': kw, 'donor': donor, 'acceptor': acc, 'fusion': fus.id,
                'records': [r.id for r in recs if r is not fus]}
        out['desc'] = desc
        if run.status != 'ok':
            out['stats']['crash'] = 1
            out['crash'] = (run.status, run.error)
            return out
        pool = load_pool(case, anno, genome)
        exc = resolve_exc(kw)
        idmap: Dict[str, int] = {}
        lines = []          # (kind, line)
        # ordinary per-transcript sets
        tdicts = {}
        for tx_id in txs:
            if tx_id not in pool.data:
                continue
            series = pool[tx_id]
            d, tx_seq, gs = tx_dict(anno, genome, tx_id, series.transcriptional)
            tdicts[tx_id] = (d, tx_seq, gs)
            if series.transcriptional:
                ln = main_line(d, kw, canon, idmap, exc)
                if ln is None:
                    out['stats']['unsupported_type'] = 1
                    return out
                lines.append(('main', ln))
        if not fusion_backbone(out, desc, anno, genome, pool, donor, acc, tdicts, kw, canon, idmap, exc, lines):
            return out
        out['lines'] = lines
        out['real'] = sorted(run.fasta.keys())
        out['headers'] = {s: h for s, h in run.fasta.items()}
        out['stats']['runs'] = 1
        out['stats']['real_peptides'] = len(run.fasta)
        out['stats']['fusion_peptides'] = len([1 for h in run.fasta.values()
                                               if any('FUSION-' in x for x in h)])
        return out
    except Exception:   # noqa
        out['stats']['worker_error'] = 1
        out['error'] = traceback.format_exc()[-1500:]
        return out
    finally:
        case.cleanup()


def circ_backbone(out, desc, pool, tx_id, d, gs, kw, canon, idmap, exc):
    """fills out['cvc'] / out['canon'] for the ONE circRNA of transcript `tx_id`; returns False
    when the case cannot be evaluated"""
    series = pool[tx_id]
    if len(series.circ_rna) != 1:
        out['stats']['circ_not_loaded'] = 1
        return False
    cm = series.circ_rna[0]
    frags = sorted(cm.fragments, key=lambda f: int(f.location.start))
    out['stats']['ci' if cm.id.startswith('CI-') else 'circ'] = 1
    circ_seq = ''
    cvars = []
    usable_frags = [f for f in frags if len(f) > 3]
    for f in frags:
        fs, fe = int(f.location.start), int(f.location.end)
        off = len(circ_seq)
        circ_seq += gs[fs:fe]
    if usable_frags:
        # records of the transcript inside a fragment, in gene coordinates
        gvars = pool.filter_variants(tx_ids=[tx_id], exclude_type=['Insertion', 'Deletion',
                                                                    'Substitution'],
                                     intron=False, segments=[_shift3(f) for f in usable_frags])
        for v in sorted(gvars, key=lambda x: int(x.location.start)):
            s, e = int(v.location.start), int(v.location.end)
            off = 0
            for f in frags:
                fs, fe = int(f.location.start), int(f.location.end)
                if fs <= s and e <= fe:
                    cvars.append((off + s - fs, off + e - fs, str(v.ref), str(v.alt), v.type, v.id))
                    break
                off += fe - fs
    vf = var_field(cvars, idmap)
    if vf is None:
        out['stats']['unsupported_type'] = 1
        return False
    desc.update(circ_len=len(circ_seq), n_circ_vars=len(cvars), coding=d['coding'])
    out['stats']['with_vars_in_circ' if cvars else 'no_vars_in_circ'] = 1
    out['cvc'] = ['S', 'cvc', circ_seq, vf] + cleave_fields(kw, exc) + \
        ['1' if kw['w2f_reassignment'] else '0']
    out['canon'] = ','.join(sorted(canon))
    return True


def circ_worker(job):
    """one gene, small records, ONE circRNA of its transcript"""
    seed, tier, opts = job
    rng = random.Random(seed)
    out = {'stats': {}, 'seed': seed}
    case = gen_ref.Case(gen_ref.work_dir('circ'))
    try:
        with gen_ref.quiet():
            gen_ref.make_reference(case, seed, 1)
            genome, anno, _ = gen_ref.load_reference(case)
            tx_id = list(anno.transcripts.keys())[0]
            recs = gen_ref.dense_variants(anno, genome, tx_id, rng, rng.randint(0, 4),
                                          max_size=4, window=80)
            import random as _r
            from moPepGen import fake
            circ = None
            if rng.random() < 0.5:
                # a SHORT circle with records next to its start codons: peptides run through the
                # back-splice junction and through several passes
                try:
                    circ = gen_ref.small_circ(anno, tx_id, rng)
                except Exception:   # noqa
                    circ = None
                if circ is not None:
                    out['stats']['small_circ'] = 1
                    tm = anno.transcripts[tx_id]
                    tseq = str(tm.get_transcript_sequence(genome[tm.transcript.chrom]).seq)
                    # (records on the first bases of a fragment fall under the command's own +3 rule for
                    # circRNA fragments: kept away from the fragment ends)
                    pos = gen_ref.circ_positions(anno, tx_id, circ, margin=7)
                    atgs = [p_ for p_ in pos if tseq[p_:p_ + 3] == 'ATG']
                    seen = {r.id for r in recs}
                    for _ in range(rng.randint(1, 3)):
                        if not pos:
                            break
                        if atgs and rng.random() < 0.6:
                            p_ = rng.choice(atgs) + rng.choice([-6, -4, -3, -2, 3, 4, 5, 6, 8])
                        else:
                            p_ = rng.choice(pos)
                        if p_ not in pos:
                            continue
                        try:
                            rec = gen_ref.small_variant(anno, genome, tx_id, p_,
                                                        rng.choice(['SNV', 'INS', 'DEL', 'DEL']),
                                                        rng.choice([1, 1, 2, 3]), rng)
                        except Exception:   # noqa
                            rec = None
                        if rec is not None and rec.id not in seen:
                            seen.add(rec.id)
                            recs.append(rec)
            for _ in range(10):
                if circ is not None:
                    break
                _r.seed(rng.randrange(1 << 30))
                try:
                    circ = fake.fake_circ_rna_model(anno, tx_id, 0.25)
                    break
                except Exception:   # noqa
                    continue
            if circ is None:
                out['stats']['no_circ'] = 1
                return out
            recs.append(circ)
            gen_ref.write_gvfs(case, recs)
        kw = cv_explore.default_kw(rng, True, opts.get('exception'))
        kw['backsplicing_only'] = False
        canon = pipe.canonical_pool(case, **{k: v for k, v in kw.items() if k != 'backsplicing_only'})
        run = gen_ref.run_call_variant(case, tag='cv', **kw)
        desc = {'seed': seed, 'kw': kw, 'tx': tx_id, 'circ': circ.id}
        out['desc'] = desc
        if run.status != 'ok':
            out['stats']['crash'] = 1
            out['crash'] = (run.status, run.error)
            return out
        pool = load_pool(case, anno, genome)
        exc = resolve_exc(kw)
        idmap: Dict[str, int] = {}
        series = pool[tx_id]
        d, tx_seq, gs = tx_dict(anno, genome, tx_id, series.transcriptional)
        lines = []
        if series.transcriptional:
            lines.append(('main', main_line(d, kw, canon, idmap, exc)))
        lines.append(('ref', ref_line(d, kw, exc, kw['selenocysteine_termination'],
                                      kw['w2f_reassignment'])))
        if not circ_backbone(out, desc, pool, tx_id, d, gs, kw, canon, idmap, exc):
            return out
        out['lines'] = lines
        out['idmap'] = dict(idmap)
        out['circ_id'] = pool[tx_id].circ_rna[0].id
        out['real'] = sorted(run.fasta.keys())
        out['headers'] = {s: h for s, h in run.fasta.items()}
        out['stats']['runs'] = 1
        out['stats']['real_peptides'] = len(run.fasta)
        return out
    except Exception:   # noqa
        out['stats']['worker_error'] = 1
        out['error'] = traceback.format_exc()[-1500:]
        return out
    finally:
        case.cleanup()


def _shift3(frag):
    from moPepGen.SeqFeature import FeatureLocation, SeqFeature
    loc = FeatureLocation(start=int(frag.location.start) + 3, end=int(frag.location.end))
    return SeqFeature(chrom=frag.chrom, location=loc, attributes=frag.attributes)


def combo_worker(job):
    """two genes; small records on both; ONE fusion donor -> acceptor AND one circRNA of the
    donor, each in a GVF file of its own.  The real FASTA of the full run must equal the union
    of the per-transcript sets, the fusion backbone set and the circRNA set; the runs without
    the fusion file / without the circRNA file are kept for the C05 'adding a GVF file' clause."""
    seed, tier, opts = job
    rng = random.Random(seed)
    out = {'stats': {}, 'seed': seed}
    case = gen_ref.Case(gen_ref.work_dir('combo'))
    try:
        with gen_ref.quiet():
            gen_ref.make_reference(case, seed, 2)
            genome, anno, _ = gen_ref.load_reference(case)
            txs = list(anno.transcripts.keys())
            donor, acc = (txs[0], txs[1]) if rng.random() < 0.5 else (txs[1], txs[0])
            recs = []
            for tx_id in txs:
                recs += gen_ref.dense_variants(anno, genome, tx_id, rng,
                                               rng.randint(1, 4) if tx_id == donor else rng.randint(0, 2),
                                               max_size=4, window=200, edge_frac=0.0)
            import random as _r
            from moPepGen import fake
            fus = circ = None
            for _ in range(20):
                _r.seed(rng.randrange(1 << 30))
                try:
                    f = fake.fake_fusion(anno, genome, donor)
                except Exception:   # noqa
                    continue
                if f.attrs['ACCEPTER_TRANSCRIPT_ID'] == acc:
                    fus = f
                    break
            for _ in range(10):
                _r.seed(rng.randrange(1 << 30))
                try:
                    circ = fake.fake_circ_rna_model(anno, donor, 0.25)
                    break
                except Exception:   # noqa
                    continue
            if fus is None or circ is None:
                out['stats']['no_fusion_or_circ'] = 1
                return out
            # small records INSIDE the circRNA and DOWNSTREAM of the fusion breakpoint: the units of
            # one transcript (main, fusion, circRNA) then share records that only some of them use
            try:
                gid = anno.transcripts[donor].transcript.gene_id
                try:
                    bp_tx = anno.coordinate_gene_to_transcript(int(fus.location.start), gid, donor)
                except Exception:   # noqa  intronic breakpoint
                    bp_tx = 0
                cpos = []
                for frag in circ.fragments:
                    try:
                        a = anno.coordinate_gene_to_transcript(int(frag.location.start), gid, donor)
                        b = anno.coordinate_gene_to_transcript(int(frag.location.end) - 1, gid, donor) + 1
                    except Exception:   # noqa  intron fragment of a ciRNA
                        continue
                    cpos += list(range(a + 4, b - 1))
                down = [x for x in cpos if x > bp_tx + 1] or cpos
                seen = {r.id for r in recs}
                for _ in range(rng.randint(1, 3)):
                    if not down:
                        break
                    rec = gen_ref.small_variant(anno, genome, donor, rng.choice(down),
                                                rng.choice(['SNV', 'SNV', 'INS', 'DEL']), rng.randint(1, 3), rng)
                    if rec is not None and rec.id not in seen:
                        seen.add(rec.id)
                        recs.append(rec)
                        out['stats']['targeted_records'] = out['stats'].get('targeted_records', 0) + 1
            except Exception:   # noqa
                pass
            n_small = len(recs)
            allrecs = recs + [fus, circ]
            # write_gvfs puts circRNA records into a file of their own (the last one)
            gen_ref.write_gvfs(case, allrecs, layout=[list(range(n_small)), [n_small]])
            files = list(case.gvfs)
            if rng.random() < 0.5:
                # every GVF with the byte-offset index indexGVF writes next to it
                from .pipe_explore import index_gvf_files
                index_gvf_files(case, files)
                out['stats']['indexed_gvfs'] = 1
        kw = cv_explore.default_kw(rng, True, opts.get('exception'))
        kw['backsplicing_only'] = False
        canon = pipe.canonical_pool(case, **{k: v for k, v in kw.items() if k != 'backsplicing_only'})
        run = gen_ref.run_call_variant(case, tag='cv', **kw)
        desc = {'seed': seed, 'kw': kw, 'donor': donor, 'acceptor': acc, 'fusion': fus.id,
                'circ': circ.id, 'tx': donor}
        out['desc'] = desc
        if run.status != 'ok':
            out['stats']['crash'] = 1
            out['crash'] = (run.status, run.error)
            return out
        # runs without one of the two backbone files (the other records unchanged)
        fus_file = files[-2]
        circ_file = files[-1]
        sub = {}
        for name, drop in (('without_fusion_file', fus_file), ('without_circ_file', circ_file)):
            r2 = gen_ref.run_call_variant(case, tag='sub', input_path=[f for f in files if f != drop], **kw)
            sub[name] = {'status': r2.status, 'real': sorted(r2.fasta.keys())}
        out['sub'] = sub
        pool = load_pool(case, anno, genome)
        exc = resolve_exc(kw)
        idmap: Dict[str, int] = {}
        lines = []
        tdicts = {}
        for tx_id in txs:
            if tx_id not in pool.data:
                continue
            series = pool[tx_id]
            d, tx_seq, gs = tx_dict(anno, genome, tx_id, series.transcriptional)
            tdicts[tx_id] = (d, tx_seq, gs)
            if series.transcriptional:
                ln = main_line(d, kw, canon, idmap, exc)
                if ln is None:
                    out['stats']['unsupported_type'] = 1
                    return out
                lines.append(('main', ln))
        if not fusion_backbone(out, desc, anno, genome, pool, donor, acc, tdicts, kw, canon, idmap, exc, lines):
            return out
        dd, _dseq, dgs = tdicts[donor] if donor in tdicts else tx_dict(anno, genome, donor, [])
        if not any(k == 'ref' for k, _ in lines):
            lines.append(('ref', ref_line(dd, kw, exc, kw['selenocysteine_termination'],
                                          kw['w2f_reassignment'])))
        if not circ_backbone(out, desc, pool, donor, dd, dgs, kw, canon, idmap, exc):
            return out
        out['lines'] = lines
        out['real'] = sorted(run.fasta.keys())
        out['headers'] = {s: h for s, h in run.fasta.items()}
        out['stats']['runs'] = 1
        out['stats']['real_peptides'] = len(run.fasta)
        return out
    except Exception:   # noqa
        out['stats']['worker_error'] = 1
        out['error'] = traceback.format_exc()[-1500:]
        return out
    finally:
        case.cleanup()


def circ_same_site_worker(job):
    """a SMALL circRNA (length preferably not a multiple of three: the ORF runs for several laps) and
    TWO small records at the same nucleotide inside it (an SNV and an insertion, in two GVF files): a
    node of the circular graph then has three incoming routes.  Metamorphic: the run with both records
    contains the runs with one of them."""
    seed, tier, opts = job
    rng = random.Random(seed)
    out = {'stats': {}, 'seed': seed}
    case = gen_ref.Case(gen_ref.work_dir('csame'))
    try:
        with gen_ref.quiet():
            gen_ref.make_reference(case, seed, 1)
            genome, anno, _ = gen_ref.load_reference(case)
        tx = list(anno.transcripts)[0]
        circ = gen_ref.small_circ(anno, tx, rng)
        if circ is None:
            out['stats']['no_small_circ'] = 1
            return out
        pos = gen_ref.circ_positions(anno, tx, circ, margin=4)
        x = y = None
        for _ in range(30):
            if not pos:
                break
            q = rng.choice(pos)
            try:
                x = gen_ref.small_variant(anno, genome, tx, q, 'SNV', 1, rng)
                y = gen_ref.small_variant(anno, genome, tx, q, 'INS', rng.choice([3, 3, 1, 2]), rng)
            except Exception:   # noqa
                x = y = None
            if x is not None and y is not None:
                break
        if x is None or y is None:
            out['stats']['no_site'] = 1
            return out
        kw = cv_explore.default_kw(rng, True, None)
        out['desc'] = {'seed': seed, 'kw': kw, 'circ': circ.id, 'records': [x.id, y.id]}
        runs = {}
        for tag, recs in (('x', [x]), ('y', [y]), ('xy', [x, y])):
            with gen_ref.quiet():
                gen_ref.write_gvfs(case, recs + [circ])
            r = gen_ref.run_call_variant(case, tag=tag, **kw)
            runs[tag] = {'status': r.status, 'real': sorted(r.fasta.keys())}
        out['runs'] = runs
        out['stats']['runs'] = 1
        return out
    except Exception:   # noqa
        out['stats']['worker_error'] = 1
        out['error'] = traceback.format_exc()[-1500:]
        return out
    finally:
        case.cleanup()


def fusion_dense_worker(job):
    """two genes, ONE fusion with an exonic accepter breakpoint and 6-7 SNVs spaced 3-4 nt on the
    ACCEPTER right behind the breakpoint (one bubble inside the fusion subgraph, below the 13 records
    at which the command starts to cap combinations).  Metamorphic: the run with all SNVs contains
    the run without the last one."""
    seed, tier, opts = job
    rng = random.Random(seed)
    out = {'stats': {}, 'seed': seed}
    case = gen_ref.Case(gen_ref.work_dir('fdense'))
    try:
        import random as _r
        from moPepGen import fake
        with gen_ref.quiet():
            gen_ref.make_reference(case, seed, 2)
            genome, anno, _ = gen_ref.load_reference(case)
        txs = list(anno.transcripts.keys())
        fus = None
        for _ in range(80):
            _r.seed(rng.randrange(1 << 30))
            donor = rng.choice(txs)
            try:
                f = fake.fake_fusion(anno, genome, donor)
                acc = f.attrs['ACCEPTER_TRANSCRIPT_ID']
                am = anno.transcripts[acc]
                g = anno.coordinate_gene_to_genomic(int(f.attrs['ACCEPTER_POSITION']), am.transcript.gene_id)
                t0 = am.get_transcript_index(g)
            except Exception:   # noqa  intronic accepter breakpoint / no fusion possible
                continue
            fus = (f, acc, t0)
            break
        if fus is None:
            out['stats']['no_exonic_accepter_fusion'] = 1
            return out
        f, acc, t0 = fus
        k = rng.choice([6, 7])
        step = rng.choice([3, 4])
        snvs = []
        acc_len = len(anno.transcripts[acc].get_transcript_sequence(
            genome[anno.transcripts[acc].transcript.chrom]).seq)
        for j in range(k):
            q = t0 + 2 + step * j
            if q >= acc_len - 2:
                break
            try:
                g = anno.coordinate_transcript_to_genomic(q, acc)
                st = anno.coordinate_genomic_to_gene(g, anno.transcripts[acc].transcript.gene_id)
                gm = anno.genes[anno.transcripts[acc].transcript.gene_id]
                ref = str(gm.get_gene_sequence(genome[gm.chrom]).seq[st:st + 1])
                rec = gen_ref.make_snv(anno, genome, acc, q, rng.choice([c for c in 'ACGT' if c != ref]))
            except Exception:   # noqa
                rec = None
            if rec is not None:
                snvs.append(rec)
        if len(snvs) < 5:
            out['stats']['too_few_snvs'] = 1
            return out
        kw = cv_explore.default_kw(rng, True, None)
        kw['miscleavage'] = rng.choice([2, 3])
        kw['max_length'] = 40
        out['desc'] = {'seed': seed, 'kw': kw, 'fusion': f.id, 'snvs': [r.id for r in snvs]}
        runs = {}
        for tag, recs in (('fewer', [f] + snvs[:-1]), ('all', [f] + snvs)):
            with gen_ref.quiet():
                gen_ref.write_gvfs(case, recs)
            r = gen_ref.run_call_variant(case, tag=tag, **kw)
            runs[tag] = {'status': r.status, 'real': sorted(r.fasta.keys())}
        out['runs'] = runs
        out['stats']['runs'] = 1
        return out
    except Exception:   # noqa
        out['stats']['worker_error'] = 1
        out['error'] = traceback.format_exc()[-1500:]
        return out
    finally:
        case.cleanup()


def dup_entries(fasta) -> List[str]:
    """header entry strings that occur more than once in a FASTA (seq -> header lines)"""
    import collections
    ents = [e for _s, h in fasta.items() for hh in h for e in hh.split(' ')]
    return sorted(k for k, v in collections.Counter(ents).items() if v > 1)[:6]


def circ_dup_worker(job):
    """one gene, one circRNA + 0-3 small records; the circRNA GVF is supplied TWICE under two file
    names (the same back-splice reported by two callers / runs).  Every header entry string of the
    FASTA must occur once, and the peptide set must equal that of the run with the file once."""
    seed, tier, opts = job
    rng = random.Random(seed)
    out = {'stats': {}, 'seed': seed}
    case = gen_ref.Case(gen_ref.work_dir('cdup'))
    try:
        import collections
        import random as _r
        from moPepGen import fake
        with gen_ref.quiet():
            gen_ref.make_reference(case, seed, 1)
            genome, anno, _ = gen_ref.load_reference(case)
        tx = list(anno.transcripts)[0]
        _r.seed(rng.randrange(1 << 30))
        try:
            circ = fake.fake_circ_rna_model(anno, tx)
        except Exception:   # noqa
            out['stats']['no_circ'] = 1
            return out
        small = gen_ref.dense_variants(anno, genome, tx, rng, rng.randint(0, 3), max_size=3, window=200)
        with gen_ref.quiet():
            gen_ref.write_gvfs(case, small + [circ])
        cfile = [p for p in case.gvfs if 'circ' in Path(p).name]
        if not cfile:
            out['stats']['no_circ'] = 1
            return out
        c2 = Path(case.dir) / 'circ_b.gvf'
        shutil.copy(cfile[0], c2)
        kw = cv_explore.default_kw(rng, True, None)
        once = gen_ref.run_call_variant(case, tag='once', **kw)
        twice = gen_ref.run_call_variant(case, tag='twice', input_path=list(case.gvfs) + [c2], **kw)
        out['desc'] = {'seed': seed, 'kw': kw, 'circ': circ.id, 'small': [r.id for r in small]}
        ents = [e for _s, h in twice.fasta.items() for hh in h for e in hh.split(' ')]
        out['dups'] = sorted(k for k, v in collections.Counter(ents).items() if v > 1)[:5]
        out['status'] = (once.status, twice.status)
        out['once'] = sorted(once.fasta.keys())
        out['twice'] = sorted(twice.fasta.keys())
        out['stats']['runs'] = 1
        return out
    except Exception:   # noqa
        out['stats']['worker_error'] = 1
        out['error'] = traceback.format_exc()[-1500:]
        return out
    finally:
        case.cleanup()


def find_fusion_chain(anno, genome, rng, txs):
    """(f1, f2): f1 = B -> C with the donor breakpoint inside an intron of B, f2 = A -> B with A in front
    of B in annotation order; (None, None) / (None, 'nochain') when the reference has none"""
    import copy
    import random as _r
    from moPepGen import fake
    order = sorted(txs, key=lambda t: (anno.transcripts[t].transcript.location.start, t))
    f1 = f2 = None
    for _ in range(400):
        _r.seed(rng.randrange(1 << 30))
        b = rng.choice(order[1:])
        try:
            f = fake.fake_fusion(anno, genome, b)
            g = copy.deepcopy(f)
            g.shift_breakpoint_to_closest_exon(anno)
        except Exception:   # noqa
            continue
        if g.attrs.get('LEFT_INSERTION_START') is None:
            continue
        f1 = f
        break
    if f1 is None:
        return None, None
    b = f1.attrs['TRANSCRIPT_ID']
    before = order[:order.index(b)]
    for _ in range(400):
        _r.seed(rng.randrange(1 << 30))
        a = rng.choice(before)
        try:
            f = fake.fake_fusion(anno, genome, a)
        except Exception:   # noqa
            continue
        if f.attrs['ACCEPTER_TRANSCRIPT_ID'] == b:
            f2 = f
            break
    if f2 is None:
        return None, 'nochain'
    return f1, f2


def fusion_chain(case, out, seed, rng, genome, anno, txs):
    """a CHAIN of fusions: B -> C with the donor breakpoint inside an intron of B, and A -> B with A
    ranked before B — B's variant series is loaded twice in one run (as the accepter of A's fusion,
    then on its own turn).  Same metamorphic relation: both records together = union."""
    import copy
    import random as _r
    from moPepGen import fake
    f1, f2 = find_fusion_chain(anno, genome, rng, txs)
    if f1 is None:
        out['stats']['no_intronic_fusion' if f2 is None else 'no_chain'] = 1
        return out
    b = f1.attrs['TRANSCRIPT_ID']
    out['stats']['fusion_chain_intronic'] = 1
    kw = cv_explore.default_kw(rng, True, None)
    out['desc'] = {'seed': seed, 'kw': kw, 'donor': b, 'fusions': [f1.id, f2.id], 'chain': True}
    runs = {}
    for tag, recs in (('first', [f1]), ('second', [f2]), ('both', [f1, f2])):
        with gen_ref.quiet():
            gen_ref.write_gvfs(case, [copy.deepcopy(x) for x in recs])
        r = gen_ref.run_call_variant(case, tag=tag, **kw)
        runs[tag] = {'status': r.status, 'real': sorted(r.fasta.keys()), 'dup_entries': dup_entries(r.fasta)}
    out['runs'] = runs
    out['stats']['runs'] = 1
    return out


def fusion_pair_worker(job):
    """three genes; TWO fusion records that leave the donor at the SAME breakpoint for different
    acceptors (STAR-Fusion reports such rows for multi-mapping partners).  Metamorphic: the run
    with both records must report the union of the two single-record runs."""
    seed, tier, opts = job
    rng = random.Random(seed)
    out = {'stats': {}, 'seed': seed}
    case = gen_ref.Case(gen_ref.work_dir('fpair'))
    try:
        import copy
        import random as _r
        from moPepGen import fake
        with gen_ref.quiet():
            gen_ref.make_reference(case, seed, 3)
            genome, anno, _ = gen_ref.load_reference(case)
        txs = list(anno.transcripts.keys())
        if rng.random() < 0.34:
            return fusion_chain(case, out, seed, rng, genome, anno, txs)
        donor = txs[rng.randrange(len(txs))]
        fus = {}
        for _ in range(300):
            _r.seed(rng.randrange(1 << 30))
            try:
                f = fake.fake_fusion(anno, genome, donor)
            except Exception:   # noqa
                continue
            fus.setdefault((f.attrs['ACCEPTER_TRANSCRIPT_ID'], int(f.attrs['ACCEPTER_POSITION'])), f)
            if len({a for a, _p in fus}) >= 2 and len(fus) >= 4:
                break
        by_acc = {}
        for (a, _p), f in sorted(fus.items()):
            by_acc.setdefault(a, []).append(f)
        same = [a for a, fs in sorted(by_acc.items()) if len(fs) >= 2]
        # half of the pairs: ONE acceptor transcript entered at two different positions (one donor
        # exon end spliced to two exons of the same partner); the other half: two acceptors
        if same and (rng.random() < 0.5 or len(by_acc) < 2):
            a = rng.choice(same)
            f1, f2 = by_acc[a][0], copy.deepcopy(by_acc[a][1])
            accs = [a, a]
            out['stats']['same_acceptor_two_positions'] = 1
        elif len(by_acc) >= 2:
            accs = sorted(by_acc)[:2]
            f1, f2 = by_acc[accs[0]][0], copy.deepcopy(by_acc[accs[1]][0])
            out['stats']['two_acceptors'] = 1
        else:
            out['stats']['no_two_acceptors'] = 1
            return out
        f2.location = copy.deepcopy(f1.location)
        f2.ref = f1.ref
        f2.id = f"FUSION-{donor}:{int(f1.location.start)}-{accs[1]}:{f2.attrs['ACCEPTER_POSITION']}"
        for k in ('LEFT_INSERTION_START', 'LEFT_INSERTION_END'):
            if k in f1.attrs:
                f2.attrs[k] = f1.attrs[k]
            else:
                f2.attrs.pop(k, None)
        small = gen_ref.dense_variants(anno, genome, donor, rng, rng.randint(0, 2), max_size=3, window=200)
        kw = cv_explore.default_kw(rng, True, None)
        out['desc'] = {'seed': seed, 'kw': kw, 'donor': donor, 'fusions': [f1.id, f2.id]}
        runs = {}
        for tag, recs in (('first', [f1]), ('second', [f2]), ('both', [f1, f2])):
            with gen_ref.quiet():
                gen_ref.write_gvfs(case, small + recs)
            r = gen_ref.run_call_variant(case, tag=tag, **kw)
            runs[tag] = {'status': r.status, 'real': sorted(r.fasta.keys()), 'dup_entries': dup_entries(r.fasta)}
        out['runs'] = runs
        out['stats']['runs'] = 1
        return out
    except Exception:   # noqa
        out['stats']['worker_error'] = 1
        out['error'] = traceback.format_exc()[-1500:]
        return out
    finally:
        case.cleanup()
