"""Layer G — refinement checkpoints inside the graph algorithm of callVariant.

The real command is run in-process with the five stage methods of the graph algorithm wrapped
(no change to /repo): after each stage the graph the REAL code built is dumped

  tvg1  ThreeFrameTVG.create_variant_graph     transcript variant graph, three frames
  tvg2  ThreeFrameTVG.fit_into_codons          the same, node boundaries on codons
  pvg1  ThreeFrameTVG.translate                peptide variant graph
  pvg2  PeptideVariantGraph.create_cleavage_graph   peptide cleavage graph
  out   PeptideVariantGraph.call_variant_peptides   peptides of the traversal

and handed to the Lean driver (`G` stream), which evaluates the checkpoint predicates of
`Model/Graph.lean` on it against the definitional layer (`Spec/CallVariant.lean`).
"""
from __future__ import annotations
import contextlib
from typing import Dict, List, Optional


class Rec:
    """dumps of one graph run (one transcript / fusion / circRNA unit)"""
    def __init__(self, gid: str):
        self.gid = gid
        self.stages: Dict[str, dict] = {}
        self.calls: List[dict] = []     # call_variant_peptides invocations
        self.kind = 'tx'


def ids_of(variant) -> List[str]:
    """ids of the GVF records a graph variant stands for (a merged MNV names its parts)"""
    if variant.attrs.get('MERGED_MNV'):
        return list(variant.attrs['INDIVIDUAL_VARIANT_IDS'])
    return [variant.id]


def _order_tvg(g):
    ids, order = {}, []

    def nid(n):
        if id(n) not in ids:
            ids[id(n)] = len(ids)
            order.append(n)
        return ids[id(n)]
    nid(g.root)
    i = 0
    while i < len(order):
        n = order[i]
        i += 1
        for e in n.out_edges:
            nid(e.out_node)
    return ids, order


def dump_tvg(g) -> dict:
    ids, order = _order_tvg(g)
    nodes = []
    for n in order:
        nodes.append({
            'id': ids[id(n)],
            'seq': str(n.seq.seq) if n.seq is not None else '',
            'rf': n.reading_frame_index,
            'vars': [i for v in n.variants for i in ids_of(v.variant)],
            'out': sorted(ids[id(e.out_node)] for e in n.out_edges),
            'level': n.level, 'sub': n.subgraph_id,
            # for the structural correspondence with Model/Tvg.lean (`G tvgbuild`): the reference
            # range of the node (`seq.locations`: [first.ref.start, last.ref.end), number of
            # matched locations; None for a null node) and the typed out-edges
            'loc': None if n.seq is None else
            ([int(n.seq.locations[0].ref.start), int(n.seq.locations[-1].ref.end), len(n.seq.locations)]
             if n.seq.locations else [0, 0, 0]),
            'null': n.seq is None,
            'out_t': sorted((ids[id(e.out_node)], e.type) for e in n.out_edges),
        })
    return {'nodes': nodes, 'rfs': [ids.get(id(x)) for x in g.reading_frames]}


SMALL_TYPES = ('SNV', 'RNAEditingSite', 'INDEL')
_ETYPE = {'reference': 'r', 'variant_start': 's', 'variant_end': 'e'}


def canon_tvg(d: dict, idmap: Dict[str, int]) -> str:
    """the dumped transcript variant graph up to node renaming, in the form `G tvgbuild` prints the
    graph of the Lean model (`Driver/G.lean`, `tvgCanon`): nodes keyed by frame / kind / reference
    range or record ids / sequence, typed edges as pairs of keys, both sorted"""
    keys = {}
    for n in d['nodes']:
        rf = n['rf']
        if n['null']:
            k = 'R' if rf is None else f'F{rf}'
        elif n['vars']:
            k = f"{rf}:v{'+'.join(str(idmap.setdefault(v, len(idmap))) for v in n['vars'])}:{n['seq']}"
            if n['loc'][2]:
                k += f"@{n['loc'][0]}-{n['loc'][1]}"      # a variant node with a location: not in scope
        else:
            a, b, k_ = n['loc']
            k = f"{rf}:{a}-{b}:{n['seq']}" if k_ == 1 else \
                (f"{rf}:e:{n['seq']}" if k_ == 0 else f"{rf}:{a}-{b}x{k_}:{n['seq']}")
        keys[n['id']] = k
    ns = sorted(keys.values())
    es = sorted(f"{keys[n['id']]}>{keys[o]}:{_ETYPE.get(t, t)}" for n in d['nodes'] for o, t in n['out_t'])
    return 'N=' + ';'.join(ns) + '|E=' + ';'.join(es)


def tvgbuild_case(rec: 'Rec', tx: dict, tx_fields: List[str], idmap: Dict[str, int]):
    """(protocol line `G tvgbuild …`, canonical form of the real graph after create_variant_graph)
    for a unit whose records are all small (SNV / RNAEditingSite / INDEL); None otherwise.
    The transcript fields are those of the `cp` op; the records are the same as the `cp` op's
    (`tx['vars']`, asserted as multisets) but in the ORDER the real `create_variant_graph`
    received them: `sorted()` is stable and `VariantRecord.__lt__` leaves e.g. an SNV and an
    insertion on the same base unordered, so the graph depends on that order (the on-disk pool of
    the command and the in-memory pool of the harness loader sort such pairs differently)."""
    d = rec.stages.get('tvg1')
    given = getattr(rec, 'tvg_given', None)
    if d is None or given is None:
        return None
    if any(v[4] not in SMALL_TYPES or isinstance(v[5], tuple) for v in tx['vars']) or \
            any(v[4] not in SMALL_TYPES for v in given):
        return None
    idmap = dict(idmap)
    vs = []
    for (s, e, r, a, t, vid) in given:
        vs.append(f'{s}:{e}:{r}:{a}:{t}:{idmap.setdefault(vid, len(idmap))}')
    line = '\t'.join(['G', 'tvgbuild'] + tx_fields + ['1' if tx['orf'] else '0', ';'.join(vs)])
    same = sorted(tuple(v) for v in given) == sorted(tuple(v) for v in tx['vars'])
    lang_line = '\t'.join(['G', 'tvglang'] + tx_fields + ['1' if tx['orf'] else '0', ';'.join(vs)])
    lang = tvglang_real(d, idmap, getattr(rec, 'tvg_frames', [0, 1, 2]))
    if not lang.startswith('skip:'):
        lang = f'in={1 if pool_input_ok(tx, given) else 0};' + lang
    return line, canon_tvg(d, idmap), same, lang_line, lang


def pool_input_ok(tx: dict, given) -> bool:
    """`Tvg.poolInputOk` (Model/TvgLang.lean) evaluated independently on the REAL call's input: the
    hypothesis of `Props.C01.tvg_create_variant_graph_language_eq` — known ORF iff the sequence
    carries one, records non-empty stretches inside the transcript, typed INDEL exactly when the
    alleles make an insertion or a deletion, ascending starts (max_adjacent_as_mnv is the default 2
    in every run of the harness)"""
    if bool(tx['coding']) != bool(tx['orf']) or len(tx['seq']) < 3:
        return False
    prev = None
    for (s, e, r, a, t, _vid) in given:
        if t not in SMALL_TYPES or not (s < e <= len(tx['seq'])):
            return False
        ins = len(r) == 1 and not a.startswith('<') and len(a) > 1
        dele = len(r) > 1 and len(a) == 1
        if (t == 'INDEL') != (ins or dele):
            return False
        if prev is not None and prev > s:
            return False
        prev = s
    return True


TVGLANG_CAP = 12      # `tvgLangCap` of Driver/G.lean


def tvglang_real(d: dict, idmap: Dict[str, int], frames: List[int]) -> str:
    """the record lists of ALL maximal paths of the REAL graph after create_variant_graph, per frame
    that is active from the start, from the child of the frame root, enumerated by walking the
    dumped graph (no model involved), in the form `G tvglang` prints `Tvg.attachedSubs` of the
    model's graph (`Props.C01.tvg_attached_subs_spec`): `f<frame>=<sorted keys>`; a key = the ids
    of each variant node of the path joined by `+`, the nodes by `|`, `-` for no record"""
    nodes = {n['id']: n for n in d['nodes']}

    def key(n):
        return '+'.join(str(idmap[v]) for v in n['vars'])
    if len({key(n) for n in d['nodes'] if n['vars']}) > TVGLANG_CAP:
        return 'skip:too-many-records'
    out = []
    for f in frames:
        paths = set()
        stack = [(o, ()) for o in nodes[d['rfs'][f]]['out']]
        steps = 0
        while stack:
            nid, taken = stack.pop()
            steps += 1
            if steps > 2000000:
                return 'skip:too-many-paths'
            n = nodes[nid]
            if n['vars']:
                taken = taken + (key(n),)
            if not n['out']:
                paths.add('|'.join(taken) or '-')
            else:
                for o in n['out']:
                    stack.append((o, taken))
        out.append(f'f{f}=' + ','.join(sorted(paths)))
    return ';'.join(out)


def dump_pvg(g) -> dict:
    ids, order = {}, []

    def nid(n):
        if id(n) not in ids:
            ids[id(n)] = len(ids)
            order.append(n)
        return ids[id(n)]
    nid(g.root)
    i = 0
    while i < len(order):
        n = order[i]
        i += 1
        for o in n.out_nodes:
            nid(o)
    # canonical numbering: BFS order depends on set iteration; renumber by a stable key
    nodes = []
    for n in order:
        nodes.append({
            'id': ids[id(n)],
            'seq': str(n.seq.seq) if n.seq is not None else '',
            'rf': n.reading_frame_index,
            'vars': [i for v in n.variants for i in ids_of(v.variant)],
            'out': sorted(ids[id(o)] for o in n.out_nodes),
            'cleavage': bool(n.cleavage), 'trunc': bool(n.truncated),
            'level': n.level, 'sub': n.subgraph_id,
            'is_stop': n is g.stop,
        })
    return {'nodes': nodes, 'rfs': [ids.get(id(x)) if x is not None else None for x in g.reading_frames],
            'stop': ids.get(id(g.stop)),
            'known_orf': list(g.known_orf) if g.known_orf else None}



# ---------------------------------------------------------------- `G translate` (Model/Translate.lean)

_ET = {'reference': 'r', 'variant_start': 's', 'variant_end': 'e'}


def dump_translate_in(g):
    """the graph as `ThreeFrameTVG.translate` finds it (after fit_into_codons), with everything
    `Model/Translate.lean` reads: DNA sequence, typed out-edges IN THE ITERATION ORDER of the set,
    frame, node-local variant locations, matched locations (`seq.locations`; `lvl0` = the location
    points into the level-0 graph, as `fix_selenocysteines` tests it), level, `branch`, `orf[1]`;
    graph-level: `reading_frames`, `has_known_orf`, `seq.orf`, `sect_variants`, `mrna_end_nf`,
    `is_circ_rna()`.  Returns (dict, {id(TVGNode): index})."""
    ids, order = {}, []

    def nid(n):
        if id(n) not in ids:
            ids[id(n)] = len(ids)
            order.append(n)
        return ids[id(n)]
    nid(g.root)
    for x in g.reading_frames:
        nid(x)
    i = 0
    while i < len(order):
        n = order[i]
        i += 1
        for e in n.out_edges:
            nid(e.out_node)
    sub = g.subgraphs

    def lvl0(loc):
        name = loc.ref.seqname
        return name in sub.data and sub[name].level == 0
    nodes = []
    for n in order:
        nodes.append({
            'seq': None if n.seq is None else str(n.seq.seq),
            'out': [(ids[id(e.out_node)], _ET.get(e.type, 'r')) for e in n.out_edges],
            'rf': n.reading_frame_index,
            'vars': [(ids_of(v.variant), int(v.location.start), int(v.location.end)) for v in n.variants],
            'locs': [] if n.seq is None else
            [(int(l.query.start), int(l.query.end), l.query.reading_frame_index,
              int(l.ref.start), int(l.ref.end), bool(lvl0(l))) for l in n.seq.locations],
            'level': int(n.level), 'branch': bool(n.branch),
            'orf_end': None if not n.orf or n.orf[1] is None else int(n.orf[1]),
        })
    d = {'nodes': nodes, 'frames': [ids[id(x)] for x in g.reading_frames],
         'has_known_orf': bool(g.has_known_orf),
         'orf': [int(g.seq.orf.start), int(g.seq.orf.end)] if g.seq is not None and g.seq.orf else None,
         'sect': [(int(v.location.start), int(v.location.end)) for v in g.sect_variants],
         'mrna_end_nf': bool(g.mrna_end_nf), 'circ': bool(g.is_circ_rna())}
    return d, ids


def enc_translate_in(d: dict, idmap: Dict[str, int]) -> List[str]:
    """protocol fields of `G translate` (see `Driver/GT.lean`, `parseIn`)"""
    def opt(x):
        return '-' if x is None else str(x)
    parts = []
    for n in d['nodes']:
        vs = ','.join('+'.join(str(idmap.setdefault(i, len(idmap))) for i in ids) + f'.{a}.{b}'
                      for ids, a, b in n['vars'])
        ls = ','.join(f'{a}.{b}.{opt(f)}.{c}.{e}.{1 if l else 0}' for a, b, f, c, e, l in n['locs'])
        parts.append(':'.join([n['seq'] or '-', '1' if n['seq'] is None else '0',
                               ','.join(f'{o}.{t}' for o, t in n['out']) or '-', opt(n['rf']),
                               vs or '-', ls or '-', str(n['level']), '1' if n['branch'] else '0',
                               opt(n['orf_end'])]))
    return [';'.join(parts), ','.join(str(x) for x in d['frames']), '1' if d['has_known_orf'] else '0',
            '-' if d['orf'] is None else f"{d['orf'][0]}.{d['orf'][1]}",
            ','.join(f'{a}.{b}' for a, b in d['sect']) or '-',
            '1' if d['mrna_end_nf'] else '0', '1' if d['circ'] else '0']


def snap_translate_real(pg, names: Dict[int, str]) -> dict:
    """snapshot of the peptide graph the REAL `translate` returned (taken at once:
    create_cleavage_graph rewrites the graph in place).  Nodes are named by where they come from,
    not by a traversal: `r` root, `s` the shared stop, `n<o>` = the PVGNode `TVGNode.translate`
    returned for input node o (recorded by the node-level wrapper), `…R` = the node a `split_node`
    of `…` returned, `…F` = the remaining unnamed successor of a named node that reads `*` and has
    no successor (the fake stop)."""
    names = dict(names)
    names[id(pg.root)] = 'r'
    names[id(pg.stop)] = 's'
    order, seen = [pg.root], {id(pg.root)}
    i = 0
    while i < len(order):
        n = order[i]
        i += 1
        for o in n.out_nodes:
            if id(o) not in seen:
                seen.add(id(o))
                order.append(o)
    for n in order:
        if id(n) in names:
            for o in n.out_nodes:
                if id(o) not in names and str(o.seq.seq) == '*' and not o.out_nodes:
                    names[id(o)] = names[id(n)] + 'F'
    unknown = [0]

    def nm(n):
        if id(n) not in names:
            names[id(n)] = f'?{unknown[0]}'
            unknown[0] += 1
        return names[id(n)]
    ns, es = [], []
    for n in order:
        vs = [(ids_of(v.variant), int(v.location.start), int(v.location.end),
               int(v.location.start_offset), int(v.location.end_offset)) for v in n.variants]
        secs = [int(x.location.start) for x in n.selenocysteines]
        ns.append((nm(n), 'None' if n.seq is None else str(n.seq.seq), n.reading_frame_index,
                   bool(n.truncated), vs, secs, int(n.level)))
        for o in n.out_nodes:
            es.append(nm(n) + '>' + nm(o))
    ko = pg.known_orf
    return {'nodes': ns, 'edges': es, 'frames': ['-' if x is None else nm(x) for x in pg.reading_frames],
            'ko': '-' if not ko or ko[0] is None else f'{ko[0]}-{ko[1]}'}


def canon_translate_real(snap: dict, idmap: Dict[str, int]) -> str:
    """the snapshot in the canonical form `G translate` prints the model's graph
    (`Driver/GT.lean`, `canon`)"""
    ns = []
    for name, seq, rf, trunc, vs, secs, level in snap['nodes']:
        v = ','.join('+'.join(str(idmap.setdefault(i, len(idmap))) for i in ids) + f'.{a}.{b}.{c}.{d}'
                     for ids, a, b, c, d in vs)
        ns.append(':'.join([name, seq, '-' if rf is None else str(rf), '1' if trunc else '0', v,
                            ','.join(str(x) for x in secs), str(level)]))
    return 'N=' + ';'.join(sorted(ns)) + '|E=' + ';'.join(sorted(snap['edges'])) + \
        '|F=' + ','.join(snap['frames']) + '|O=' + snap['ko']


def translate_flags(real: str) -> Dict[str, bool]:
    """what a canonical `G translate` output exercises (for the coverage counters)"""
    if real.startswith('crash:'):
        return {'real_crashed': True}
    ns = [x.split(':') for x in real.split('|E=')[0].split(';')]
    secs = [[int(k) for k in x[5].split(',')] for x in ns if len(x) > 5 and x[5]]
    return {
        'linear_input': real.startswith('in=1;'),
        'with_variant_node': any(len(x) > 4 and x[4] for x in ns),
        'with_selenocysteine_fixed': bool(secs),
        'with_two_sec_in_one_node': any(len(k) > 1 for k in secs),
        # the hypothesis `secAscending` of Props.C01.translate_language_eq, read off the REAL nodes
        'sec_positions_not_ascending': any(any(a >= b for a, b in zip(k, k[1:])) for k in secs),
        'with_fake_stop': 'F:*:' in real,
        'with_truncated_node': any(len(x) > 3 and x[3] == '1' for x in ns),
        'with_star_for_empty_leaf': any(len(x) > 1 and x[0] not in ('s',) and not x[0].endswith('F')
                                        and x[1] == '*' and f'{x[0]}>s' in real for x in ns),
    }


def linear_input(d: dict) -> bool:
    """`Translate.linearInput` evaluated independently on the dump"""
    return not d['circ'] and all(n['level'] == 0 and all(l[5] for l in n['locs']) for n in d['nodes'])


def translate_case(rec: 'Rec', idmap: Dict[str, int]):
    """(protocol line `G translate …`, canonical form of the real output) of one unit"""
    t = getattr(rec, 'translate', None)
    if t is None:
        return None
    idmap = dict(idmap)
    line = '\t'.join(['G', 'translate'] + enc_translate_in(t['in'], idmap))
    if 'crash' in t:
        return line, 'crash:' + t['crash']
    return line, f"in={1 if linear_input(t['in']) else 0};" + canon_translate_real(t['out'], idmap)


@contextlib.contextmanager
def capture(store: List[Rec]):
    """wrap the stage methods for the duration of one in-process run"""
    from moPepGen.svgraph.ThreeFrameTVG import ThreeFrameTVG
    from moPepGen.svgraph.ThreeFrameCVG import ThreeFrameCVG
    from moPepGen.svgraph.PeptideVariantGraph import PeptideVariantGraph
    saved = []

    def patch(cls, name, fn):
        saved.append((cls, name, cls.__dict__[name]))
        setattr(cls, name, fn)

    o_cvg = ThreeFrameTVG.create_variant_graph
    o_fit = ThreeFrameTVG.fit_into_codons
    o_tr = ThreeFrameTVG.translate
    o_ccg = PeptideVariantGraph.create_cleavage_graph
    o_call = PeptideVariantGraph.call_variant_peptides
    o_circ = ThreeFrameCVG.create_variant_circ_graph
    from moPepGen.svgraph.TVGNode import TVGNode
    from moPepGen.svgraph.PVGNode import PVGNode
    o_ntr = TVGNode.translate
    o_split = PVGNode.split_node

    def rec_of(g) -> Rec:
        r = getattr(g, '_vrec', None)
        if r is None:
            r = Rec(g.id)
            g._vrec = r
            store.append(r)
        return r

    def cvg(self, *a, **k):
        # nested calls (fusion / insertion subgraphs build their own ThreeFrameTVG) keep
        # their own record; only the outermost graph of a unit is checked
        vs_in = k.get('variants', a[0] if a else [])
        # the records in the order the real call receives them (before `to_end_inclusion`
        # rewrites some of them in place)
        given = [(int(v.location.start), int(v.location.end), str(v.ref), str(v.alt), v.type, v.id)
                 for v in vs_in]
        res = o_cvg(self, *a, **k)
        r = rec_of(self)
        r.tvg_given = given
        r.stages['tvg1'] = dump_tvg(self)
        # the frames `create_variant_graph` starts with (`active_frames=None`): the known-ORF frame
        # of the real object, all three otherwise (for the `G tvglang` comparison)
        try:
            r.tvg_frames = [int(self.get_known_reading_frame_index())] if self.has_known_orf else [0, 1, 2]
        except Exception:       # noqa: BLE001 — a graph without `seq.orf`: the comparison is not made
            r.tvg_frames = [0, 1, 2]
        r.tvg_args = {'n_variants': len(k.get('variants', a[0] if a else []))}
        return res

    def circg(self, *a, **k):
        res = o_circ(self, *a, **k)
        r = rec_of(self)
        r.kind = 'circ'
        return res

    def fit(self):
        res = o_fit(self)
        if getattr(self, '_vrec', None) is not None:
            self._vrec.stages['tvg2'] = dump_tvg(self)
        return res

    cur = {'names': None, 'ids': None, 'keep': None}

    def node_tr(self):
        pn = o_ntr(self)
        if cur['names'] is not None and id(self) in cur['ids']:
            cur['names'][id(pn)] = f"n{cur['ids'][id(self)]}"
            cur['keep'].append(pn)
        return pn

    def node_split(self, *a, **k):
        new = o_split(self, *a, **k)
        if cur['names'] is not None:
            cur['names'][id(new)] = cur['names'].get(id(self), '?') + 'R'
            cur['keep'].append(new)
        return new

    def tr(self):
        r = getattr(self, '_vrec', None)
        tin = None
        if r is not None:
            # `G translate`: the input exactly as the stage finds it, the PVGNode each input node
            # is translated into (node-level wrappers, active during this call only)
            try:
                tin, tids = dump_translate_in(self)
                cur.update(names={}, ids=tids, keep=[])
            except Exception:       # noqa: BLE001 — an input the dumper cannot read: no comparison
                tin = None
        try:
            pg = o_tr(self)
        except Exception as e:      # noqa: BLE001
            if tin is not None:
                r.translate = {'in': tin, 'crash': type(e).__name__}
            cur.update(names=None, ids=None, keep=None)
            raise
        names = cur['names']
        cur.update(names=None, ids=None, keep=None)
        if r is not None:
            pg._vrec = r
            if tin is not None:
                r.translate = {'in': tin, 'out': snap_translate_real(pg, names)}
            r.stages['pvg1'] = dump_pvg(pg)
            r.meta = {'has_known_orf': bool(self.has_known_orf), 'cds_start_nf': bool(self.cds_start_nf),
                      'mrna_end_nf': bool(self.mrna_end_nf),
                      'seq': str(self.seq.seq),
                      'orf': [int(self.seq.orf.start), int(self.seq.orf.end)] if self.seq.orf else None}
        return pg

    def ccg(self):
        res = o_ccg(self)
        r = getattr(self, '_vrec', None)
        if r is not None:
            r.stages['pvg2'] = dump_pvg(self)
        return res

    def call(self, *a, **k):
        res = o_call(self, *a, **k)
        r = getattr(self, '_vrec', None)
        if r is not None:
            r.calls.append({'check_orf': bool(k.get('check_orf', False)),
                            'truncate_sec': bool(k.get('truncate_sec', False)),
                            'w2f': bool(k.get('w2f', False)),
                            'peptides': sorted(str(s) for s in res)})
        return res

    patch(ThreeFrameTVG, 'create_variant_graph', cvg)
    patch(ThreeFrameCVG, 'create_variant_circ_graph', circg)
    patch(ThreeFrameTVG, 'fit_into_codons', fit)
    patch(ThreeFrameTVG, 'translate', tr)
    patch(TVGNode, 'translate', node_tr)
    patch(PVGNode, 'split_node', node_split)
    patch(PeptideVariantGraph, 'create_cleavage_graph', ccg)
    patch(PeptideVariantGraph, 'call_variant_peptides', call)
    try:
        yield store
    finally:
        for cls, name, fn in reversed(saved):
            setattr(cls, name, fn)


# ---------------------------------------------------------------- protocol encoding

def enc_graph(d: dict, idmap: Dict[str, int]) -> str:
    """`seq:vars:out:rf:flags;…` (node index = position) — vars as the numeric ids of the S
    stream (`idmap`); flags: c = cleavage, s = the shared end sentinel"""
    parts = []
    for k, n in enumerate(d['nodes']):
        assert n['id'] == k
        vs = []
        for v in n['vars']:
            if v not in idmap:
                idmap[v] = len(idmap)
            vs.append(str(idmap[v]))
        fl = ('c' if n.get('cleavage') else '') + ('s' if n.get('is_stop') else '')
        rf = n.get('rf')
        parts.append(':'.join([n['seq'] or '-', ','.join(vs) or '-',
                               ','.join(str(o) for o in n['out']) or '-',
                               '-' if rf is None else str(rf), fl or '-']))
    return ';'.join(parts)


def count_paths(d: dict) -> int:
    """number of maximal paths from the root (memoised)"""
    byid = {n['id']: n for n in d['nodes']}
    memo: Dict[int, int] = {}

    def go(i):
        if i in memo:
            return memo[i]
        outs = [o for o in byid[i]['out'] if not byid[o].get('is_stop')]
        memo[i] = 1 if not outs else sum(go(o) for o in outs)
        return memo[i]
    import sys
    sys.setrecursionlimit(max(10000, sys.getrecursionlimit()))
    return go(0)


STAGES = ('tvg1', 'tvg2', 'pvg1', 'pvg2')


def cp_lines(rec: Rec, tx_fields: List[str], var_field: str, idmap: Dict[str, int],
             rule: str, exc: Optional[str], max_paths: int = 3000):
    """protocol lines `G cp <stage> <graph> <tx…> <vars> <rule> <exc>` for the dumps of one
    unit; a dump with more than `max_paths` maximal paths is skipped (returned as None)"""
    out = []
    for st in STAGES:
        d = rec.stages.get(st)
        if d is None:
            continue
        npaths = count_paths(d)
        if npaths > max_paths:
            out.append((st, None, npaths))
            continue
        out.append((st, '\t'.join(['G', 'cp', st, enc_graph(d, idmap)] + tx_fields +
                                  [var_field, rule, exc or '-']), npaths))
    return out
