"""C11 — reference model: coordinates and sequences are mutually consistent.

Every generated annotation (own GTF writer + random genome FASTA) is loaded by the REAL code
three ways: `GenomicAnnotation.dump_gtf` (fully parsed), `GenomicAnnotationOnDisk.generate_index`
(raw GTF) and `IndexDir.save_annotation` + `load_annotation` (idx files).  Streams (real code
in-process vs native Lean driver; protocol lines are built from the GENERATOR's ground truth,
so parsing and `sort_records` are inside the tie):

  g2gene gene2g txidx tx2g gene2tx tx2gene   every position of every gene / transcript (+-3)
  geneseq txseq orf sec                        sequences, ORF start/end, selenocysteine
  exonic upend downstart findexon findintron   helper look-ups (internal streams)
  cache                                        access histories against the pointer caches
  gtfparse0 gtfwrite gtfparse1 gtfrt gtfwf gtfwf1 gtfclosed gtfline   the GTF codec model (Model/Gtf.lean):
      real dump_gtf vs parseGtf on the generated text and on the text GtfIO.write produced, real
      GtfIO.write vs writeGtf line by line, real write->parse vs the Lean composition, the
      well-formedness predicates of the theorems evaluated on the real models, closure of the round
      trip (gtfclosed: wf / ordered / stable of the reloaded annotation, second round trip, written
      text a fixed point; model reload decided by the driver vs the real reloaded objects), fuzzed single
      lines through line_to_seq_feature, hand-made edge annotations
Direct predicates on the real outputs (no model involved):
  inverse maps, pointwise sequences, ORF start vs CDS, on-disk == fully parsed for every key
  under random-with-repeats / forward / reverse access orders, write -> parse round trip.
Every 3rd annotation file holds non-ASCII (multi-byte UTF-8) text: `##` comment at the top, a
`note "…"` attribute on some records, gene_name of some genes (`add_nonascii`); the files are written
as UTF-8 (the on-disk reader decodes UTF-8, the parser opens in text mode = UTF-8 here).
"""
from __future__ import annotations
import io
import json
import os
import shutil
import sys
import tempfile
from pathlib import Path

from . import common

COMP = {'A': 'T', 'T': 'A', 'C': 'G', 'G': 'C', 'N': 'N'}
KF_CACHE = 'cache-poisoned-by-failed-lookup'
KF_WRITE = 'gtf-write-drops-utr-and-codon-records'


# ------------------------------------------------------------------ generator
class Tx:
    def __init__(self):
        self.id = self.gene = self.chrom = self.strand = None
        self.exons = []          # [(s,e)] ascending, 0-based half open
        self.cds = []            # [(s,e,frame or None)] ascending
        self.utr5 = []
        self.utr3 = []
        self.start_codon = []
        self.stop_codon = []
        self.sec = []
        self.tags = []
        self.protein_id = None
        self.order = 'tx'
        self.f0 = 0

    def length(self):
        return sum(e - s for s, e in self.exons)

    def pieces(self, a, b):
        """genomic pieces (ascending) of the transcript interval [a,b)"""
        out = []
        exs = self.exons if self.strand == '+' else list(reversed(self.exons))
        off = 0
        for s, e in exs:
            ln = e - s
            lo, hi = max(a, off), min(b, off + ln)
            if lo < hi:
                if self.strand == '+':
                    out.append((s + lo - off, s + hi - off))
                else:
                    out.append((e - (hi - off), e - (lo - off)))
            off += ln
        return sorted(out)

    def tx2g(self, i):
        p = self.pieces(i, i + 1)
        return p[0][0] if p else None


class Gene:
    def __init__(self):
        self.id = self.chrom = self.strand = None
        self.start = self.end = 0
        self.txs = []
        self.name = None
        self.biotype = 'protein_coding'


class Anno:
    def __init__(self):
        self.style = 'GENCODE'
        self.genes = []
        self.chroms = {}
        self.header = []
        self.nonascii = []       # placements of non-ASCII text: 'comment', 'note', 'gene_name'
        self.na_notes = {}       # index of the record line (header excluded) -> note text

    def desc(self, full=True):
        g = self.gtf_text()
        if not full and len(g) > 3000:
            return {'style': self.style, 'gtf_head': g[:1500], 'gtf_bytes': len(g)}
        d = {'style': self.style, 'gtf': g,
             'genome': {k: v for k, v in self.chroms.items()}}
        if self.nonascii:
            d['nonascii'] = list(self.nonascii)
            d['gtf_encoding'] = 'utf-8'
        return d

    # -- own GTF writer
    def gtf_text(self):
        if getattr(self, '_gtf', None) is None:
            self._gtf = self._gtf_text()
        return self._gtf

    def _gtf_text(self):
        lines = list(self.header)
        bt_key = 'gene_type' if self.style == 'GENCODE' else 'gene_biotype'
        for g in self.genes:
            gat = f'gene_id "{g.id}"; {bt_key} "{g.biotype}"; gene_name "{g.name}"; level 2;'
            lines.append('\t'.join([g.chrom, 'HAVANA', 'gene', str(g.start + 1), str(g.end),
                                    '.', g.strand, '.', gat]))
            for t in g.txs:
                at = (f'gene_id "{g.id}"; transcript_id "{t.id}"; {bt_key} "{g.biotype}"; '
                      f'gene_name "{g.name}"; transcript_type "{g.biotype}"; '
                      f'transcript_name "{g.name}-20{t.id[-1]}";')
                for tag in t.tags:
                    at += f' tag "{tag}";'
                if t.protein_id and self.style == 'GENCODE':
                    at += f' protein_id "{t.protein_id}";'
                ts, te = t.exons[0][0], t.exons[-1][1]
                lines.append('\t'.join([g.chrom, 'HAVANA', 'transcript', str(ts + 1), str(te),
                                        '.', g.strand, '.', at]))
                recs = []
                u5 = 'UTR' if self.style == 'GENCODE' else 'five_prime_utr'
                u3 = 'UTR' if self.style == 'GENCODE' else 'three_prime_utr'
                for n, (s, e) in enumerate(t.exons):
                    recs.append(('exon', s, e, '.', at + f' exon_number {n + 1};'))
                for s, e, f in t.cds:
                    a2 = at
                    if t.protein_id and self.style != 'GENCODE':
                        a2 += f' protein_id "{t.protein_id}";'
                    recs.append(('CDS', s, e, '.' if f is None else str(f), a2))
                for s, e in t.start_codon:
                    recs.append(('start_codon', s, e, '0', at))
                for s, e in t.stop_codon:
                    recs.append(('stop_codon', s, e, '0', at))
                for s, e in t.utr5:
                    recs.append((u5, s, e, '.', at))
                for s, e in t.utr3:
                    recs.append((u3, s, e, '.', at))
                for s, e in t.sec:
                    recs.append(('Selenocysteine', s, e, '.', at))
                if t.order == 'genomic':
                    recs.sort(key=lambda r: (r[1], r[2], r[0]))
                elif t.order == 'tx':
                    k = (lambda r: (r[1], r[0])) if g.strand == '+' else (lambda r: (-r[2], r[0]))
                    recs.sort(key=k)
                elif t.order == 'rev':
                    recs.sort(key=lambda r: (-r[1], r[0]))
                else:
                    recs = t.order(recs)
                for typ, s, e, fr, a in recs:
                    lines.append('\t'.join([g.chrom, 'HAVANA', typ, str(s + 1), str(e), '.',
                                            g.strand, fr, a]))
        nh = len(self.header)
        for k, note in self.na_notes.items():       # an attribute the loaders do not keep
            if nh + k < len(lines):
                lines[nh + k] += f' note "{note}";'
        return '\n'.join(lines) + '\n'

    def n_record_lines(self):
        return self.gtf_text().count('\n') - len(self.header)

    def fasta_text(self):
        out = []
        for k, v in self.chroms.items():
            out.append(f'>{k}')
            for i in range(0, len(v), 60):
                out.append(v[i:i + 60])
        return '\n'.join(out) + '\n'


def gen_annotation(rng, ngenes=None, case=0):
    a = Anno()
    a.style = rng.choice(['GENCODE', 'ENSEMBL'])
    names = ['chr1', 'chrX'] if a.style == 'GENCODE' else ['1', '17']
    if rng.random() < 0.6:
        a.header = ['##description: generated annotation', '##provider: VERIF', '#!genome-build X']
    cursor = {c: rng.randint(0, 6) for c in names}
    if ngenes is None:
        ngenes = rng.randint(1, 4)
    for gi in range(ngenes):
        g = Gene()
        g.id = f'ENSG{case % 1000:03d}{gi:04d}.{rng.randint(1, 9)}' if a.style == 'GENCODE' \
            else f'ENSG{case % 1000:03d}{gi:04d}'
        g.name = f'GN{gi}'
        g.chrom = rng.choice(names)
        g.strand = rng.choice('+-')
        g.biotype = rng.choice(['protein_coding', 'protein_coding', 'lncRNA'])
        pad_l, pad_r = rng.choice([0, 0, 1, 3]), rng.choice([0, 0, 2, 4])
        pos = cursor[g.chrom] + rng.randint(0, 5) + pad_l
        nex = rng.choice([1, 2, 2, 3, 3, 4, 5, 6, 7, 8])
        pool = []
        for _ in range(nex):
            ln = rng.choice([1, 2, 3, 4, 5, 7, 9, 12, 15, 20, 30])
            pool.append((pos, pos + ln))
            pos += ln + rng.choice([1, 1, 2, 3, 5, 8, 13, 20])
        niso = rng.choice([1, 1, 2, 2, 3, 4])
        for ti in range(niso):
            t = Tx()
            t.id = (g.id.split('.')[0].replace('ENSG', 'ENST') + f'{ti}'
                    + ('.2' if a.style == 'GENCODE' else ''))
            t.gene, t.chrom, t.strand = g.id, g.chrom, g.strand
            k = rng.randint(1, nex)
            chosen = sorted(rng.sample(range(nex), k)) if ti > 0 else list(range(nex))
            exs = []
            for j in chosen:
                s, e = pool[j]
                if ti > 0 and e - s > 1 and rng.random() < 0.3:   # alternative splice site
                    if rng.random() < 0.5:
                        s += rng.randint(1, e - s - 1)
                    else:
                        e -= rng.randint(1, e - s - 1)
                exs.append((s, e))
            t.exons = exs
            t.order = rng.choice(['tx', 'tx', 'genomic', 'rev', 'shuffle'])
            if t.order == 'shuffle':
                sub = common.rng_for(rng.randint(0, 1 << 30), 'C11', 'shuffle')
                t.order = (lambda r, sub=sub: sub.sample(r, len(r)))
            L = t.length()
            if g.biotype == 'protein_coding' and L >= 4 and rng.random() < 0.8:
                ca = rng.randint(0, L - 3)
                cb = rng.randint(ca + 1, L)
                if rng.random() < 0.15:
                    cb = L                              # no 3' UTR
                if rng.random() < 0.15:
                    ca = 0
                f0 = rng.choice([0, 0, 0, 1, 2])
                t.f0 = f0
                pcs = t.pieces(ca, cb)
                order = pcs if g.strand == '+' else list(reversed(pcs))
                cum, frames = 0, {}
                for pc in order:
                    frames[pc] = f0 if cum == 0 else (3 - ((cum - f0) % 3)) % 3
                    cum += pc[1] - pc[0]
                t.cds = [(s, e, frames[(s, e)]) for s, e in pcs]
                t.protein_id = t.id.replace('ENST', 'ENSP')
                stop_len = 3 if (cb + 3 <= L and rng.random() < 0.7) else 0
                if stop_len:
                    t.stop_codon = t.pieces(cb, cb + 3)
                utr3_from = cb + (stop_len if rng.random() < 0.5 else 0)
                if rng.random() < 0.9:
                    t.utr5 = t.pieces(0, ca)
                    t.utr3 = t.pieces(utr3_from, L)
                if f0 == 0 and cb - ca >= 3 and rng.random() < 0.8:
                    t.start_codon = t.pieces(ca, ca + 3)
                if f0 != 0 or rng.random() < 0.1:
                    t.tags.append('cds_start_NF')
                    t.tags.append('mRNA_start_NF')
                if rng.random() < 0.15:
                    t.tags.append('mRNA_end_NF')
                ncod = (cb - ca - f0) // 3
                if ncod >= 2 and rng.random() < 0.45:
                    for _ in range(rng.choice([1, 1, 2])):
                        j = rng.randint(1, ncod - 1)
                        sp = t.pieces(ca + f0 + 3 * j, ca + f0 + 3 * j + 3)
                        if len(sp) == 1:
                            if sp[0] not in t.sec:
                                t.sec.append(sp[0])
                        elif any(a_ < sp[-1][1] and sp[0][0] < b_ for a_, b_ in t.sec):
                            pass                       # this codon already carries its record(s)
                        elif rng.random() < 0.5:
                            t.sec.append((sp[0][0], sp[-1][1]))      # record spanning the intron
                        else:
                            # GENCODE style: one partial record (1 + 2 or 2 + 1 nt) per exon piece
                            t.sec.extend(sp)
                    t.sec.sort()
            if rng.random() < 0.6:
                t.tags.insert(0, 'basic')
            if rng.random() < 0.2:
                t.tags.append('Ensembl_canonical')
            g.txs.append(t)
        g.start = min(t.exons[0][0] for t in g.txs) - pad_l
        g.end = max(t.exons[-1][1] for t in g.txs) + pad_r
        if g.start < 0:
            g.start = 0
        cursor[g.chrom] = g.end + rng.randint(0, 10)
        a.genes.append(g)
    for c in names:
        n = cursor[c] + rng.randint(0, 8)
        seq = ''.join(rng.choice('ACGT') if rng.random() > 0.02 else 'N' for _ in range(n))
        a.chroms[c] = seq
    return a


# non-ASCII text (UTF-8: 2, 3 and 4 bytes per character; no white space, quote or separator)
NA_WORDS = ['Müller', 'größe', 'café', "5′-UTR", 'α-Untereinheit', '遺伝子', 'Ångström', 'naïve',
            '🧬', 'β2′', 'señal', 'Łódź', '𝛼chain']
NA_NAME = ['ä', 'ö', 'ü', 'ß', 'é', '′', 'α', '子', '🧬', 'Å']


def add_nonascii(a: 'Anno', rng):
    """put non-ASCII (multi-byte UTF-8) text into the annotation file: a `##` comment at the top,
    a `note "…"` attribute (not kept by the loaders) on some records, a gene_name (kept) with an
    umlaut / prime / CJK / 4-byte character.  One or more placements; the models are unchanged but
    for gene_name, the byte offsets of every later record are no longer the character offsets."""
    where = [w for w in ('comment', 'note', 'gene_name') if rng.random() < 0.55]
    if not where:
        where = [rng.choice(['comment', 'note', 'gene_name'])]
    a._gtf = None
    if 'comment' in where:
        extra = ['##contact: ' + ' '.join(rng.sample(NA_WORDS, rng.randint(1, 4)))]
        if rng.random() < 0.4:
            extra.append('#!note ' + rng.choice(NA_WORDS) * rng.randint(1, 3))
        a.header = extra + a.header if rng.random() < 0.5 else a.header + extra
    if 'gene_name' in where:
        # the first gene always (every later record shifts), each other gene with p = 0.4
        for gi, g in enumerate(a.genes):
            if gi == 0 or rng.random() < 0.4:
                c = rng.choice(NA_NAME)
                g.name = rng.choice([f'GN{c}{gi}', f'{c}GN{gi}', f'GN{gi}{c}', f'G{c}{c}N{gi}'])
    if 'note' in where:
        n = a.n_record_lines()
        a._gtf = None
        ks = {0} if rng.random() < 0.5 else set()
        ks |= {rng.randrange(n) for _ in range(rng.randint(1, max(1, n // 6)))}
        a.na_notes = {k: ' '.join(rng.sample(NA_WORDS, rng.randint(1, 3))) for k in sorted(ks)}
    a.nonascii = where
    a._gtf = None
    return where


# ------------------------------------------------------------------ real side
def ivs(l):
    return ','.join(f'{s}-{e}' for s, e in l) if l else '.'


def classify(fn, *args, intron_msg=None, reject='O'):
    try:
        return str(int(fn(*args)))
    except ValueError as e:
        if intron_msg is not None and str(e) == intron_msg:
            return 'I'
        return reject
    except Exception as e:     # noqa
        return 'X:' + type(e).__name__


def feat_key(f, attrs=True):
    k = [str(f.type).lower(), int(f.location.start), int(f.location.end), f.location.strand,
         f.frame, f.chrom]
    if attrs:
        k.append(sorted((a, list(v) if isinstance(v, list) else v)
                        for a, v in f.attributes.items()))
    return k


LISTS = ['cds', 'exon', 'start_codon', 'stop_codon', 'utr', 'five_utr', 'three_utr',
         'selenocysteine']


def tx_dump(m, attrs=True):
    d = {'transcript': feat_key(m.transcript, True), 'source': m.transcript.source}
    for l in LISTS:
        d[l] = [feat_key(x, attrs) for x in getattr(m, l)]
    for k in ['is_protein_coding', 'transcript_id', 'gene_id', 'protein_id', 'gene_name',
              'gene_type']:
        d[k] = getattr(m, k)
    d['nf'] = [m.is_cds_start_nf(), m.is_mrna_end_nf()]
    return d


def gene_dump(m):
    return {'gene': feat_key(m, True), 'transcripts': sorted(m.transcripts),
            'id': m.gene_id, 'name': m.gene_name}


class Loaded:
    pass


def load_all(a: Anno, tmp: str, rng, stage=None):
    """write files, load through the three real readers; stage[0] names the step that runs"""
    stage = [None] if stage is None else stage
    from moPepGen import gtf, dna, aa
    from moPepGen.index import IndexDir
    from Bio.Seq import Seq
    L = Loaded()
    gtf_path = os.path.join(tmp, 'anno.gtf')
    fa_path = os.path.join(tmp, 'genome.fa')
    with open(gtf_path, 'w', encoding='utf-8', newline='\n') as fh:
        fh.write(a.gtf_text())
    with open(fa_path, 'w') as fh:
        fh.write(a.fasta_text())
    L.gtf_path = gtf_path
    L.genome = dna.DNASeqDict()
    L.genome.dump_fasta(fa_path)
    stage[0] = 'fully parsed annotation: GenomicAnnotation.dump_gtf'
    L.full = gtf.GenomicAnnotation()
    L.full.dump_gtf(gtf_path)
    L.items0 = anno_items(L.full)       # as parsed, before check_protein_coding
    stage[0] = 'on-disk annotation (raw): GenomicAnnotationOnDisk.generate_index'
    L.raw = gtf.GenomicAnnotationOnDisk()
    L.raw.generate_index(gtf_path)
    stage[0] = None
    # proteome: random subset of the coding transcripts, some with an internal stop
    prot = aa.AminoAcidSeqDict()
    L.prot_keys = {}
    for g in a.genes:
        for t in g.txs:
            if t.cds and rng.random() < 0.8:
                s = 'MKT*A' if rng.random() < 0.15 else 'MKTAYR'
                L.prot_keys[t.id] = s
    def mk():
        p = aa.AminoAcidSeqDict()
        for k, s in L.prot_keys.items():
            p[k] = aa.AminoAcidSeqRecord(Seq(s), _id=k, transcript_id=k)
        return p
    L.mk_proteome = mk
    idx_dir = Path(tmp) / 'index'
    idx_dir.mkdir()
    idx = IndexDir(idx_dir)
    stage[0] = 'on-disk annotation (idx): IndexDir.save_annotation (index + coding check)'
    saved = idx.save_annotation(Path(gtf_path), source=None, proteome=mk(),
                                invalid_protein_as_noncoding=True, symlink=False)
    idx.metadata.source = saved.source
    stage[0] = 'on-disk annotation (idx): IndexDir.load_annotation'
    L.idx = idx.load_annotation()
    L.saved = saved
    stage[0] = 'fully parsed annotation: check_protein_coding'
    L.full.check_protein_coding(mk(), True)
    stage[0] = 'on-disk annotation (raw): check_protein_coding (loads every transcript)'
    L.raw.check_protein_coding(mk(), True)
    stage[0] = None
    return L


def close_all(L):
    for x in (L.raw, L.idx, L.saved):
        try:
            if x.handle:
                x.handle.close()
                x.handle = None
        except Exception:   # noqa
            pass


def run_annotation(ctx, a: Anno, L, S, case_id, rng):
    """append protocol cases for one annotation to the stream buffers S and
    evaluate the direct predicates"""
    from moPepGen import ERROR_INDEX_IN_INTRON
    from moPepGen.SeqFeature import FeatureLocation
    from moPepGen.gtf.GTFSeqFeature import GTFSeqFeature
    from moPepGen import err
    annos = [L.full, L.raw, L.idx]
    desc = None

    def describe():
        nonlocal desc
        if desc is None:
            desc = a.desc()
        return desc

    def viol(what, extra, key=None):
        d = dict(describe())
        d.update(extra)
        ctx.add_violation(what, d, finding_key=key)

    for gi, g in enumerate(a.genes):
        anno = annos[(case_id + gi) % 3]
        chrom = a.chroms[g.chrom]
        lo, hi = max(0, g.start - 3), g.end + 3
        glen = g.end - g.start
        obj = (case_id, g.id, None)
        r = ','.join(classify(anno.coordinate_genomic_to_gene, p, g.id) for p in range(lo, hi))
        S['g2gene'].append((f'C11\tg2gene\t{g.strand}\t{g.start}-{g.end}\t{lo}\t{hi}', r, obj))
        r2 = ','.join(classify(anno.coordinate_gene_to_genomic, i, g.id)
                      for i in range(0, glen + 3))
        S['gene2g'].append((f'C11\tgene2g\t{g.strand}\t{g.start}-{g.end}\t0\t{glen + 3}', r2, obj))
        gseq = str(anno.genes[g.id].get_gene_sequence(L.genome[g.chrom]).seq)
        S['geneseq'].append((f'C11\tgeneseq\t{g.strand}\t{g.start}-{g.end}\t{chrom}', gseq, obj))
        # direct predicates: gene maps inverse, gene sequence pointwise
        fwd = r.split(',')
        bwd = r2.split(',')
        for p, x in zip(range(lo, hi), fwd):
            inside = g.start <= p < g.end
            if inside != x.isdigit() or (inside and bwd[int(x)] != str(p)):
                viol('gene<->genomic maps are not mutually inverse / range check wrong',
                     {'gene': g.id, 'genomic': p, 'to_gene': x})
                break
        for i in range(glen):
            p = int(bwd[i])
            c = chrom[p] if g.strand == '+' else COMP[chrom[p]]
            if not (g.start <= p < g.end) or i >= len(gseq) or gseq[i] != c:
                viol('gene sequence differs from the strand-corrected genome',
                     {'gene': g.id, 'gene_index': i})
                break
        for ti, t in enumerate(g.txs):
            anno = annos[(case_id + gi + ti + 1) % 3]
            tm = anno.transcripts[t.id]
            obj = (case_id, g.id, t.id)
            ex = ivs(t.exons)
            st = t.strand
            L_ = t.length()
            r = ','.join(classify(tm.get_transcript_index, p, intron_msg=ERROR_INDEX_IN_INTRON)
                         for p in range(lo, hi))
            S['txidx'].append((f'C11\ttxidx\t{st}\t{ex}\t{lo}\t{hi}', r, obj))
            r2 = ','.join(classify(anno.coordinate_transcript_to_genomic, i, t.id)
                          for i in range(0, L_ + 3))
            S['tx2g'].append((f'C11\ttx2g\t{st}\t{ex}\t0\t{L_ + 3}', r2, obj))
            r3 = ','.join(classify(anno.coordinate_gene_to_transcript, i, g.id, t.id,
                                   intron_msg=ERROR_INDEX_IN_INTRON)
                          for i in range(0, glen + 3))
            S['gene2tx'].append((f'C11\tgene2tx\t{st}\t{g.start}-{g.end}\t{ex}\t0\t{glen + 3}',
                                 r3, obj))

            def tx2gene(i):
                return anno.coordinate_genomic_to_gene(
                    anno.coordinate_transcript_to_genomic(i, t.id), g.id)
            r4 = ','.join(classify(tx2gene, i) for i in range(0, L_ + 3))
            S['tx2gene'].append((f'C11\ttx2gene\t{st}\t{g.start}-{g.end}\t{ex}\t0\t{L_ + 3}',
                                 r4, obj))
            r5 = ','.join('1' if tm.is_exonic(p) else '0' for p in range(lo, hi))
            S['exonic'].append((f'C11\texonic\t{st}\t{ex}\t{lo}\t{hi}', r5, obj))
            r6 = ','.join(classify(tm.get_upstream_exon_end, p, reject='F') for p in range(lo, hi))
            S['upend'].append((f'C11\tupend\t{st}\t{ex}\t{lo}\t{hi}', r6, obj))
            r7 = ','.join(classify(tm.get_downstream_exon_start, p, reject='F')
                          for p in range(lo, hi))
            S['downstart'].append((f'C11\tdownstart\t{st}\t{ex}\t{lo}\t{hi}', r7, obj))
            S['txlen'].append((f'C11\ttxlen\t{ex}', str(tm.transcript_len()), obj))
            # sequence + ORF + Sec
            tm.remove_cached_seq()
            try:
                sq = tm.get_transcript_sequence(L.genome[t.chrom])
                seq = str(sq.seq)
                orf = 'none' if sq.orf is None else f'{int(sq.orf.start)},{int(sq.orf.end)}'
                sec = ','.join(f'{int(x.start)}-{int(x.end)}' for x in sq.selenocysteine)
            except ValueError as e:
                seq = 'reject:no-exon' if 'no exon' in str(e) else 'X:ValueError'
                orf = sec = 'I' if str(e) == ERROR_INDEX_IN_INTRON else (
                    'B' if str(e).startswith('End location') else 'O')
                sq = None
            except Exception as e:     # noqa
                seq = orf = sec = 'X:' + type(e).__name__
                sq = None
            cds = ','.join(f'{s}-{e}:{"." if f is None else f}' for s, e, f in t.cds) or '.'
            S['orf'].append((f'C11\torf\t{st}\t{ex}\t{cds}\t{ivs(t.utr3)}', orf, obj))
            if sq is not None:       # one Python function: a raise hides the other outputs
                S['txseq'].append((f'C11\ttxseq\t{st}\t{ex}\t{chrom}', seq, obj))
                S['sec'].append((f'C11\tsec\t{st}\t{ex}\t{ivs(t.sec)}', sec, obj))
            # direct predicates
            fwd, bwd = r.split(','), r2.split(',')
            exonic = set()
            for s, e in t.exons:
                exonic.update(range(s, e))
            bad = None
            for p, x in zip(range(lo, hi), fwd):
                if p in exonic:
                    if not x.isdigit() or int(x) >= L_ or bwd[int(x)] != str(p):
                        bad = (p, x)
                elif t.exons[0][0] <= p < t.exons[-1][1]:
                    if x != 'I':
                        bad = (p, x)
                elif x != 'O':
                    bad = (p, x)
                if bad:
                    break
            if bad is None:
                for i in range(L_ + 3):
                    x = bwd[i]
                    if i < L_:
                        if not x.isdigit() or int(x) not in exonic \
                                or fwd[int(x) - lo] != str(i):
                            bad = (i, x)
                    elif x != 'O':
                        bad = (i, x)
                    if bad:
                        break
            if bad:
                viol('transcript<->genomic maps are not mutually inverse / intronic or '
                     'out-of-range position not rejected',
                     {'transcript': t.id, 'query': bad[0], 'result': bad[1]})
            elif sq is not None:
                if len(seq) != L_:
                    viol('transcript sequence length differs from transcript_len',
                         {'transcript': t.id})
                else:
                    for i in range(L_):
                        p = int(bwd[i])
                        c = chrom[p] if st == '+' else COMP[chrom[p]]
                        if seq[i] != c:
                            viol('transcript sequence differs from the strand-corrected genome '
                                 'at the mapped position', {'transcript': t.id, 'index': i})
                            break
                if t.cds:
                    first = t.cds[0][0] if st == '+' else t.cds[-1][1] - 1
                    if sq.orf is None or int(sq.orf.start) - t.f0 >= L_ or \
                            bwd[int(sq.orf.start) - t.f0] != str(first):
                        viol('ORF start does not agree with the first CDS base + frame',
                             {'transcript': t.id, 'orf': orf})
                    else:
                        e_, s_ = int(sq.orf.end), int(sq.orf.start)
                        bound = L_
                        if t.utr3:
                            u = t.utr3[0][0] if st == '+' else t.utr3[-1][1] - 1
                            bound = int(fwd[u - lo])
                        if (e_ - s_) % 3 != 0 or not (e_ <= bound < e_ + 3):
                            viol('ORF end is not the frame-aligned 3\'UTR start / sequence end',
                                 {'transcript': t.id, 'orf': orf})
                elif sq.orf is not None:
                    viol('ORF attached to a transcript without CDS', {'transcript': t.id})
                for (s, e), loc in zip(sorted(t.sec, key=lambda x: x[0] if st == '+' else -x[1]),
                                       sq.selenocysteine):
                    f5 = s if st == '+' else e - 1
                    l3 = e - 1 if st == '+' else s
                    if bwd[int(loc.start)] != str(f5) or bwd[int(loc.end) - 1] != str(l3):
                        viol('selenocysteine position does not agree with the Sec feature',
                             {'transcript': t.id, 'sec': [s, e]})
            # exon / intron look-ups on the fully parsed annotation
            feats = list(t.exons)
            for s, e in t.exons[:3]:
                feats += [(s + 1, e + 1), (s, e + 1), (max(0, s - 1), e)]
            for t2 in g.txs:
                feats += t2.exons[:2]
            feats = feats[:24]
            strand = 1 if st == '+' else -1

            def mk(s, e):
                return GTFSeqFeature(chrom=g.chrom, attributes={}, type='exon',
                                     location=FeatureLocation(start=s, end=e, strand=strand))

            def fe(s, e):
                try:
                    return str(L.full.find_exon_index(t.id, mk(s, e), 'genomic'))
                except err.ExonNotFoundError:
                    return 'E'
                except Exception as ex_:      # noqa
                    return 'X:' + type(ex_).__name__
            S['findexon'].append((f'C11\tfindexon\t{st}\t{ex}\t{ivs(feats)}',
                                  ','.join(fe(s, e) for s, e in feats), obj))
            introns = [(t.exons[i][1], t.exons[i + 1][0]) for i in range(len(t.exons) - 1)]
            if introns:
                fi_feats = list(introns)
                for s, e in introns[:3]:
                    fi_feats += [(s + 1, e), (s, e - 1) if e - 1 > s else (s, e), (s + 2, e + 1),
                                 (max(0, s - 1), e + 2)]
                if len(introns) > 1:
                    fi_feats.append((introns[0][0], introns[1][1]))    # spans an exon
                for rs, re_ in [((0, 0), (0, 0)), ((-2, 2), (-2, 2)), ((-1, 0), (0, 3))]:
                    def fi(s, e):
                        try:
                            return str(L.full.find_intron_index(
                                t.id, mk(s, e), 'genomic', intron_start_range=rs,
                                intron_end_range=re_))
                        except err.IntronNotFoundError:
                            return 'N'
                        except Exception as ex_:      # noqa
                            return 'X:' + type(ex_).__name__
                    S['findintron'].append((
                        f'C11\tfindintron\t{st}\t{ex}\t{rs[0]}:{rs[1]}\t{re_[0]}:{re_[1]}'
                        f'\t{ivs(fi_feats)}', ','.join(fi(s, e) for s, e in fi_feats), obj))


def check_parse(a, L, viol):
    """the fully parsed annotation must be what the harness wrote (ids, tags, coding flag,
    record lists with frames, UTR split, strand, 0-based half-open locations)"""
    def locs(lst, frames=False):
        if frames:
            return [(int(x.location.start), int(x.location.end), x.frame) for x in lst]
        return [(int(x.location.start), int(x.location.end)) for x in lst]
    if sorted(L.full.genes) != sorted(g.id for g in a.genes):
        viol('parsed gene ids differ from the GTF', {})
        return
    for g in a.genes:
        gm = L.full.genes[g.id]
        strand = 1 if g.strand == '+' else -1
        got = [gm.chrom, int(gm.location.start), int(gm.location.end), gm.strand,
               list(gm.transcripts), gm.gene_name, gm.gene_id]
        want = [g.chrom, g.start, g.end, strand, [t.id for t in g.txs], g.name, g.id]
        if got != want:
            viol('parsed gene model differs from the GTF', {'gene': g.id, 'got': got,
                                                            'want': want})
            return
        for t in g.txs:
            tm = L.full.transcripts.get(t.id)
            if tm is None:
                viol('transcript missing after parsing', {'transcript': t.id})
                return
            gencode = a.style == 'GENCODE'
            coding = t.id in L.prot_keys and '*' not in L.prot_keys[t.id]
            want = {
                'ids': [t.id, g.id, g.name, t.protein_id if t.cds or gencode else None],
                'tx': [t.chrom, t.exons[0][0], t.exons[-1][1], strand],
                'tags': list(t.tags),
                'nf': ['cds_start_NF' in t.tags, 'mRNA_end_NF' in t.tags],
                'coding': coding,
                'exon': list(t.exons), 'cds': list(t.cds),
                'utr': sorted(t.utr5 + t.utr3) if gencode else [],
                'five_utr': list(t.utr5), 'three_utr': list(t.utr3),
                'start_codon': list(t.start_codon), 'stop_codon': list(t.stop_codon),
                'sec': list(t.sec),
                'strands': [strand],
            }
            allrec = tm.exon + tm.cds + tm.utr + tm.five_utr + tm.three_utr + \
                tm.start_codon + tm.stop_codon + tm.selenocysteine
            got = {
                'ids': [tm.transcript_id, tm.gene_id, tm.gene_name, tm.protein_id],
                'tx': [tm.transcript.chrom, int(tm.transcript.location.start),
                       int(tm.transcript.location.end), tm.transcript.strand],
                'tags': list(tm.transcript.attributes.get('tag', [])),
                'nf': [tm.is_cds_start_nf(), tm.is_mrna_end_nf()],
                'coding': tm.is_protein_coding,
                'exon': locs(tm.exon), 'cds': locs(tm.cds, True), 'utr': locs(tm.utr),
                'five_utr': locs(tm.five_utr), 'three_utr': locs(tm.three_utr),
                'start_codon': locs(tm.start_codon), 'stop_codon': locs(tm.stop_codon),
                'sec': locs(tm.selenocysteine),
                'strands': sorted({x.strand for x in allrec}),
            }
            if got != want:
                diff = [k for k in want if want[k] != got[k]]
                viol('parsed transcript model differs from the GTF that was written',
                     {'transcript': t.id, 'fields': diff, 'got': {k: got[k] for k in diff},
                      'want': {k: want[k] for k in diff}})
                return


def compare_models(ctx, a, L, rng, case_id, viol):
    """on-disk (raw and idx) == fully parsed, for every key, random order, repeats"""
    tx_ids = [t.id for g in a.genes for t in g.txs]
    gene_ids = [g.id for g in a.genes]
    ref_tx = {k: tx_dump(L.full.transcripts[k]) for k in tx_ids}
    ref_g = {k: gene_dump(L.full.genes[k]) for k in gene_ids}
    n = 0
    na = (' (annotation file with non-ASCII UTF-8 text in: ' + ', '.join(a.nonascii) + ')') \
        if a.nonascii else ''
    for name, od in (('raw', L.raw), ('idx', L.idx)):
        if sorted(od.transcripts.keys()) != sorted(tx_ids) or \
                sorted(od.genes.keys()) != sorted(gene_ids):
            viol(f'on-disk ({name}) annotation has a different key set', {})
            continue
        # three access orders on the same object: random with repeats, forward (file order),
        # reverse (every access seeks backwards); which comes first rotates with the case
        allk = tx_ids + gene_ids
        parts = [[rng.choice(allk) for _ in range(3 * len(allk))], allk, allk[::-1]]
        r = (case_id + (name == 'idx')) % 3
        seq = [k for part in parts[r:] + parts[:r] for k in part]
        for pos, k in enumerate(seq):
            n += 1
            try:
                if k in ref_tx:
                    got, want = tx_dump(od.transcripts[k]), ref_tx[k]
                else:
                    got, want = gene_dump(od.genes[k]), ref_g[k]
            except Exception as e:      # noqa
                viol(f'on-disk ({name}) access raised {type(e).__name__}: {str(e)[:200]}' + na,
                     {'key': k, 'access_no': pos, 'accesses': seq[:pos + 1],
                      'nonascii': list(a.nonascii)})
                break
            if got != want:
                diff = [f for f in want if want[f] != got.get(f)]
                viol(f'on-disk ({name}) model differs from the fully parsed model' + na,
                     {'key': k, 'fields': diff, 'ondisk': {f: got.get(f) for f in diff},
                      'full': {f: want[f] for f in diff}, 'access_no': pos,
                      'accesses': seq[:pos + 1], 'nonascii': list(a.nonascii)})
                break
    if L.full.source != L.raw.source:
        ctx.count('models', 'anno_source_differs')
    ctx.count('models', 'accesses', n)
    if a.nonascii:
        ctx.count('models', 'nonascii_annotations')
        ctx.count('models', 'nonascii_accesses', n)
        for w in a.nonascii:
            ctx.count('models', 'nonascii_in_' + w)
    return n


def roundtrip(ctx, a, L, viol):
    """GtfIO.write -> dump_gtf must preserve all models"""
    from moPepGen import gtf
    from moPepGen.gtf import GtfIO
    buf = io.StringIO()
    GtfIO.write(buf, L.full)
    text = buf.getvalue()
    rt = gtf.GenomicAnnotation()
    try:
        rt.dump_gtf(io.StringIO(text))
    except Exception as e:    # noqa
        viol(f'GTF written by GtfIO.write cannot be parsed back: {type(e).__name__}: {e}', {})
        return
    rt_keys = (sorted(rt.genes), sorted(rt.transcripts))
    if rt_keys != (sorted(L.full.genes), sorted(L.full.transcripts)):
        viol('write->parse changes the set of genes / transcripts', {})
        return
    dropped_only = True
    witness = None
    for k in L.full.genes:
        x, y = gene_dump(L.full.genes[k]), gene_dump(rt.genes[k])
        if x != y:
            viol('write->parse changes a gene model', {'key': k, 'before': x, 'after': y})
            return
    for k in L.full.transcripts:
        m0, m1 = L.full.transcripts[k], rt.transcripts[k]
        x, y = tx_dump(m0, attrs=False), tx_dump(m1, attrs=False)
        # the inferred source of the written file is not part of the model
        x.pop('source'); y.pop('source')
        if x == y:
            continue
        diff = sorted(f for f in x if x[f] != y[f])
        if set(diff) <= {'five_utr', 'three_utr', 'start_codon', 'stop_codon'} and \
                all(y[f] == [] for f in diff):
            # consequence for the API: ORF end
            chrom = L.genome[m0.transcript.chrom]
            m0.remove_cached_seq()
            try:
                o0 = m0.get_transcript_sequence(chrom).orf
                o1 = m1.get_transcript_sequence(chrom).orf
            except (ValueError, TypeError):
                continue
            w = {'key': k, 'dropped': diff,
                 'orf_before': None if o0 is None else [int(o0.start), int(o0.end)],
                 'orf_after': None if o1 is None else [int(o1.start), int(o1.end)]}
            if witness is None or (w['orf_before'] != w['orf_after']
                                   and witness['orf_before'] == witness['orf_after']):
                witness = w
            ctx.count('roundtrip', 'tx_with_dropped_records')
            if w['orf_before'] != w['orf_after']:
                ctx.count('roundtrip', 'tx_orf_end_changed')
        else:
            dropped_only = False
            viol('write->parse changes a transcript model',
                 {'key': k, 'fields': diff, 'before': {f: x[f] for f in diff},
                  'after': {f: y[f] for f in diff}})
            return
    if witness is not None and dropped_only:
        viol('GtfIO.write drops five/three_prime_utr, start_codon and stop_codon records: '
             'the models (and get_cds_end_index) change after a round trip',
             {'witness': witness, 'written_gtf': text if len(text) < 6000 else text[:6000]},
             KF_WRITE)
    ctx.count('roundtrip', 'annotations')


def cache_stream(ctx, a, L, rng, case_id, S, viol):
    """access histories against GenePointerDict / TranscriptPointerDict with a small bound"""
    from moPepGen import gtf
    from moPepGen.gtf import GTFPointer
    tx_ids = [t.id for g in a.genes for t in g.txs]
    gene_ids = [g.id for g in a.genes]
    ref_tx = {k: tx_dump(L.full.transcripts[k]) for k in tx_ids}
    ref_g = {k: gene_dump(L.full.genes[k]) for k in gene_ids}
    old = (GTFPointer.GENE_DICT_CACHE_SIZE, GTFPointer.TX_DICT_CACHE_SIZE)
    try:
        for which in ('tx', 'gene'):
            keys = tx_ids if which == 'tx' else gene_ids
            size = rng.choice([1, 2, 3, 5, 10]) if len(keys) <= 10 else rng.choice([2, 3, 10])
            faulty = rng.random() < 0.35
            GTFPointer.GENE_DICT_CACHE_SIZE = size
            GTFPointer.TX_DICT_CACHE_SIZE = size
            od = gtf.GenomicAnnotationOnDisk()
            od.generate_index(L.gtf_path)
            od.check_protein_coding(L.mk_proteome(), True)
            d = od.transcripts if which == 'tx' else od.genes
            ref = ref_tx if which == 'tx' else ref_g
            dump = tx_dump if which == 'tx' else gene_dump
            nv = len(keys)
            hist = []
            for _ in range(rng.randint(10, 60)):
                x = rng.random()
                if faulty and x < 0.12:
                    hist.append(nv + rng.randint(0, 2))
                elif x < 0.4 and hist:
                    hist.append(rng.choice(hist[-4:]))
                else:
                    hist.append(rng.randrange(nv))
            name = lambda i: keys[i] if i < nv else f'MISSING{i}'
            index = {name(i): i for i in range(nv + 3)}
            out = []
            failed_before = False
            for i in hist:
                k = name(i)
                stale_last = (len(d._cached_keys) + 1 > size and len(d._cached_keys) > 0
                              and d._cached_keys[-1] == k)
                try:
                    m = d[k]
                    out.append(str(i))
                    if i >= nv:
                        viol('pointer dict returned a model for an unknown key', {'key': k})
                    elif dump(m) != ref[k]:
                        viol('cached on-disk model differs from the fully parsed model',
                             {'key': k, 'history': [name(j) for j in hist], 'bound': size})
                except KeyError as e:
                    kk = e.args[0] if e.args else None
                    # KeyError(key_pop) from the eviction vs KeyError(k) from get_pointer
                    out.append('K' if (kk != k or i < nv or stale_last) else 'L')
                    if i < nv:
                        viol('valid key raises KeyError after an earlier failed lookup '
                             '(key pushed on _cached_keys before the load)'
                             if failed_before else 'valid key raises KeyError',
                             {'key': k, 'raised': repr(kk), 'bound': size, 'dict': which,
                              'history': [name(j) for j in hist]},
                             KF_CACHE if failed_before else None)
                    failed_before = True
                except Exception as e:     # noqa
                    out.append('X:' + type(e).__name__)
            foreign = [k for k in list(d._cached_keys) + list(d._cache) if k not in index]
            if foreign:
                viol('the pointer cache of a freshly opened on-disk annotation holds keys it was '
                     'never asked for (state shared with another annotation object)',
                     {'foreign_keys': sorted(set(foreign))[:5], 'dict': which,
                      'history': [name(j) for j in hist]})
            dq = ','.join(str(index.get(k, 'F')) for k in d._cached_keys)
            cached = ','.join(str(x) for x in sorted(index[k] for k in d._cache if k in index)) \
                + (',F' if any(k not in index for k in d._cache) else '')
            real = ','.join(out) + '|' + dq + '|' + cached
            S['cache'].append((f'C11\tcache\t{size}\t{nv}\t{",".join(map(str, hist))}', real,
                               (case_id, which, [name(j) for j in hist], size)))
            od.handle.close()
            od.handle = None
    finally:
        GTFPointer.GENE_DICT_CACHE_SIZE, GTFPointer.TX_DICT_CACHE_SIZE = old



# ------------------------------------------------------------------ GTF codec (Model/Gtf.lean)
SEP = '\x1f'          # stands for the tab inside a protocol argument
GTF_STREAMS = ['gtfparse0', 'gtfwrite', 'gtfparse1', 'gtfrt', 'gtfrtn', 'gtfwf', 'gtfwf1', 'gtfclosed',
               'gtfline']
GTF_WHAT = {
    'gtfrtn': 'GtfIO.write -> dump_gtf differs from the proved round trip of the model '
             '(Props.C11.gtf_roundtrip): a model changes when written and parsed back',
    'gtfclosed': 'closure of the GTF round trip (Props.C11.gtf_roundtrip_closed_partial / _closed_of_tx / '
                 '_idempotent_partial): the '
                 'annotation reloaded by GtfIO.write -> dump_gtf is not again ordered / stable / a fixed '
                 'point of a second round trip, where the proved model says it is',
}


def _esc(s):
    return ''.join(c if (c.isascii() and c.isalnum()) or c in '_.:-' else f'%{ord(c)}%'
                   for c in s)


def _opt(v):
    return '!' if v is None else '=' + _esc(v)


def rec_code(f):
    st = {1: '+', -1: '-', 0: '?', None: '.'}[f.location.strand]
    at = []
    for k, v in f.attributes.items():
        if isinstance(v, list):
            at.append(_esc(k) + '*' + '+'.join(_esc(x) if isinstance(x, str) else
                                                 f'?{type(x).__name__}:{_esc(repr(x))}' for x in v))
        elif isinstance(v, str):
            at.append(_esc(k) + '=' + _esc(v))
        else:
            # an attribute value of another type is output of the code under test: encode it
            # (the model then disagrees), never crash on it
            at.append(_esc(k) + f'?{type(v).__name__}:' + _esc(repr(v)))
    return ','.join([_esc(f.chrom), _esc(f.type), str(int(f.location.start)),
                     str(int(f.location.end)), st, '.' if f.frame is None else str(f.frame),
                     '&'.join(at)])


def anno_items(anno):
    """canonical encoding of a GenomicAnnotation = Driver/Gtf.lean `annoCode` (dict orders kept)"""
    items = []
    for gid, gm in anno.genes.items():
        items.append('~'.join(['G', _esc(gid), rec_code(gm),
                               ';'.join(_esc(t) for t in gm.transcripts)]))
    for tid, m in anno.transcripts.items():
        ipc = {None: '!', True: '1', False: '0'}[m.is_protein_coding]
        lists = [m.cds, m.exon, m.start_codon, m.stop_codon, m.utr, m.five_utr, m.three_utr,
                 m.selenocysteine]
        items.append('~'.join(
            ['T', _esc(tid), '!' if m.transcript is None else rec_code(m.transcript), ipc,
             _opt(m.transcript_id), _opt(m.gene_id), _opt(m.protein_id), _opt(m.gene_name)]
            + [';'.join(rec_code(x) for x in l) for l in lists]))
    return items


def erase_items(items):
    """the normal form compared by the round-trip theorem: attribute dicts of the records in
    the eight lists dropped (transcript record, flag, ids, gene models kept)"""
    out = []
    for it in items:
        f = it.split('~')
        if f[0] == 'T':
            for i in range(8, 16):
                f[i] = ';'.join(','.join(r.split(',')[:6] + ['']) for r in f[i].split(';')) if f[i] else ''
        out.append('~'.join(f))
    return out


def canon_items(items):
    """transcript items re-listed gene by gene (Lean `Anno.canon`)"""
    genes = [it for it in items if it.startswith('G~')]
    txs = {it.split('~')[1]: it for it in items if it.startswith('T~')}
    out = list(genes)
    for g in genes:
        tids = g.split('~')[3]
        for t in (tids.split(';') if tids else []):
            if t in txs:
                out.append(txs[t])
    return out


def real_parse(text_or_lines):
    """GenomicAnnotation().dump_gtf on a text -> canonical items or the exception class"""
    from moPepGen import gtf
    anno = gtf.GenomicAnnotation()
    try:
        anno.dump_gtf(io.StringIO(text_or_lines))
    except ValueError as e:
        msg = str(e)
        if msg.startswith('Same gene has multiple records'):
            return None, 'err:ValueError:dup-gene'
        if msg.startswith('Gene ID'):
            return None, 'err:ValueError:gene-not-found'
        if msg.startswith('UTR found but not CDS'):
            return None, 'err:ValueError:utr-no-cds'
        if 'values to unpack' in msg or msg.startswith('End location'):
            return None, 'err:ValueError:line'
        return None, 'crash:ValueError'
    except AttributeError:
        return None, 'err:AttributeError'
    except Exception as e:       # noqa
        return None, 'crash:' + type(e).__name__
    return anno, '\t'.join(anno_items(anno))


def text_arg(text):
    return '\t'.join(ln.replace('\t', SEP) for ln in text.split('\n') if ln != '')


def interleave_gtf(text: str) -> str:
    """the same records with the sub-records of a gene's isoforms INTERLEAVED (as after a sort by
    coordinate): gene line, all transcript lines in their order, then the exon / CDS / UTR / codon
    records round-robin across the isoforms.  Header lines stay in front."""
    head, genes = [], []
    for ln in text.rstrip('\n').split('\n'):
        if ln.startswith('#') or not ln.strip():
            head.append(ln)
            continue
        ft = ln.split('\t')[2]
        if ft == 'gene':
            genes.append([ln, []])
        elif ft == 'transcript':
            genes[-1][1].append([ln, []])
        else:
            genes[-1][1][-1][1].append(ln)
    out = list(head)
    for gl, txs in genes:
        out.append(gl)
        out += [t[0] for t in txs]
        k = 0
        while any(k < len(t[1]) for t in txs):
            out += [t[1][k] for t in txs if k < len(t[1])]
            k += 1
    return '\n'.join(out) + '\n'


def real_ordered(anno):
    """`Anno.ordered` on the real object: the transcripts dict is listed gene by gene, in the order
    of every gene's `transcripts` list"""
    want = [t for gm in anno.genes.values() for t in gm.transcripts if t in anno.transcripts]
    return list(anno.transcripts.keys()) == want


def write_order(m):
    """the records of a transcript model in the order GtfIO.write emits them (the same list
    expression as in `write`; object identity decides which five/three_utr records are shared)"""
    records = m.cds + m.exon
    records.sort()
    records.extend(m.utr)
    records.extend(x for x in m.five_utr + m.three_utr if not any(x is y for y in m.utr))
    records.extend(m.start_codon + m.stop_codon)
    return [m.transcript] + m.selenocysteine + records


def real_stable(anno):
    """`Anno.stable` on the real object, with the REAL key loop: deep copies of the records of
    every transcript, in writing order, go through TranscriptAnnotationModel.add_record of a fresh
    model; no attribute dict may change"""
    import copy
    from moPepGen.gtf.TranscriptAnnotationModel import TranscriptAnnotationModel
    for m in anno.transcripts.values():
        if m.transcript is None:
            return False
        fresh = TranscriptAnnotationModel()
        for r in write_order(m):
            c = copy.deepcopy(r)
            before = rec_code(c)
            fresh.add_record(c.type.lower(), c)
            if rec_code(c) != before:
                return False
    return True


def gtf_codec(ctx, a, L, S, case_id, viol):
    """tie of the GTF codec model: the real parser / writer and the Lean parser / writer run on
    the same texts and models; direct predicates: the theorem's conclusion on the real outputs"""
    from moPepGen.gtf import GtfIO
    obj = (case_id, 'gtf-codec', None)
    # (1) the generated text: real dump_gtf (captured before check_protein_coding) vs parseGtf
    S['gtfparse0'].append(('C11\tgtfparse\t' + text_arg(a.gtf_text()),
                           '\t'.join(L.items0), obj))
    # (1b) the same records with the isoforms of every gene interleaved: same models
    if any(len(g.txs) > 1 for g in a.genes) and not a.nonascii:
        itext = interleave_gtf(a.gtf_text())
        ip, ip_code = real_parse(itext)
        S['gtfparse0'].append(('C11\tgtfparse\t' + text_arg(itext), ip_code, obj))
        ctx.count('gtfcodec', 'interleaved_isoform_files')
        if ip is None:
            viol('a GTF whose isoform records are interleaved cannot be parsed: ' + ip_code,
                 {'gtf': itext[:6000]})
        elif anno_items(ip) != list(L.items0):
            x, y = list(L.items0), anno_items(ip)
            bad = [(p_, q_) for p_, q_ in zip(x, y) if p_ != q_][:1] or [(len(x), len(y))]
            viol('the models parsed from a GTF depend on whether the records of a gene\'s isoforms are '
                 'written block-wise or interleaved', {'blockwise': bad[0][0], 'interleaved': bad[0][1],
                                                       'gtf': itext[:6000]})
    # (2) the loaded models (coding flags set): real GtfIO.write vs writeGtf
    items = anno_items(L.full)
    enc = '\t'.join(items)
    buf = io.StringIO()
    GtfIO.write(buf, L.full)
    text = buf.getvalue()
    S['gtfwrite'].append(('C11\tgtfwrite\t' + enc, '\x1e'.join(text.rstrip('\n').split('\n')), obj))
    # (3) the written text: real dump_gtf vs parseGtf
    rt, rt_code = real_parse(text)
    S['gtfparse1'].append(('C11\tgtfparse\t' + text_arg(text), rt_code, obj))
    # (4) the composition on the model: real write -> parse vs Lean parseGtf (writeGtf model):
    #     gtfrt everything (attribute dicts of all records included; internal), gtfrtn the normal
    #     form the theorem gtf_roundtrip speaks about (observable)
    S['gtfrt'].append(('C11\tgtfrt\t' + enc, rt_code, obj))
    S['gtfrtn'].append(('C11\tgtfrtn\t' + enc, rt_code if rt is None else
                        '\t'.join(erase_items(anno_items(rt))), obj))
    # (5) loader output satisfies the hypotheses of the theorems
    S['gtfwf'].append(('C11\tgtfwf0\t' + enc, 'wf=1,ordered=1,text=1', obj))
    ctx.count('gtfcodec', 'annotations')
    if rt is None:
        viol('GTF written by GtfIO.write cannot be parsed back: ' + rt_code, {'written_gtf': text[:6000]})
        return
    rt_items = anno_items(rt)
    S['gtfwf1'].append(('C11\tgtfwf\t' + '\t'.join(rt_items), 'wf=1,ordered=1,text=1,stable=1', obj))
    # direct predicates (no model): the conclusion of gtf_roundtrip on the real outputs …
    if erase_items(rt_items) != erase_items(canon_items(items)):
        x, y = erase_items(canon_items(items)), erase_items(rt_items)
        bad = [(p, q) for p, q in zip(x, y) if p != q][:1] or [(len(x), len(y))]
        viol('write->parse changes a model (all fields of the normal form: gene records with '
             'attributes and transcript lists, transcript record with attributes, coding flag, '
             'ids, the eight record lists with chromosome, type, interval, strand, frame)',
             {'before': bad[0][0], 'after': bad[0][1]})
        return
    # the inferred `source` of the records is outside the Lean model (a function of the chromosome
    # names); checked here on the real objects: it selects the attribute `biotype` reads
    for k, m0 in L.full.transcripts.items():
        m1 = rt.transcripts[k]
        if m0.transcript.source != m1.transcript.source:
            viol('the inferred annotation source of a transcript record changes on write->parse',
                 {'key': k, 'before': m0.transcript.source, 'after': m1.transcript.source})
            break
    # … and of gtf_roundtrip_exact: a second round trip is the identity, attributes included
    buf2 = io.StringIO()
    GtfIO.write(buf2, rt)
    rt2, rt2_code = real_parse(buf2.getvalue())
    if rt2_code != rt_code:
        viol('a second write->parse is not the identity (attribute dicts included)',
             {'first': rt_code[:3000], 'second': rt2_code[:3000]})
    fix = False
    if rt2 is not None:
        buf3 = io.StringIO()
        GtfIO.write(buf3, rt2)
        fix = buf3.getvalue() == buf2.getvalue()
        if not fix:
            viol('the text written after two round trips differs from the text written after one',
                 {'first': buf2.getvalue()[:3000], 'second': buf3.getvalue()[:3000]})
    # closure (gtf_roundtrip_closed_partial / _closed_of_tx / _idempotent_partial), compared per input: on the model
    # side the driver reloads the model of the loaded annotation and decides wf / ordered / stable on
    # the result, runs a second round trip and compares the written texts; on the real side
    # `ordered` and `stable` are evaluated on the real reloaded object (stable: with the real
    # add_record), idem / fix / same come from the real second and third write; `wf` of the real
    # reloaded object is decided by the driver in the second line (all four predicates on the
    # SECOND real reload).
    b = lambda x: '1' if x else '0'
    S['gtfclosed'].append(('C11\tgtfclosed\t' + enc,
                           f'wf=1,ordered={b(real_ordered(rt))},stable={b(real_stable(rt))},'
                           f'idem={b(rt2_code == rt_code)},fix={b(fix)},same={b(buf2.getvalue() == text)}',
                           obj))
    if rt2 is not None:
        S['gtfclosed'].append(('C11\tgtfwf\t' + '\t'.join(anno_items(rt2)),
                               f'wf=1,ordered={b(real_ordered(rt2))},text=1,stable={b(real_stable(rt2))}',
                               obj))
    if not (real_ordered(rt) and real_stable(rt)):
        if True:
            viol('the annotation reloaded by GtfIO.write -> dump_gtf is not ordered / stable',
                 {'ordered': real_ordered(rt), 'stable': real_stable(rt)})
    if buf2.getvalue() != text:
        # expected for a freshly loaded file: add_record copies the ids of the model onto every
        # later record, so the attribute dicts of the records depend on the record order of the file
        ctx.count('gtfcodec', 'first_written_text_differs_from_second')


KF_EMPTY = 'gtf-write-empty-attribute-value'
KF_STRAND0 = 'gtf-write-unknown-strand'


def _gl(chrom, typ, s, e, strand, frame, attrs):
    return '\t'.join([chrom, 'X', typ, str(s), str(e), '.', strand, frame, attrs])


def edge_texts():
    """hand-made annotations at the edges of the well-formedness predicates"""
    g = 'gene_id "G1"; gene_type "protein_coding"; gene_name "N1";'
    t = 'gene_id "G1"; transcript_id "T1"; gene_type "protein_coding"; gene_name "N1";'
    g2 = 'gene_id "G2"; gene_type "lncRNA";'
    t2 = 'gene_id "G2"; transcript_id "T2"; gene_type "lncRNA";'
    base = [_gl('chr1', 'gene', 1, 100, '+', '.', g), _gl('chr1', 'transcript', 1, 100, '+', '.', t),
            _gl('chr1', 'exon', 1, 40, '+', '.', t), _gl('chr1', 'exon', 61, 100, '+', '.', t)]
    cds = [_gl('chr1', 'CDS', 11, 40, '+', '0', t + ' protein_id "P1";'),
           _gl('chr1', 'CDS', 61, 80, '+', '0', t + ' protein_id "P1";')]
    out = {
        'plain': base,
        'empty-value': [_gl('chr1', 'gene', 1, 100, '+', '.', 'gene_id "G1"; gene_name "";')],
        'strand-unknown': [_gl('chr1', 'gene', 1, 100, '?', '.', g),
                           _gl('chr1', 'transcript', 1, 100, '?', '.', t),
                           _gl('chr1', 'exon', 1, 40, '?', '.', t)],
        'strand-none': [_gl('chr1', 'gene', 1, 100, '.', '.', g),
                        _gl('chr1', 'transcript', 1, 100, '.', '.', t),
                        _gl('chr1', 'exon', 1, 40, '.', '.', t)],
        'inner-spaces-and-quote': [_gl('chr1', 'gene', 1, 100, '-', '.',
                                       'gene_id "G1"; gene_name "A B  C"; gene_type "x"y";')],
        'interleaved': [_gl('chr1', 'gene', 1, 100, '+', '.', g), _gl('chr1', 'gene', 201, 300, '-', '.', g2),
                        _gl('chr1', 'transcript', 201, 300, '-', '.', t2),
                        _gl('chr1', 'transcript', 1, 100, '+', '.', t),
                        _gl('chr1', 'exon', 201, 300, '-', '.', t2), _gl('chr1', 'exon', 1, 100, '+', '.', t)],
        'ensembl-order': [_gl('1', 'gene', 1, 100, '+', '.', 'gene_id "G1"; gene_biotype "protein_coding";'),
                          _gl('1', 'transcript', 1, 100, '+', '.', 'gene_id "G1"; transcript_id "T1";'),
                          _gl('1', 'exon', 1, 100, '+', '.', 'gene_id "G1"; transcript_id "T1";'),
                          _gl('1', 'CDS', 1, 90, '+', '0', 'gene_id "G1"; transcript_id "T1"; protein_id "P1";'),
                          _gl('1', 'five_prime_utr', 1, 0, '+', '.', 'gene_id "G1"; transcript_id "T1";'),
                          _gl('1', 'three_prime_utr', 94, 100, '+', '.', 'gene_id "G1"; transcript_id "T1";'),
                          _gl('1', 'stop_codon', 91, 93, '+', '0', 'gene_id "G1"; transcript_id "T1";')],
        'utr-without-cds': base + [_gl('chr1', 'UTR', 1, 10, '+', '.', t)],
        'no-transcript-record': [base[0], base[2], base[3]],
        'duplicate-gene': [base[0], base[0]],
        'exon-before-gene': [base[2], base[0]],
        'mixed-utr': base + cds + [_gl('chr1', 'UTR', 1, 10, '+', '.', t),
                                   _gl('chr1', 'five_prime_utr', 1, 10, '+', '.', t),
                                   _gl('chr1', 'UTR', 81, 100, '+', '.', t),
                                   _gl('chr1', 'three_prime_utr', 84, 100, '+', '.', t)],
        'two-transcript-records': base + [_gl('chr1', 'transcript', 1, 90, '+', '.', t + ' tag "basic";')],
        'unknown-features': base + [_gl('chr1', 'intron', 41, 60, '+', '.', t),
                                    _gl('chr1', 'Exon', 45, 50, '+', '.', t)],
        'tags': [base[0], _gl('chr1', 'transcript', 1, 100, '+', '.',
                              t + ' tag "basic"; tag "cds_start_NF"; tag "mRNA_end_NF"; protein_id "P9";')]
        + base[2:] + cds,
        'equal-locations': base + cds + [_gl('chr1', 'CDS', 11, 40, '+', '1', t + ' tag "second";')],
        'minus-gencode-utr': [_gl('chrX', 'gene', 1, 100, '-', '.', g), _gl('chrX', 'transcript', 1, 100, '-', '.', t),
                              _gl('chrX', 'UTR', 1, 10, '-', '.', t), _gl('chrX', 'UTR', 81, 100, '-', '.', t),
                              _gl('chrX', 'exon', 1, 40, '-', '.', t), _gl('chrX', 'exon', 61, 100, '-', '.', t),
                              _gl('chrX', 'CDS', 61, 80, '-', '0', t), _gl('chrX', 'CDS', 11, 40, '-', '2', t)],
    }
    return {k: '\n'.join(v) + '\n' for k, v in out.items()}


def real_write(anno):
    from moPepGen.gtf import GtfIO
    buf = io.StringIO()
    try:
        GtfIO.write(buf, anno)
    except AttributeError:
        return None, 'err:AttributeError'
    except KeyError:
        return None, 'err:KeyError'
    except Exception as e:     # noqa
        return None, 'crash:' + type(e).__name__
    return buf.getvalue(), '\x1e'.join(buf.getvalue().rstrip('\n').split('\n'))


def gtf_edge(ctx, S):
    """the codec streams on the hand-made edge annotations; the round-trip predicate is evaluated
    on the real outputs; the two known exceptions are matched by their signature"""
    for name, text in sorted(edge_texts().items()):
        obj = ('E:' + name, 'gtf-edge', text)
        a0, code0 = real_parse(text)
        S['gtfparse0'].append(('C11\tgtfparse\t' + text_arg(text), code0, obj))
        ctx.count('gtfcodec', 'edge_cases')
        if a0 is None:
            continue
        items = anno_items(a0)
        enc = '\t'.join(items)
        wtext, wcode = real_write(a0)
        S['gtfwrite'].append(('C11\tgtfwrite\t' + enc, wcode, obj))
        if wtext is None:
            S['gtfrt'].append(('C11\tgtfrt\t' + enc, wcode, obj))
            S['gtfrtn'].append(('C11\tgtfrtn\t' + enc, wcode, obj))
            continue
        rt, rt_code = real_parse(wtext)
        S['gtfparse1'].append(('C11\tgtfparse\t' + text_arg(wtext), rt_code, obj))
        S['gtfrt'].append(('C11\tgtfrt\t' + enc, rt_code, obj))
        S['gtfrtn'].append(('C11\tgtfrtn\t' + enc, rt_code if rt is None else
                            '\t'.join(erase_items(anno_items(rt))), obj))
        rp = {'edge_case': name, 'gtf': text, 'written_gtf': wtext}
        if rt is None:
            empty = any(v == '' for f in list(a0.genes.values())
                        + [m.transcript for m in a0.transcripts.values() if m.transcript is not None]
                        for v in f.attributes.values() if isinstance(v, str))
            ctx.add_violation('GTF written by GtfIO.write cannot be parsed back: ' + rt_code, rp,
                              finding_key=KF_EMPTY if (empty and rt_code == 'err:ValueError:line')
                              else None)
            continue
        x, y = erase_items(canon_items(items)), erase_items(anno_items(rt))
        if x != y:
            # signature of the strand finding: the two encodings differ only in strand fields
            # that were `?` (0) before and are `.` (None) after
            only_strand = len(x) == len(y) and all(
                p == q or p.replace(',?,', ',.,') == q for p, q in zip(x, y))
            bad = [(p, q) for p, q in zip(x, y) if p != q][:1] or [(len(x), len(y))]
            rp.update({'before': bad[0][0], 'after': bad[0][1]})
            ctx.add_violation('write->parse changes a model (edge annotation)', rp,
                              finding_key=KF_STRAND0 if only_strand else None)


def gtf_line_fuzz(ctx, S):
    """single lines with fuzzed strand / frame / coordinates / attribute column through the real
    GtfIO.line_to_seq_feature and the Lean colParse + lineToRec"""
    from moPepGen.gtf import GtfIO
    keys = ['gene_id', 'transcript_id', 'protein_id', 'gene_name', 'gene_type', 'gene_biotype',
            'tag', 'tag', 'is_protein_coding', 'level', 'exon_number', 'transcript_type', 'Tag']
    vals = ['ENSG01.1', 'ENST07', 'basic', 'cds_start_NF', 'protein coding', 'a b  c', 'x', '1',
            'true', 'A"B', '', 'q;', "it's"]
    n = ctx.n(1500, 20000)
    for i in range(n):
        rng = ctx.rng('gtfline', i)
        fields = [rng.choice(['chr1', '17', 'X', 'GL000.1']), rng.choice(['HAVANA', '.']),
                  rng.choice(['gene', 'transcript', 'exon', 'CDS', 'cds', 'UTR', 'Exon',
                              'Selenocysteine', 'start_codon', 'five_prime_utr', 'intron']),
                  '', '', '.', rng.choice(['+', '-', '?', '.', '*', '', '+-']),
                  rng.choice(['.', '0', '1', '2']), '']
        st = rng.randint(1, 60)
        en = st - 1 + rng.choice([0, 1, 1, 3, 10]) if rng.random() < 0.9 else rng.randint(0, st)
        fields[3], fields[4] = str(st), str(en)
        parts = []
        for _ in range(rng.choice([1, 2, 3, 3, 4, 6])):
            k, v = rng.choice(keys), rng.choice(vals)
            x = rng.random()
            if x < 0.55:
                v = '"' + v + '"'
            elif x < 0.62:
                v = '""' + v + '"'
            elif x < 0.7:
                v = v + '"'
            y = rng.random()
            if y < 0.06:
                parts.append(k)                      # no value: unpacking fails
            elif y < 0.12:
                parts.append(k + '  ' + v)           # two spaces: value keeps a leading space
            else:
                parts.append(k + ' ' + v)
        sep = rng.choice(['; ', ';', ' ;', '; ', '; \x0b'])
        col = rng.choice(['', ' ', '  ']) + sep.join(parts) + rng.choice([';', ';', '', ';;', '; ', ' ;'])
        fields[8] = col
        line = '\t'.join(fields) + rng.choice(['', '', ' ', '\r'])
        try:
            real = rec_code(GtfIO.line_to_seq_feature(line))
        except ValueError as e:
            msg = str(e)
            real = 'err:ValueError:line' if ('values to unpack' in msg or
                                             msg.startswith('End location')) else 'crash:ValueError'
        except Exception as e:     # noqa
            real = 'crash:' + type(e).__name__
        S['gtfline'].append(('C11\tgtfline\t' + line.replace('\t', SEP), real, (f'L{i}', 'gtfline', line)))


STREAMS = ['g2gene', 'gene2g', 'geneseq', 'txidx', 'tx2g', 'gene2tx', 'tx2gene', 'txseq', 'orf',
           'sec', 'txlen', 'exonic', 'upend', 'downstart', 'findexon', 'findintron', 'cache'] \
    + GTF_STREAMS
OBSERVABLE = {'g2gene', 'gene2g', 'geneseq', 'txidx', 'tx2g', 'gene2tx', 'tx2gene', 'txseq',
              'orf', 'sec', 'gtfrtn', 'gtfclosed'}
WHAT = {
    'g2gene': 'coordinate_genomic_to_gene differs from the proved map',
    'gene2g': 'coordinate_gene_to_genomic differs from the proved map',
    'geneseq': 'gene sequence is not the strand-corrected genome slice',
    'txidx': 'get_transcript_index differs (mapping / intron rejection / range rejection)',
    'tx2g': 'coordinate_transcript_to_genomic differs from the proved map',
    'gene2tx': 'coordinate_gene_to_transcript differs from the proved composition',
    'tx2gene': 'transcript->gene composition differs',
    'txseq': 'transcript sequence is not the strand-corrected exon concatenation',
    'orf': 'ORF start/end differ from the CDS / 3\'UTR features',
    'sec': 'selenocysteine positions differ from the Sec features',
}
WHAT.update(GTF_WHAT)


def process_case(ctx, case_id, S, a, rng, do_cache=True):
    tmp = tempfile.mkdtemp(prefix='c11_')
    L = None
    stage = [None]
    try:
        L = load_all(a, tmp, rng, stage)
        desc = a.desc()

        def viol(what, extra, key=None):
            d = dict(desc)
            d.update(extra)
            ctx.add_violation(what, d, finding_key=key)
        # the on-disk clause first (own generator), so that a failing on-disk access is reported
        # as such and not as a crash of a coordinate function that happened to go through it
        stage[0] = 'on-disk annotation == fully parsed annotation, every key'
        check_parse(a, L, viol)
        compare_models(ctx, a, L, ctx.rng('models', case_id), case_id, viol)
        stage[0] = None
        run_annotation(ctx, a, L, S, case_id, rng)
        roundtrip(ctx, a, L, viol)
        gtf_codec(ctx, a, L, S, case_id, viol)
        if do_cache:
            cache_stream(ctx, a, L, rng, case_id, S, viol)
    except Exception as e:      # noqa
        import traceback
        tb = traceback.extract_tb(e.__traceback__)
        last = tb[-1]
        if os.path.abspath(last.filename).startswith(os.path.abspath(common.REPO) + os.sep):
            # the real code raised on a valid generated annotation, outside any place where
            # the property allows a rejection
            d = a.desc()
            d.update({'exception': f'{type(e).__name__}: {e}',
                      'where': f'{os.path.relpath(last.filename, common.REPO)}:{last.lineno}',
                      'called_from': f'{os.path.basename(tb[0].filename)}:{tb[0].lineno}'})
            na = (' (annotation file with non-ASCII UTF-8 text in: ' + ', '.join(a.nonascii)
                  + ')') if a.nonascii else ''
            ctx.add_violation('the real code raised on a valid annotation ('
                              + (stage[0] or 'access / round trip') + ')' + na, d)
        else:
            raise
    finally:
        if L is not None:
            close_all(L)
        shutil.rmtree(tmp, ignore_errors=True)


def flush(ctx, S, annos):
    def describe(o):
        d = {'case': o[0], 'gene_or_dict': o[1], 'transcript_or_history': o[2]}
        a = annos.get(o[0])
        if a is not None:
            d.update(a.desc(full=False))
            d['regenerate'] = 'harness.c11.gen_annotation(ctx.rng("anno", case), case=case)' + (
                '; harness.c11.add_nonascii(a, ctx.rng("nonascii", case))' if a.nonascii else '')
        return d
    for s in STREAMS:
        if S[s]:
            if s in ('geneseq', 'txseq', 'txlen'):
                nt = lambda o: len(o) > 0
            elif s == 'cache':      # an eviction happened or a lookup failed
                def nt(o):
                    r, _dq, cached = o.split('|')
                    oks = {x for x in r.split(',') if x.isdigit()}
                    return len(oks) > len([x for x in cached.split(',') if x]) or 'K' in r or 'L' in r
            elif s in GTF_STREAMS:
                nt = lambda o: not o.startswith(('err:', 'crash:'))
            elif s == 'gene2g':
                nt = lambda o: True          # every batch runs past the 3' end of the gene
            elif s == 'orf':
                nt = lambda o: o != 'none'
            elif s == 'sec':
                nt = lambda o: o != ''
            elif s == 'exonic':
                nt = lambda o: '0' in o and '1' in o
            else:
                nt = lambda o: any(c in o for c in 'IOEFNX') and any(ch.isdigit() for ch in o)
            ctx.diff_stream(s, S[s], s in OBSERVABLE, describe, nt, WHAT.get(s, ''))
            S[s] = []


def malformed(ctx, S, annos, base_case):
    """separate stream: CDS without frame on the first record, features outside exons"""
    n = ctx.n(40, 400)
    for i in range(n):
        rng = ctx.rng('malformed', i)
        a = gen_annotation(rng, ngenes=2, case=base_case + i)
        changed = False
        for g in a.genes:
            for t in g.txs:
                if t.cds and rng.random() < 0.7:
                    j = 0 if rng.random() < 0.5 else len(t.cds) - 1
                    s, e, f = t.cds[j]
                    t.cds[j] = (s, e, None)
                    if t.strand == '-' and j == len(t.cds) - 1:
                        t.f0 = 0            # `cds[-1].frame or 0`
                    changed = True
        if not changed:
            continue
        annos[base_case + i] = a
        ctx.count('malformed', 'annotations')
        process_case(ctx, base_case + i, S, a, rng, do_cache=False)


def run(ctx: common.Ctx):
    sys.path.insert(0, common.REPO)
    ctx.coverage['rule'] = (
        'annotations from a structured generator (both strands, 1-8 exons incl. 1-base exons and '
        '1-base introns, 1-4 isoforms sharing/altering exons, CDS with frames, GENCODE UTR / '
        'ENSEMBL five|three_prime_utr, start/stop codons, Selenocysteine, NF tags, record order '
        'tx/genomic/reverse/shuffled, header comments) written by the harness writer + random '
        'genome; every 3rd annotation file (145 of 500 quick) carries non-ASCII multi-byte UTF-8 '
        'text (2/3/4-byte characters) in one or more of: a ## comment at the top, a note "…" '
        'attribute on some records (not kept), the gene_name of the first and some other genes '
        '(kept), so that byte offsets differ from character offsets; on-disk (raw and idx) == fully '
        'parsed for every key in random-with-repeats / forward / reverse order (rotated per case) '
        'on the same object; EVERY genomic position of every gene +-3 and every gene/transcript index +3 is '
        'queried for every coordinate function (exhaustive per annotation); cache histories of '
        '10-60 accesses with bound 1..10 and, in 35% of them, unknown keys; non-trivial = a batch '
        'result that contains both mapped values and at least one rejection class; GTF codec: '
        'every generated annotation (text as generated with shuffled record orders, and the text '
        'written by GtfIO.write after check_protein_coding) through the real and the Lean parser / '
        'writer, all fields and attribute dicts compared in dict order; 1500 (20000) fuzzed lines '
        '(strand / frame / coordinates / attribute column with quotes, double spaces, missing '
        'values, stray separators); 17 hand-made edge annotations (empty value, strand ? and ., '
        'interleaved transcripts, ENSEMBL record order, UTR without CDS, no transcript record, '
        'duplicate gene, exon before gene, mixed UTR styles, two transcript records, unknown '
        'features, equal locations)')
    ctx.coverage['exhaustive'] = False
    ctx.coverage['exhaustive_per_annotation'] = True
    S = {s: [] for s in STREAMS}
    annos = {}
    n = ctx.n(500, 6000)
    for i in range(n):
        rng = ctx.rng('anno', i)
        big = (i % 12 == 5)
        a = gen_annotation(rng, ngenes=rng.randint(11, 14) if big else None, case=i)
        if i % 3 == 2 and i % 24 != 17:
            # every 3rd annotation (half of the big ones): non-ASCII text in the file
            add_nonascii(a, ctx.rng('nonascii', i))
        annos[i] = a
        ctx.count('anno', 'annotations')
        ctx.count('anno', 'genes', len(a.genes))
        ctx.count('anno', 'transcripts', sum(len(g.txs) for g in a.genes))
        ctx.count('anno', 'minus_genes', sum(g.strand == '-' for g in a.genes))
        ctx.count('anno', 'coding_tx', sum(bool(t.cds) for g in a.genes for t in g.txs))
        ctx.count('anno', 'sec_tx', sum(bool(t.sec) for g in a.genes for t in g.txs))
        ctx.count('anno', 'style_' + a.style)
        process_case(ctx, i, S, a, rng)
        if i % 50 == 49:
            flush(ctx, S, annos)
            annos.clear()
    malformed(ctx, S, annos, 100000)
    gtf_line_fuzz(ctx, S)
    gtf_edge(ctx, S)
    flush(ctx, S, annos)
    ctx.assumptions += [
        'the GTF file is not modified while an on-disk annotation is open (load is a function of the key)',
        'Bio.Seq slicing / reverse_complement on the alphabet ACGTN (modelled by List.drop/take and `complement`)',
        'unstranded features and negative query positions are outside the model',
        'gene.transcripts of the on-disk gene model is compared as a set (it is built from a Python set)',
        'GTF codec: tab splitting / int() / str() of the columns are done by the driver, not modelled; '
        'str.lower() and str.strip() on ASCII (white space table of Model/Gvf.lean); the inferred '
        'record source (GENCODE/ENSEMBL) is outside the model and compared on the real objects only; '
        'object identity of UTR records shared between utr and five_utr/three_utr is modelled by the '
        'record type (UTR vs five_prime_utr/three_prime_utr)',
    ]


def replay(ctx, data):
    """re-run the direct predicates and all streams on the annotation stored in a replay file"""
    sys.path.insert(0, common.REPO)
    common.prepare(ctx)
    rp = data.get('replay', data)
    case = rp.get('case', rp)
    gtf_text = case.get('gtf') or rp.get('gtf')
    genome = case.get('genome') or rp.get('genome')
    print(json.dumps({'what': data.get('what'), 'has_gtf': bool(gtf_text)}))
    if not gtf_text:
        return 2
    tmp = tempfile.mkdtemp(prefix='c11r_')
    try:
        from moPepGen import gtf
        p = os.path.join(tmp, 'a.gtf')
        open(p, 'w', encoding='utf-8', newline='\n').write(gtf_text)
        full = gtf.GenomicAnnotation()
        full.dump_gtf(p)
        print(f'parsed {len(full.genes)} genes, {len(full.transcripts)} transcripts; '
              f'protocol_line={rp.get("protocol_line")} real={rp.get("real")} model={rp.get("model")}')
        # the on-disk clause on the stored file: every key, forward then reverse
        od = gtf.GenomicAnnotationOnDisk()
        od.generate_index(p)
        keys = [('tx', k) for k in full.transcripts] + [('gene', k) for k in full.genes]
        bad = 0
        for kind, k in keys + keys[::-1]:
            try:
                if kind == 'tx':
                    # no proteome in a replay file: the coding flag (None vs False before
                    # check_protein_coding) is left out
                    x, y = tx_dump(od.transcripts[k]), tx_dump(full.transcripts[k])
                    x.pop('is_protein_coding'); y.pop('is_protein_coding')
                    same = x == y
                else:
                    same = gene_dump(od.genes[k]) == gene_dump(full.genes[k])
                msg = 'differs from the fully parsed model'
            except Exception as e:      # noqa
                same, msg = False, f'raised {type(e).__name__}: {e}'
            if not same:
                bad += 1
                if bad <= 5:
                    print(f'on-disk {kind} {k}: {msg}')
        print(f'on-disk == fully parsed: {2 * len(keys) - bad} of {2 * len(keys)} accesses agree')
        od.handle.close()
        od.handle = None
    finally:
        shutil.rmtree(tmp, ignore_errors=True)
    return 1
