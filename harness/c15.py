"""C15 — fusion parsers yield the fusion transcript defined by the breakpoints.

Real code in-process vs the native Lean driver (`lean/MoPepGen/Driver/C15.lean`).  Annotations come
from the C11 generator (own GTF writer + random genome); all protocol lines are built from the
GENERATOR's ground truth, so GTF parsing and the on-disk annotation are inside the tie.

Streams
  conf                     ArribaConfidence rich comparisons, exhaustive 5 ops x 3 x 3   (observable)
  star / arriba / fc       <Tool>Record.convert_to_variant_records on one tool row        (internal)
  cli-star/-arriba/-fc     the three commands on a multi-row tool file: tally + GVF       (observable)
  read                     documented reading of a record parsed back from the GVF        (internal)
  denotes                  real reading of an emitted record  vs  Lean SPEC fusedSeq      (observable)
  fused                    independent Python fused_seq        vs  Lean SPEC fusedSeq      (internal)
  callvariant              END TO END: tool row -> real parser command -> GVF -> real callVariant;
                           FASTA  vs  Lean `Spec.callBackbone` on the backbone `fusedSeq` that the
                           parsed record denotes (cut by `FusionSpec.fusedParts`)          (observable)
Direct predicates on the real output (no model involved): every emitted / written record denotes
fused_seq; multiset of (donor tx, acceptor tx) pairs per row; tally buckets; gene-rank order.
"""
from __future__ import annotations
import argparse
import copy
import importlib
import json
import multiprocessing as mp
import os
import random
import shutil
import sys
import tempfile
import traceback
from pathlib import Path

from . import c11, common, gen_ref
from .gen_ref import quiet

COMP = c11.COMP
CONFS = ['low', 'medium', 'high']
TOOLS = ['star', 'arriba', 'fc']
ATTRS = ['TRANSCRIPT_ID', 'GENE_SYMBOL', 'GENOMIC_POSITION', 'ACCEPTER_GENE_ID',
         'ACCEPTER_TRANSCRIPT_ID', 'ACCEPTER_SYMBOL', 'ACCEPTER_POSITION',
         'ACCEPTER_GENOMIC_POSITION']
STREAMS = ['star', 'arriba', 'fc', 'cli-star', 'cli-arriba', 'cli-fc', 'read', 'denotes', 'fused']
KF_REF = 'c15-ref-base-read-past-chromosome-end'
REF_MSG = ('a valid fusion (known genes, correct chromosome, both breakpoints inside their genes) '
           'is lost: the REF base is read one (STAR-Fusion: two) position(s) to the right of the '
           'left breakpoint, which is past the end of the chromosome')
OBSERVABLE = {'cli-star', 'cli-arriba', 'cli-fc', 'denotes'}
WHAT = {
    'cli-star': 'parseSTARFusion: tally / written records differ from the proved command model',
    'cli-arriba': 'parseArriba: tally / written records differ from the proved command model',
    'cli-fc': 'parseFusionCatcher: tally / written records differ from the proved command model',
    'denotes': 'emitted Fusion record does not denote donor-prefix + acceptor-suffix defined by '
               'the breakpoints (real reading vs Lean specification fusedSeq)',
}
DENOTES_MSG = ('emitted Fusion record does not denote donor-prefix + acceptor-suffix defined by '
               'the breakpoints')
CLI_MODULE = {'star': 'moPepGen.cli.parse_star_fusion', 'arriba': 'moPepGen.cli.parse_arriba',
              'fc': 'moPepGen.cli.parse_fusion_catcher'}
CLI_FUNC = {'star': 'parse_star_fusion', 'arriba': 'parse_arriba', 'fc': 'parse_fusion_catcher'}
CLI_COMMAND = {'star': 'parseSTARFusion', 'arriba': 'parseArriba', 'fc': 'parseFusionCatcher'}
HEADER = {
    'star': '#FusionName\tJunctionReadCount\tSpanningFragCount\test_J\test_S\tSpliceType\tLeftGene'
            '\tLeftBreakpoint\tRightGene\tRightBreakpoint\tJunctionReads\tSpanningFrags'
            '\tLargeAnchorSupport\tFFPM\tLeftBreakDinuc\tLeftBreakEntropy\tRightBreakDinuc'
            '\tRightBreakEntropy\tannots',
    'arriba': '#gene1\tgene2\tstrand1(gene/fusion)\tstrand2(gene/fusion)\tbreakpoint1\tbreakpoint2'
              '\tsite1\tsite2\ttype\tsplit_reads1\tsplit_reads2\tdiscordant_mates\tcoverage1'
              '\tcoverage2\tconfidence\treading_frame\ttags\tretained_protein_domains'
              '\tclosest_genomic_breakpoint1\tclosest_genomic_breakpoint2\tgene_id1\tgene_id2'
              '\ttranscript_id1\ttranscript_id2\tdirection1\tdirection2\tfilters'
              '\tfusion_transcript\tpeptide_sequence\tread_identifiers',
    'fc': 'Gene_1_symbol(5end_fusion_partner)\tGene_2_symbol(3end_fusion_partner)'
          '\tFusion_description\tCounts_of_common_mapping_reads\tSpanning_pairs'
          '\tSpanning_unique_reads\tLongest_anchor_found\tFusion_finding_method'
          '\tFusion_point_for_gene_1(5end_fusion_partner)\tFusion_point_for_gene_2(3end_fusion_partner)'
          '\tGene_1_id(5end_fusion_partner)\tGene_2_id(3end_fusion_partner)'
          '\tExon_1_id(5end_fusion_partner)\tExon_2_id(3end_fusion_partner)\tFusion_sequence'
          '\tPredicted_effect',
}


# ------------------------------------------------------------------ independent specification
def _exonic(exs, p):
    return any(s <= p < e for s, e in exs)


def _lower_side(exs, p):
    """ascending genomic positions at or below p that belong to the fusion transcript"""
    pos = [q for s, e in exs for q in range(s, e) if q <= p]
    if not _exonic(exs, p):
        ends = [e for s, e in exs if e <= p]
        lo = max(ends) if ends else 0
        pos += list(range(lo, p + 1))
    return sorted(pos)


def _upper_side(exs, p, n):
    pos = [q for s, e in exs for q in range(s, e) if q >= p]
    if not _exonic(exs, p):
        starts = [s for s, e in exs if s > p]
        hi = min(starts) if starts else n
        pos += list(range(p, hi))
    return sorted(pos)


def _read(chrom, strand, pos):
    if strand == '+':
        return ''.join(chrom[q] for q in pos)
    return ''.join(COMP[chrom[q]] for q in reversed(pos))


def fused_seq(chrom_d, strand_d, exons_d, lb0, chrom_a, strand_a, exons_a, rb0):
    """donor transcript up to and including lb0 (+ retained intron) followed by the acceptor
    transcript from rb0 (preceded by the retained intron); straight from the chromosome strings"""
    dpos = _lower_side(exons_d, lb0) if strand_d == '+' else _upper_side(exons_d, lb0, len(chrom_d))
    apos = _upper_side(exons_a, rb0, len(chrom_a)) if strand_a == '+' else _lower_side(exons_a, rb0)
    return _read(chrom_d, strand_d, dpos) + _read(chrom_a, strand_a, apos)


# ------------------------------------------------------------------ encoding
def ex_s(exs):
    return '+'.join(f'{s}-{e}' for s, e in exs) if exs else '.'


def enc_genes(a):
    gs = []
    for g in a.genes:
        txs = '/'.join(f'{t.id}:{t.exons[0][0]}-{t.exons[-1][1]}:{ex_s(t.exons)}' for t in g.txs)
        gs.append(f'{g.id},{g.name},{g.chrom},{g.strand},{g.start}-{g.end},{txs}')
    return ';'.join(gs)


def enc_genome(a):
    return ','.join(f'{k}={v}' for k, v in a.chroms.items())


class Row:
    """one fusion call, tool independent; `*_line` / `*_proto` render it for a tool"""
    def __init__(self):
        self.dg = self.ag = None         # generator genes (None = unknown to the annotation)
        self.dgid = self.agid = ''       # ids as written in a versioned column
        self.lb = self.rb = 0            # 1-based breakpoints as written
        self.cl = self.cr = ''           # position classes
        self.lchrom = self.rchrom = ''
        self.kind = 'ok'                 # the single deliberate defect of the row ('ok' = none)
        self.estj = 1000
        self.s1 = self.s2 = 5
        self.conf = 'high'
        self.ts1 = self.ts2 = '+'
        self.common = 0
        self.uniq = 10
        self.fcmode = 'v'                # v: ids as in the annotation, u: unversioned, vu / uv: mixed

    def desc(self):
        return {k: (getattr(self, k).id if k in ('dg', 'ag') and getattr(self, k) is not None
                    else getattr(self, k)) for k in self.__dict__}

    def strands(self):
        return (self.dg.strand if self.dg else '+', self.ag.strand if self.ag else '+')

    def syms(self):
        return (self.dg.name if self.dg else 'UNKL', self.ag.name if self.ag else 'UNKR')

    def fc_ids(self):
        u = lambda x: x.split('.')[0]
        g5 = self.dgid if self.fcmode in ('v', 'vu') else u(self.dgid)
        g3 = self.agid if self.fcmode in ('v', 'uv') else u(self.agid)
        return g5, g3


def tool_line(tool, r):
    sl, sr = r.strands()
    yl, yr = r.syms()
    if tool == 'star':
        return '\t'.join([
            f'{yl}--{yr}', '4', '5', f'{r.estj // 100}.{r.estj % 100:02d}', '3.86',
            'ONLY_REF_SPLICE', f'{yl}^{r.dgid}', f'{r.lchrom}:{r.lb}:{sl}', f'{yr}^{r.agid}',
            f'{r.rchrom}:{r.rb}:{sr}', '&readA,&readB', '&fragA,&fragB', 'YES_LDAS', '0.1045', 'GT',
            '1.9086', 'AG', '1.7232', '["INTRACHROMOSOMAL[chr9:40.92Mb]"]'])
    if tool == 'arriba':
        return '\t'.join([
            yl, yr, f'{sl}/{r.ts1}', f'{sr}/{r.ts2}', f'{r.lchrom}:{r.lb}', f'{r.rchrom}:{r.rb}',
            'CDS/splice-site', 'intron', 'translocation', str(r.s1), str(r.s2), '19', '191', '92',
            r.conf, 'out-of-frame', '.', '.', '.', '.', r.dgid, r.agid, '.', '.', 'downstream',
            'upstream', 'duplicates(30),mismatches(3)', 'TTGACG|CGCCCT', '.', 'readA,readB'])
    g5, g3 = r.fc_ids()
    return '\t'.join([
        yl, yr, 'oncogene,cancer', str(r.common), '1298', str(r.uniq), '21', 'BOWTIE+STAR',
        f'{r.lchrom}:{r.lb}:{sl}', f'{r.rchrom}:{r.rb}:{sr}', g5, g3, 'ENSE1', 'ENSE2',
        'TTGACG*CGCCCT', 'intronic/exonic'])


def tool_proto(tool, r):
    if tool == 'star':
        return f'{r.estj},{r.dgid},{r.lchrom},{r.lb},{r.agid},{r.rchrom},{r.rb}'
    if tool == 'arriba':
        return f'{r.dgid},{r.agid},{r.ts1},{r.ts2},{r.lb},{r.rb},{r.s1},{r.s2},{r.conf}'
    g5, g3 = r.fc_ids()
    return f'{r.common},{r.uniq},{g5},{g3},{r.lb},{r.rb}'


def tool_file(tool, rows):
    return HEADER[tool] + '\n' + ''.join(tool_line(tool, r) + '\n' for r in rows)


# ------------------------------------------------------------------ generation
def add_par_y_copy(a, rng):
    """GENCODE lists a pseudo-autosomal gene twice: `<id>` on chrX and `<id>_PAR_Y` on chrY with the
    same coordinates (chrY N-masked).  The copy follows the gene (usual order) or precedes it."""
    import copy
    i = rng.randrange(len(a.genes))
    g = a.genes[i]
    g2 = copy.deepcopy(g)
    g2.id = g.id + '_PAR_Y'
    for t in g2.txs:
        t.id = t.id + '_PAR_Y'
        if getattr(t, 'protein_id', None):
            t.protein_id = t.protein_id + '_PAR_Y'
    g2.chrom = g.chrom + '_Y'
    a.chroms[g2.chrom] = 'N' * len(a.chroms[g.chrom])
    a.genes.insert(i + 1 if rng.random() < 0.7 else i, g2)
    a._gtf = None


def trim_chromosomes(a, rng):
    """cut every chromosome right after its last gene (0-2 spare bases), so that gene ends and
    breakpoints fall on the last / second to last chromosome base"""
    for c in list(a.chroms):
        ends = [g.end for g in a.genes if g.chrom == c]
        if ends:
            a.chroms[c] = a.chroms[c][:max(ends) + rng.choice([0, 0, 0, 1, 2])]
    a._gtf = None


def position_classes(g, rng, n=None):
    """(class, 0-based genomic position) candidates of one gene; 'first'/'last' are genomic"""
    out = [('gene_first', g.start), ('gene_last', g.end - 1)]
    if n is not None and g.end >= n - 1:          # gene reaches the end of the chromosome
        for p in (n - 1, n - 2):
            if g.start <= p < g.end:
                out += [('chrom_end', p)] * 3
    t = rng.choice(g.txs)
    out += [('tx_first', t.exons[0][0]), ('tx_last', t.exons[-1][1] - 1)]
    s, e = rng.choice(t.exons)
    out += [('exon_first', s), ('exon_last', e - 1)]
    if e - s >= 3:
        out.append(('exon_inner', rng.randint(s + 1, e - 2)))
    if len(t.exons) > 1:
        j = rng.randrange(len(t.exons) - 1)
        s, e = t.exons[j][1], t.exons[j + 1][0]
        out += [('intron_first', s), ('intron_last', e - 1)]
        if e - s >= 3:
            out.append(('intron_inner', rng.randint(s + 1, e - 2)))
    return out


def unknown_id(a, rng):
    base = f'ENSG999{rng.randint(0, 9999):04d}'
    return base + (f'.{rng.randint(1, 9)}' if a.style == 'GENCODE' else '')


def base_row(a, rng, dg, ag):
    r = Row()
    r.dg, r.ag = dg, ag
    r.dgid, r.agid = dg.id, ag.id
    r.lchrom, r.rchrom = dg.chrom, ag.chrom
    r.cl, p = rng.choice(position_classes(dg, rng, len(a.chroms[dg.chrom])))
    r.lb = p + 1
    r.cr, p = rng.choice(position_classes(ag, rng))
    r.rb = p + 1
    r.ts1, r.ts2 = dg.strand, ag.strand
    r.estj = rng.choice([500, 1000, 523, 2575])
    r.s1, r.s2 = rng.randint(3, 40), rng.randint(3, 40)
    r.conf = 'high'
    r.common, r.uniq = 0, rng.randint(10, 30)
    r.fcmode = rng.choice(['v', 'u']) if a.style == 'GENCODE' else 'v'
    return r


def outside_pos(g, rng):
    """1-based breakpoint 1-3 bases outside the gene (never negative)"""
    k = rng.randint(1, 3)
    if rng.random() < 0.5 and g.start - k >= 0:
        return g.start - k + 1, f'out_below{k}'
    return g.end - 1 + k + 1, f'out_above{k}'


def defect(a, rng, r, kind):
    """apply one deliberate defect to a copy of a clean row"""
    r = copy.copy(r)
    r.kind = kind
    if kind == 'unk_left':
        r.dg, r.dgid = None, unknown_id(a, rng)
    elif kind == 'unk_right':
        r.ag, r.agid = None, unknown_id(a, rng)
    elif kind == 'unk_both':
        r.dg, r.dgid = None, unknown_id(a, rng)
        r.ag, r.agid = None, unknown_id(a, rng)
    elif kind == 'out_left':
        r.lb, r.cl = outside_pos(r.dg, rng)
    elif kind == 'out_right':
        r.rb, r.cr = outside_pos(r.ag, rng)
    elif kind == 'bp0_left':
        r.lb, r.cl = 0, 'bp0'
    elif kind == 'bp0_right':
        r.rb, r.cr = 0, 'bp0'
    elif kind == 'anti_left':
        r.ts1 = rng.choice(['.', '-' if r.dg.strand == '+' else '+'])
    elif kind == 'anti_right':
        r.ts2 = rng.choice(['.', '-' if r.ag.strand == '+' else '+'])
    elif kind == 'fc_mixed':
        r.fcmode = rng.choice(['vu', 'uv'])
    elif kind == 'badchrom':
        r.lchrom = 'chrZZ'
    elif kind == 'otherchrom':
        others = [c for c in a.chroms if c != r.lchrom]
        r.lchrom = rng.choice(others) if others else r.lchrom
    return r


def gen_rows(ctx, a, rng, cap):
    """per-row conversion streams: clean rows over ordered gene pairs and position classes, plus
    defective rows (possibly several defects: the order of the raises is inside the tie)"""
    # rows are written for the genes themselves; the chrY copies of pseudo-autosomal genes only
    # compete in the look-up of unversioned FusionCatcher ids
    own = [g for g in a.genes if '_PAR_Y' not in g.id]
    pairs = [(d, g) for d in own for g in own if d is not g or rng.random() < 0.25]
    rows = []
    for dg, ag in pairs:
        for _ in range(rng.randint(2, 5)):
            rows.append(base_row(a, rng, dg, ag))
    if len(rows) > cap:
        rows = rng.sample(rows, cap)
    clean = list(rows)
    extra = []
    kinds = ['unk_left', 'unk_right', 'unk_both', 'out_left', 'out_right', 'bp0_left', 'bp0_right',
             'anti_left', 'anti_right', 'fc_mixed', 'badchrom', 'otherchrom']
    for k in rng.sample(kinds, 6):
        r = defect(a, rng, rng.choice(clean), k)
        if rng.random() < 0.3:                      # second defect
            k2 = rng.choice(kinds)
            ok = not ((k2.endswith('left') and r.dg is None) or
                      (k2.endswith('right') and r.ag is None) or
                      (k2.startswith(('out', 'bp0', 'anti')) and (r.dg is None or r.ag is None)))
            if ok:
                r = defect(a, rng, r, k2)
                r.kind = k + '+' + k2
        extra.append(r)
    return clean, extra


# ------------------------------------------------------------------ real side
def fmt_rec(v):
    return '|'.join([str(v.location.seqname), str(int(v.location.start)), str(v.ref), str(v.id)]
                    + [str(v.attrs[k]) for k in ATTRS])


def exc_code(e):
    from moPepGen import err
    if isinstance(e, err.GeneNotFoundError):
        return 'geneNotFound'
    if isinstance(e, ValueError):
        return 'value'
    if isinstance(e, IndexError):
        return 'index'
    if isinstance(e, KeyError):
        return 'key'
    return None


def convert(rec, anno, genome):
    try:
        vs = rec.convert_to_variant_records(anno, genome)
    except Exception as e:      # noqa
        c = exc_code(e)
        return (f'err:{c}' if c else f'crash:{type(e).__name__}'), []
    return 'ok:' + ' '.join(sorted(fmt_rec(v) for v in vs)), vs


def parse_tool(tool, path):
    from moPepGen import parser
    if tool == 'star':
        return list(parser.STARFusionParser.parse(str(path)))
    if tool == 'arriba':
        with open(path, 'rt') as fh:
            return list(parser.ArribaParser.parse(fh))
    return list(parser.FusionCatcherParser.parse(str(path)))


def real_reading(rec, anno, genome):
    """the documented reading of a Fusion record, computed with the real functions:
    load_variants (shift + to_transcript_variant) then the four pieces of
    brute_force.get_variant_sequence_fusion without other variants"""
    from moPepGen import ERROR_INDEX_IN_INTRON
    try:
        r = copy.deepcopy(rec)
        r.shift_breakpoint_to_closest_exon(anno)
        dtx = rec.attrs['TRANSCRIPT_ID']
        t = r.to_transcript_variant(anno, genome, dtx)
        dm = anno.transcripts[dtx]
        dseq = dm.get_transcript_sequence(genome[dm.transcript.chrom])
        out = str(dseq.seq[:t.location.start])
        ls, le = t.attrs['LEFT_INSERTION_START'], t.attrs['LEFT_INSERTION_END']
        if ls is not None:
            gm = anno.genes[rec.location.seqname]
            out += str(gm.get_gene_sequence(genome[gm.chrom]).seq[ls:le])
        agid, atx = t.attrs['ACCEPTER_GENE_ID'], t.attrs['ACCEPTER_TRANSCRIPT_ID']
        rs, re_ = t.attrs['RIGHT_INSERTION_START'], t.attrs['RIGHT_INSERTION_END']
        if rs is not None:
            gm = anno.genes[agid]
            out += str(gm.get_gene_sequence(genome[gm.chrom]).seq[rs:re_])
        am = anno.transcripts[atx]
        aseq = am.get_transcript_sequence(genome[am.transcript.chrom])
        bk = anno.coordinate_gene_to_transcript(t.get_accepter_position(), agid, atx)
        out += str(aseq.seq[bk:])
        return 'ok:' + out, t
    except ValueError as e:
        return ('err:I' if str(e) == ERROR_INDEX_IN_INTRON else 'err:O'), None
    except Exception as e:      # noqa
        return 'err:X:' + type(e).__name__, None


def brute_force_reading(gvf_meta_lines, rec_line, rec, anno, genome, tmp):
    """BruteForceVariantPeptideCaller.get_variant_sequence_fusion on a pool loaded by the real
    `load_variants` from a one-record GVF"""
    from moPepGen import params, seqvar
    from moPepGen.util.brute_force import BruteForceVariantPeptideCaller
    p = os.path.join(tmp, 'one.gvf')
    with open(p, 'w') as fh:
        fh.write(''.join(gvf_meta_lines) + rec_line)
    pool = seqvar.VariantRecordPool()
    with open(p, 'rt') as fh:
        pool.load_variants(fh, anno, genome)
    dtx = rec.attrs['TRANSCRIPT_ID']
    dm = anno.transcripts[dtx]
    tx_seq = dm.get_transcript_sequence(genome[dm.transcript.chrom])
    caller = BruteForceVariantPeptideCaller(
        reference_data=params.ReferenceData(genome=genome, anno=anno, canonical_peptides=set()),
        variant_pool=pool, tx_id=dtx, tx_model=dm, tx_seq=tx_seq)
    seq, _coords = caller.get_variant_sequence_fusion(tx_seq.seq, pool)
    return str(seq)


def base_args(tmp, tool, inp, out):
    args = argparse.Namespace()
    args.command = CLI_COMMAND[tool]
    args.input_path = Path(inp)
    args.source = 'Fusion'
    args.index_dir = None
    args.genome_fasta = Path(tmp) / 'genome.fasta'
    args.annotation_gtf = Path(tmp) / 'annotation.gtf'
    args.proteome_fasta = None
    args.reference_source = None
    args.output_path = Path(out)
    args.quiet = True
    args.skip_failed = False
    return args


def run_cli(tool, args):
    """real command in-process; returns (canonical output, tally tuple or None, records)"""
    from moPepGen import seqvar
    mod = importlib.import_module(CLI_MODULE[tool])
    captured = []
    orig = mod.TallyTable

    class Recording(orig):      # observation only
        def __init__(self, *a, **k):
            super().__init__(*a, **k)
            captured.append(self)
    if args.output_path.exists():
        args.output_path.unlink()
    mod.TallyTable = Recording
    try:
        with quiet():
            try:
                getattr(mod, CLI_FUNC[tool])(args)
            except Exception as e:      # noqa
                c = exc_code(e)
                import traceback
                where = traceback.extract_tb(e.__traceback__)[-1]
                return (f'crash:{c}' if c else f'crash:{type(e).__name__}'), None, [], \
                    f'{type(e).__name__}: {e} at {where.filename}:{where.lineno}'
    finally:
        mod.TallyTable = orig
    t = captured[-1]
    tally = (t.total, t.succeed, t.skipped.total, t.skipped.invalid_gene_id,
             t.skipped.invalid_position, t.skipped.insufficient_evidence,
             getattr(t.skipped, 'antisense_strand', 0))
    out = 'tally=' + ','.join(map(str, tally))
    recs = []
    if args.output_path.exists():
        recs = list(seqvar.io.parse(args.output_path))
        out += ';written=1;genes=' + ','.join(str(v.location.seqname) for v in recs) + ';' + \
            ' '.join(sorted(fmt_rec(v) for v in recs))
    else:
        out += ';written=0;genes=;'
    return out, tally, recs, ''


# ------------------------------------------------------------------ per-annotation work
class AnnoCase:
    def __init__(self, case, a):
        self.case, self.a = case, a
        self.genes_s, self.genome_s = enc_genes(a), enc_genome(a)
        self.flag = 'E' if a.style == 'ENSEMBL' else 'G'
        self.tx = {t.id: (g, t) for g in a.genes for t in g.txs}
        self.rank = {g.id: i for i, g in enumerate(a.genes)}
        self.bad_tx = set()      # get_transcript_sequence raises (degenerate CDS; C11's business)

    def replay(self, tool, rows, extra=None):
        d = {'tool': tool, 'rows': [tool_line(tool, r) for r in rows],
             'header': HEADER[tool], 'gtf': self.a.gtf_text(), 'genome': dict(self.a.chroms),
             'case': self.case, 'style': self.a.style}
        if extra:
            d.update(extra)
        return d


def fused_line(ac, dtx, atx, lb0, rb0):
    a = ac.a
    dg, dt = ac.tx[dtx]
    ag, at = ac.tx[atx]
    return (f'C15\tfused\t{dg.strand}\t{ex_s(dt.exons)}\t{a.chroms[dg.chrom]}\t{lb0}'
            f'\t{ag.strand}\t{ex_s(at.exons)}\t{a.chroms[ag.chrom]}\t{rb0}')


def expected_fused(ac, dtx, atx, lb0, rb0):
    a = ac.a
    dg, dt = ac.tx[dtx]
    ag, at = ac.tx[atx]
    return fused_seq(a.chroms[dg.chrom], dg.strand, dt.exons, lb0,
                     a.chroms[ag.chrom], ag.strand, at.exons, rb0)


def check_record(ctx, ac, anno, genome, tool, rows, v, lb0, rb0, S, seen, origin):
    """one record parsed back from a GVF: read + denotes + fused streams and the direct predicate"""
    a = ac.a
    dtx, atx = v.attrs['TRANSCRIPT_ID'], v.attrs['ACCEPTER_TRANSCRIPT_ID']
    if dtx not in ac.tx or atx not in ac.tx:
        ctx.add_violation('emitted Fusion record names a transcript that is not in the annotation',
                          ac.replay(tool, rows, {'record': fmt_rec(v)}))
        return None
    dg, dt = ac.tx[dtx]
    ag, at = ac.tx[atx]
    exp = expected_fused(ac, dtx, atx, lb0, rb0)
    if dtx in ac.bad_tx or atx in ac.bad_tx:
        ctx.count('gen', 'records_skipped_tx_sequence_rejected')
        fl = fused_line(ac, dtx, atx, lb0, rb0)
        if ('f', fl) not in seen:
            seen.add(('f', fl))
            S['fused'].append((fl, exp, (ac, tool, rows, fmt_rec(v))))
        return None
    got, _t = real_reading(v, anno, genome)
    intronic = (not _exonic(dt.exons, lb0)) or (not _exonic(at.exons, rb0))
    ctx.count('gen', f'record_strands_{dg.strand}{ag.strand}')
    ctx.count('gen', 'record_intronic' if intronic else 'record_exonic')
    obj = (ac, tool, rows, fmt_rec(v))
    rl = (f'C15\tread\t{dg.strand}\t{dg.start}-{dg.end}\t{ex_s(dt.exons)}\t{a.chroms[dg.chrom]}'
          f'\t{ag.strand}\t{ag.start}-{ag.end}\t{ex_s(at.exons)}\t{a.chroms[ag.chrom]}'
          f'\t{int(v.location.start)}\t{v.get_accepter_position()}')
    if rl not in seen:
        seen.add(rl)
        S['read'].append((rl, got, obj))
    fl = fused_line(ac, dtx, atx, lb0, rb0)
    key = ('d', fl, got)
    if key not in seen:
        seen.add(key)
        flag = 'N' if (intronic or dg.strand != ag.strand) else 'T'
        S['denotes'].append((fl, got[3:] if got.startswith('ok:') else got, obj + (flag,)))
    if ('f', fl) not in seen:
        seen.add(('f', fl))
        S['fused'].append((fl, exp, obj))
    if got != 'ok:' + exp:
        ctx.count('gen', 'denote_mismatch_' + tool)
        ctx.add_violation(DENOTES_MSG, ac.replay(tool, rows, {
            'origin': origin, 'record': fmt_rec(v), 'donor_tx': dtx, 'acceptor_tx': atx,
            'left_breakpoint_0based': lb0, 'right_breakpoint_0based': rb0,
            'expected': exp, 'got': got}))
    return got


def genomic_bp(v):
    """(lb0, rb0) from the GENOMIC_POSITION attributes the tool wrote"""
    return (int(v.attrs['GENOMIC_POSITION'].split(':')[1]) - 1,
            int(v.attrs['ACCEPTER_GENOMIC_POSITION'].split(':')[1]) - 1)


def tx_with(g, p0):
    return [t.id for t in g.txs if t.exons and t.exons[0][0] <= p0 < t.exons[-1][1]]


def ref_oob(tool, r, a):
    """the REF look-up of the converters indexes the chromosome 1 (STAR-Fusion: 2) bases to the
    right of the left breakpoint: IndexError at the end of a chromosome (plus-strand donor);
    minus-strand donor: the slice [lb:lb+1] is empty at the end of the chromosome and the
    VariantRecord constructor raises ValueError (REF length 0 != 1) if any pair is eligible"""
    if r.dg is None or r.ag is None:
        return False
    chrom = r.lchrom if tool == 'star' else r.dg.chrom      # only STAR-Fusion reads the column
    if chrom not in a.chroms:
        return False
    n = len(a.chroms[chrom])
    if r.dg.strand == '+':
        return (r.lb + 1 if tool == 'star' else r.lb) >= n
    return r.lb >= n and bool(tx_with(r.dg, r.lb - 1)) and bool(tx_with(r.ag, r.rb - 1))


def valid_row(r):
    """known genes, chromosome columns correct, both breakpoints inside their genes"""
    return (r.dg is not None and r.ag is not None and r.lchrom == r.dg.chrom
            and r.rchrom == r.ag.chrom and r.dg.start < r.lb <= r.dg.end
            and r.ag.start < r.rb <= r.ag.end)


def ref_past_end(tool, r, a, code):
    """signature of the known finding: valid row, error raised by the REF look-up at the end of
    the chromosome (IndexError on a plus-strand donor, ValueError of the VariantRecord constructor
    on a minus-strand donor whose REF slice is empty)"""
    if not valid_row(r) or not ref_oob(tool, r, a):
        return False
    return code == ('index' if r.dg.strand == '+' else 'value')


def rows_streams(ctx, ac, anno, genome, tmp, rng, S, cap):
    from moPepGen import seqvar
    from moPepGen.cli import common as cli_common
    a = ac.a
    clean, extra = gen_rows(ctx, a, rng, cap)
    rows = clean + extra
    seen = set()
    bf_budget = 2
    for r in rows:
        ctx.count('gen', 'row_kind_' + r.kind.split('+')[0])
        ctx.count('gen', 'class_left_' + r.cl.rstrip('123'))
        ctx.count('gen', 'class_right_' + r.cr.rstrip('123'))
        if r.dg is not None and r.ag is not None:
            ctx.count('gen', f'row_strands_{r.dg.strand}{r.ag.strand}')
            if r.dg.chrom != r.ag.chrom:
                ctx.count('gen', 'row_interchromosomal')
            if r.dg is r.ag:
                ctx.count('gen', 'row_same_gene')
    for tool in TOOLS:
        path = os.path.join(tmp, f'rows_{tool}.txt')
        with open(path, 'w') as fh:
            fh.write(tool_file(tool, rows))
        recs = parse_tool(tool, path)
        if len(recs) != len(rows):
            ctx.add_broken('correspondence', tool, f'parser returned {len(recs)} records for '
                           f'{len(rows)} rows (case {ac.case})')
            continue
        emitted = []
        for r, rec in zip(rows, recs):
            out, vs = convert(rec, anno, genome)
            ctx.count('gen', f'tool_{tool}')
            S[tool].append((f'C15\t{tool}\t{ac.flag}\t{ac.genes_s}\t{ac.genome_s}\t{tool_proto(tool, r)}',
                            out, (ac, tool, [r], None)))
            if out.startswith('err:') and ref_past_end(tool, r, a, out[4:]):
                ctx.count('gen', 'ref_past_chrom_end')
                ctx.add_violation(REF_MSG, ac.replay(tool, [r], {
                    'real': out, 'chromosome_length': len(a.chroms[r.dg.chrom]),
                    'donor_strand': r.dg.strand, 'left_breakpoint_1based': r.lb}), KF_REF)
            elif out.startswith(('err:', 'crash:')) and valid_row(r) and r.kind == 'ok':
                ctx.add_violation('converter raised on a valid fusion row (known genes, correct '
                                  'chromosome, breakpoints inside the genes)',
                                  ac.replay(tool, [r], {'real': out}))
            if out.startswith('ok:'):
                # direct predicate (3) on the converter output
                exp_pairs = sorted((d, t) for d in tx_with(r.dg, r.lb - 1)
                                   for t in tx_with(r.ag, r.rb - 1))
                got_pairs = sorted((v.attrs['TRANSCRIPT_ID'], v.attrs['ACCEPTER_TRANSCRIPT_ID'])
                                   for v in vs)
                if exp_pairs != got_pairs:
                    ctx.add_violation(
                        'donor x acceptor transcript pairs emitted for a fusion differ from the '
                        'transcripts whose span contains the breakpoints',
                        ac.replay(tool, [r], {'expected_pairs': exp_pairs, 'got_pairs': got_pairs}))
            usable = [v for v in vs if str(v.ref) != '']
            if len(usable) != len(vs):
                ctx.count('gen', 'records_with_empty_ref_' + tool, len(vs) - len(usable))
            emitted += [(r, v) for v in usable]
        if not emitted:
            continue
        gvf = Path(tmp) / f'rows_{tool}.gvf'
        args = base_args(tmp, tool, path, gvf)
        seqvar.io.write([v for _, v in emitted], gvf, cli_common.generate_metadata(args))
        back = list(seqvar.io.parse(gvf))
        lines = open(gvf).readlines()
        meta = [ln for ln in lines if ln.startswith('#')]
        body = [ln for ln in lines if not ln.startswith('#')]
        if len(back) != len(emitted):
            ctx.add_broken('correspondence', 'read', 'GVF round trip changed the number of records')
            continue
        for i, ((r, v0), v) in enumerate(zip(emitted, back)):
            got = check_record(ctx, ac, anno, genome, tool, [r], v, r.lb - 1, r.rb - 1, S, seen,
                               'convert_to_variant_records -> seqvar.io.write -> seqvar.io.parse')
            if got and got.startswith('ok:') and bf_budget > 0 and rng.random() < 0.05:
                bf_budget -= 1
                try:
                    bf = brute_force_reading(meta, body[i], v, anno, genome, tmp)
                except Exception as e:      # noqa
                    bf = f'crash:{type(e).__name__}: {e}'
                ctx.count('brute_force', 'evaluations')
                if 'ok:' + bf != got:
                    ctx.count('brute_force', 'diffs')
                    ctx.add_broken('correspondence', 'read',
                                   'BruteForceVariantPeptideCaller.get_variant_sequence_fusion '
                                   f'differs from the assembled reading: {bf} vs {got}; '
                                   + json.dumps(ac.replay(tool, [r]))[:2500])
    return clean


# ---- command streams
STAR_MIN = [500, 100, 523, 1000]
ARRIBA_MIN = [1, 0, 3]
FC_MAXC = [0, 2, 5]
FC_MINU = [5, 1, 10]


def conf_ge(x, y):
    return CONFS.index(x) >= CONFS.index(y)


def gen_cli_case(ctx, ac, rng, tool, clean, mode):
    """3-12 rows, at most one deliberate defect each.  mode: 'clean' (no position failures),
    'skip' (position failures, --skip-failed), 'abort' (position failures, no --skip-failed)"""
    a = ac.a
    thr = {}
    if tool == 'star':
        thr['min_est_j'] = rng.choice(STAR_MIN)
    elif tool == 'arriba':
        thr['min1'], thr['min2'] = rng.choice(ARRIBA_MIN), rng.choice(ARRIBA_MIN)
        thr['minconf'] = rng.choice(['medium', 'low', 'high', 'medium'])
    else:
        thr['maxc'], thr['minu'] = rng.choice(FC_MAXC), rng.choice(FC_MINU)
    n = rng.randint(3, 12)
    rows = []
    kinds = ['ok', 'ok', 'ok', 'thresh', 'thresh', 'unk_left', 'unk_right', 'unk_both']
    if tool == 'arriba':
        kinds += ['anti_left', 'anti_right']
    if tool == 'fc' and a.style == 'GENCODE':
        kinds += ['fc_mixed']
    if mode != 'clean':
        kinds += ['out_left', 'out_right', 'bp0_left', 'bp0_right']
        if tool == 'star':
            kinds += ['badchrom']
    for _ in range(n):
        k = rng.choice(kinds)
        r = copy.copy(rng.choice(clean))
        # evidence comfortably above every threshold of the grids
        r.estj = rng.choice([1000, 2575, 1001])
        r.s1, r.s2, r.conf = rng.randint(3, 40), rng.randint(3, 40), 'high'
        r.common, r.uniq = 0, rng.randint(10, 30)
        if k == 'thresh':
            r.kind = 'thresh'
            if tool == 'star':
                r.estj = thr['min_est_j'] + rng.choice([-1, 0, 1])
            elif tool == 'arriba':
                w = rng.choice(['s1', 's2', 'conf', 'conf'])
                if w == 's1':
                    r.s1 = max(0, thr['min1'] + rng.choice([-1, 0, 1]))
                elif w == 's2':
                    r.s2 = max(0, thr['min2'] + rng.choice([-1, 0, 1]))
                else:
                    r.conf = rng.choice(CONFS)
            else:
                if rng.random() < 0.5:
                    r.common = max(0, thr['maxc'] + rng.choice([-1, 0, 1]))
                else:
                    r.uniq = max(0, thr['minu'] + rng.choice([-1, 0, 1]))
        elif k != 'ok':
            r = defect(a, rng, r, k)
        rows.append(r)
    return thr, rows


def expected_bucket(tool, r, thr, a):
    """what the property text says about one row with at most one defect"""
    if tool == 'star':
        insuff = r.estj < thr['min_est_j']
    elif tool == 'arriba':
        insuff = r.s1 < thr['min1'] or r.s2 < thr['min2'] or not conf_ge(r.conf, thr['minconf'])
    else:
        insuff = r.common > thr['maxc'] or r.uniq < thr['minu']
    if insuff:
        return 'insuff'
    if r.kind.startswith('unk') or r.kind == 'fc_mixed' and tool == 'fc':
        return 'invgene'
    if r.kind.startswith('anti') and tool == 'arriba':
        return 'antisense'
    if r.kind.startswith(('out', 'bp0')) or (r.kind == 'badchrom' and tool == 'star'):
        return 'invpos'
    if ref_oob(tool, r, a):
        return 'invpos-ref'
    return 'ok'


def cli_streams(ctx, ac, anno, genome, tmp, rng, S, clean, ncases):
    a = ac.a
    if not clean:
        return
    for tool in TOOLS:
        for ci in range(ncases):
            mode = ['clean', 'skip', 'abort'][ci % 3] if ncases >= 3 else \
                rng.choice(['clean', 'skip', 'abort'])
            thr, rows = gen_cli_case(ctx, ac, rng, tool, clean, mode)
            skip = mode == 'skip' or (mode == 'clean' and rng.random() < 0.3)
            inp = os.path.join(tmp, f'cli_{tool}_{ci}.txt')
            with open(inp, 'w') as fh:
                fh.write(tool_file(tool, rows))
            out = Path(tmp) / f'cli_{tool}_{ci}.gvf'
            args = base_args(tmp, tool, inp, out)
            args.skip_failed = skip
            if tool == 'star':
                h = thr['min_est_j']
                args.min_est_j = float(f'{h // 100}.{h % 100:02d}')
                head = f'{h}'
                thr_desc = {'min_est_j': args.min_est_j}
            elif tool == 'arriba':
                args.min_split_read1, args.min_split_read2 = thr['min1'], thr['min2']
                args.min_confidence = thr['minconf']
                head = f'{thr["min1"]}\t{thr["min2"]}\t{thr["minconf"]}'
                thr_desc = dict(thr)
            else:
                args.max_common_mapping, args.min_spanning_unique = thr['maxc'], thr['minu']
                head = f'{thr["maxc"]}\t{thr["minu"]}'
                thr_desc = dict(thr)
            real, tally, recs, errtext = run_cli(tool, args)
            line = (f'C15\tcli-{tool}\t{ac.flag}\t{ac.genes_s}\t{ac.genome_s}\t{head}'
                    f'\t{1 if skip else 0}\t' + ';'.join(tool_proto(tool, r) for r in rows))
            extra = {'thresholds': thr_desc, 'skip_failed': skip}
            S['cli-' + tool].append((line, real, (ac, tool, rows, extra)))
            ctx.count('gen', f'cli_{tool}_{mode}')
            # ---- direct predicates
            buckets = [expected_bucket(tool, r, thr, a) for r in rows]
            for b in buckets:
                ctx.count('gen', 'cli_row_' + b)
            failing = [b for b in buckets if b.startswith('invpos')]
            lost = [r for r, b in zip(rows, buckets) if b == 'invpos-ref' and valid_row(r)]
            if lost and (real.startswith('crash:') or (tally and tally[4] >= len(lost))):
                ctx.count('gen', 'ref_past_chrom_end_cli')
                ctx.add_violation(REF_MSG + ' (command: the row is counted as invalid position '
                                  'or aborts the run)',
                                  ac.replay(tool, rows, dict(extra, real=real,
                                            lost_rows=[tool_line(tool, r) for r in lost])), KF_REF)
            rp = lambda more: ac.replay(tool, rows, dict(extra, real=real, **more))
            if real.startswith('crash:'):
                if skip or not failing:
                    ctx.add_violation(
                        'fusion parser command aborted although no row has an invalid position '
                        'or --skip-failed was given', rp({'error': errtext, 'buckets': buckets}))
                continue
            if failing and not skip:
                ctx.add_violation('fusion parser command did not abort on an invalid position '
                                  'without --skip-failed', rp({'buckets': buckets}))
                continue
            exp_tally = (len(rows), buckets.count('ok'), len(rows) - buckets.count('ok'),
                         buckets.count('invgene'), len(failing), buckets.count('insuff'),
                         buckets.count('antisense'))
            if tally != exp_tally:
                ctx.add_violation(
                    'tally of a fusion parser command differs from the rows (total, succeeded, '
                    'skipped, invalid gene, invalid position, insufficient evidence, antisense)',
                    rp({'expected_tally': exp_tally, 'got_tally': tally, 'buckets': buckets}))
            exp_recs = sorted(
                (r.dg.id, d, r.ag.id, t, r.lb - 1, r.rb - 1)
                for r, b in zip(rows, buckets) if b == 'ok'
                for d in tx_with(r.dg, r.lb - 1) for t in tx_with(r.ag, r.rb - 1))
            try:
                got_recs = sorted(
                    (str(v.location.seqname), v.attrs['TRANSCRIPT_ID'], v.attrs['ACCEPTER_GENE_ID'],
                     v.attrs['ACCEPTER_TRANSCRIPT_ID']) + genomic_bp(v) for v in recs)
            except Exception as e:      # noqa
                got_recs = [f'unreadable: {type(e).__name__}']
            if exp_recs != got_recs:
                ctx.add_violation(
                    'records written by a fusion parser command are not exactly one per eligible '
                    '(donor transcript, acceptor transcript) pair of every accepted row',
                    rp({'expected': exp_recs[:40], 'got': got_recs[:40]}))
                continue
            ranks = [ac.rank.get(str(v.location.seqname), -1) for v in recs]
            if ranks != sorted(ranks):
                ctx.add_violation('written Fusion records are not ordered by gene rank',
                                  rp({'ranks': ranks}))
            seen = set()
            for v in recs:
                lb0, rb0 = genomic_bp(v)
                key = fmt_rec(v)
                if key in seen:
                    continue
                seen.add(key)
                check_record(ctx, ac, anno, genome, tool, rows, v, lb0, rb0, S, S['_seen'],
                             CLI_COMMAND[tool] + ' output GVF')


def process_anno(ctx, case, a, rng, S, cap, ncases):
    from moPepGen.cli import common as cli_common
    tmp = tempfile.mkdtemp(prefix='c15_')
    anno = None
    try:
        with open(os.path.join(tmp, 'annotation.gtf'), 'w') as fh:
            fh.write(a.gtf_text())
        with open(os.path.join(tmp, 'genome.fasta'), 'w') as fh:
            fh.write(a.fasta_text())
        args = base_args(tmp, 'star', os.path.join(tmp, 'x.txt'), os.path.join(tmp, 'x.gvf'))
        with quiet():
            genome, anno, *_ = cli_common.load_references(args, load_canonical_peptides=False)
        ac = AnnoCase(case, a)
        if (anno.source == 'ENSEMBL') != (ac.flag == 'E'):
            ctx.count('gen', 'anno_source_mismatch')
            ctx.add_broken('correspondence', 'anno-source',
                           f'case {case}: generator style {a.style} but real anno.source '
                           f'{anno.source}')
        for g in a.genes:
            for g2 in a.genes:
                ctx.count('gen', f'anno_pair_{g.strand}{g2.strand}')
        S['_seen'] = set()
        for t_id, (g, t) in ac.tx.items():
            try:
                anno.transcripts[t_id].get_transcript_sequence(genome[g.chrom])
            except ValueError:
                ac.bad_tx.add(t_id)
                ctx.count('gen', 'transcripts_sequence_rejected')
        clean = rows_streams(ctx, ac, anno, genome, tmp, rng, S, cap)
        cli_streams(ctx, ac, anno, genome, tmp, rng, S, clean, ncases)
    finally:
        try:
            if anno is not None and anno.handle:
                anno.handle.close()
                anno.handle = None
        except Exception:   # noqa
            pass
        shutil.rmtree(tmp, ignore_errors=True)



# ------------------------------------------------------------------ callVariant clause
CV_EXTRA = ('callVariant reports a fusion peptide that is not a digestion product of the fusion '
            'transcript (fusedSeq) denoted by the record the fusion parser wrote')
CV_MISSING = ('digestion products of the fusion transcript (fusedSeq) denoted by the record the '
              'fusion parser wrote are missing from the callVariant FASTA')
CV_THRESHOLDS = {'star': {'min_est_j': 5.0},
                 'arriba': {'min_split_read1': 1, 'min_split_read2': 1, 'min_confidence': 'medium'},
                 'fc': {'max_common_mapping': 0, 'min_spanning_unique': 5}}


def light_anno(gtf_text, fasta_text):
    """the generator-side view (c11.Anno: genes, transcripts, exons, chromosomes) of reference
    files, parsed by this harness from the text (gene / exon lines only)"""
    a = c11.Anno()
    a.style = 'GENCODE'
    name, buf = None, []
    for ln in fasta_text.split('\n'):
        if ln.startswith('>'):
            if name is not None:
                a.chroms[name] = ''.join(buf)
            name, buf = ln[1:].split()[0], []
        elif ln.strip():
            buf.append(ln.strip())
    if name is not None:
        a.chroms[name] = ''.join(buf)
    genes, txs = {}, {}
    for ln in gtf_text.split('\n'):
        if not ln or ln.startswith('#'):
            continue
        f = ln.split('\t')
        at = {}
        for x in f[8].strip().strip(';').split(';'):
            x = x.strip()
            if x:
                k, _, v = x.partition(' ')
                at.setdefault(k, v.strip().strip('"'))
        if f[2] == 'gene':
            g = c11.Gene()
            g.id, g.chrom, g.strand = at['gene_id'], f[0], f[6]
            g.start, g.end = int(f[3]) - 1, int(f[4])
            g.name = at.get('gene_name', '')
            genes[g.id] = g
            a.genes.append(g)
        elif f[2] == 'exon':
            key = at['transcript_id']
            if key not in txs:
                t = c11.Tx()
                t.id, t.gene, t.chrom, t.strand = key, at['gene_id'], f[0], f[6]
                txs[key] = t
                genes[at['gene_id']].txs.append(t)
            txs[key].exons.append((int(f[3]) - 1, int(f[4])))
    for t in txs.values():
        t.exons.sort()
    a._gtf = gtf_text
    return a


def cv_draw_row(a, rng, dg, ag, tool, dd):
    """a clean row donor gene -> acceptor gene from the position classes of the converter streams;
    rows that the open REF finding would lose are not drawn; for a coding donor most breakpoints
    are steered into the CDS (before the start codon callVariant reports nothing by convention,
    behind the stop codon the fusion changes no protein)"""
    dt = dg.txs[0]
    for attempt in range(40):
        r = base_row(a, rng, dg, ag)
        if dd['coding'] and dd['orf'] and attempt == 0 and rng.random() < 0.15:
            # the boundary of the convention: breakpoint on the last base of the start codon
            # (first fusion callVariant evaluates), one before it (last one it does not), one behind
            k = rng.choice([1, 2, 2, 3])
            p = dt.tx2g(dd['orf'][0] + k)
            if p is not None:
                r.lb, r.cl = p + 1, f'start_codon_{k}'
        if not valid_row(r) or ref_oob(tool, r, a):
            continue
        if not tx_with(dg, r.lb - 1) or not tx_with(ag, r.rb - 1):
            continue
        if r.cl.startswith('start_codon'):
            return r
        if dd['coding'] and dd['orf'] and attempt < 30 and rng.random() < 0.9:
            lb0 = r.lb - 1
            dpos = _lower_side(dt.exons, lb0) if dg.strand == '+' else \
                _upper_side(dt.exons, lb0, len(a.chroms[dg.chrom]))
            bp_est = sum(1 for q in dpos if _exonic(dt.exons, q))
            if not (dd['orf'][0] + 3 <= bp_est <= dd['orf'][1]):
                continue
        return r
    return None


def cv_pipeline(case, a, tool, rows, kw, out):
    """real parser command on the tool file -> GVF -> real callVariant; fills `out` with the real
    results and the protocol lines of the Lean side.  Returns False when nothing is to compare."""
    from . import cv_backbone, cv_explore, pipe
    inp = case.dir / f'fusion_{tool}.txt'
    with open(inp, 'w') as fh:
        fh.write(HEADER[tool] + '\n' + ''.join(x + '\n' for x in rows['lines']))
    gvf = case.dir / f'fusion_{tool}.gvf'
    args = base_args(str(case.dir), tool, inp, gvf)
    for k, v in CV_THRESHOLDS[tool].items():
        setattr(args, k, v)
    real, tally, recs, errtext = run_cli(tool, args)
    out['parser'] = real[:300]
    if real.startswith('crash:'):
        out['parser_crash'] = errtext
        return False
    if len(recs) != 1:
        out['parser_records'] = len(recs)
        return False
    v = recs[0]
    tx = {t.id: (g, t) for g in a.genes for t in g.txs}
    donor, acc = v.attrs['TRANSCRIPT_ID'], v.attrs['ACCEPTER_TRANSCRIPT_ID']
    if donor not in tx or acc not in tx:
        out['unknown_tx'] = [donor, acc]
        return False
    dg, dt = tx[donor]
    ag, at = tx[acc]
    lb0, rb0 = rows['lb'] - 1, rows['rb'] - 1
    out['desc'].update(donor=donor, acceptor=acc, record=fmt_rec(v), left_breakpoint_0based=lb0,
                       right_breakpoint_0based=rb0, strands=dg.strand + ag.strand)
    intronic = (not _exonic(dt.exons, lb0), not _exonic(at.exons, rb0))
    out['stats']['strands_' + dg.strand + ag.strand] = 1
    out['stats']['left_' + ('intronic' if intronic[0] else 'exonic')] = 1
    out['stats']['right_' + ('intronic' if intronic[1] else 'exonic')] = 1
    out['stats']['tool_' + tool] = 1
    # the sequence the parsed record denotes: Lean side (C15 model / specification)
    out['parts_line'] = (f'C15\tparts\t{dg.strand}\t{ex_s(dt.exons)}\t{a.chroms[dg.chrom]}\t{lb0}'
                         f'\t{ag.strand}\t{ex_s(at.exons)}\t{a.chroms[ag.chrom]}\t{rb0}')
    out['read_line'] = (f'C15\tread\t{dg.strand}\t{dg.start}-{dg.end}\t{ex_s(dt.exons)}'
                        f'\t{a.chroms[dg.chrom]}\t{ag.strand}\t{ag.start}-{ag.end}\t{ex_s(at.exons)}'
                        f'\t{a.chroms[ag.chrom]}\t{int(v.location.start)}\t{v.get_accepter_position()}')
    # real callVariant on the GVF the parser wrote
    case.gvfs = [gvf]
    canon = pipe.canonical_pool(case, **kw)
    run = gen_ref.run_call_variant(case, tag='cv', **kw)
    if run.status != 'ok':
        out['crash'] = (run.status, run.error)
        return False
    genome, anno, _ = gen_ref.load_reference(case)
    out['real_reading'] = real_reading(v, anno, genome)[0]
    dd, _dseq, _dgs = cv_backbone.tx_dict(anno, genome, donor, [])
    am = anno.transcripts[acc]
    exc = cv_explore.resolve_exc(kw)
    out['donor'] = {k: dd[k] for k in ('coding', 'orf', 'start_nf', 'sec')}
    out['donor_seq'] = dd['seq']
    out['acc_end_nf'] = bool(am.is_mrna_end_nf())
    out['ref_line'] = cv_backbone.ref_line(dd, kw, exc, kw['selenocysteine_termination'],
                                           kw['w2f_reassignment'])
    out['cleave'] = cv_explore.cleave_fields(kw, exc) + ['0', '1' if kw['w2f_reassignment'] else '0']
    out['canon'] = ','.join(sorted(canon))
    out['real'] = sorted(run.fasta.keys())
    out['headers'] = {s_: h for s_, h in run.fasta.items()}
    out['stats']['coding_donor' if dd['coding'] else 'noncoding_donor'] = 1
    try:
        pool = cv_backbone.load_pool(case, anno, genome)
        out['desc']['loaded_breakpoint_tx'] = int(pool[donor].fusion[0].location.start)
    except Exception as e:      # noqa  diagnostic only
        out['desc']['loaded_breakpoint_tx'] = f'{type(e).__name__}'
    return True


def cv_worker(job):
    """one two-gene reference (gen_ref.make_reference), ONE tool row for a fusion between the two
    genes, the real parser command, the real callVariant"""
    seed, index = job
    rng = random.Random(seed)
    tool = TOOLS[index % 3]
    out = {'stats': {}, 'seed': seed, 'tool': tool, 'desc': {'seed': seed, 'tool': tool}}
    case = gen_ref.Case(gen_ref.work_dir('c15cv'))
    try:
        from . import cv_backbone, cv_explore
        with quiet():
            if rng.random() < 0.4:
                # the two genes on different chromosomes (inter-chromosomal fusion)
                gen_ref.make_reference_two_chrom(case, seed)
                out['stats']['two_chromosomes'] = 1
            else:
                gen_ref.make_reference(case, seed, 2)
            genome, anno, _ = gen_ref.load_reference(case)
        gtf_text, fasta_text = open(case.gtf).read(), open(case.genome).read()
        a = light_anno(gtf_text, fasta_text)
        if len(a.genes) != 2 or any(len(g.txs) != 1 for g in a.genes):
            out['stats']['unexpected_reference'] = 1
            return out
        dg, ag = (a.genes[0], a.genes[1]) if rng.random() < 0.5 else (a.genes[1], a.genes[0])
        dd, _s, _g = cv_backbone.tx_dict(anno, genome, dg.txs[0].id, [])
        r = cv_draw_row(a, rng, dg, ag, tool, dd)
        if r is None:
            out['stats']['no_row'] = 1
            return out
        kw = cv_explore.default_kw(rng, True, None)
        out['desc'].update(kw=kw, row=tool_line(tool, r), class_left=r.cl, class_right=r.cr)
        out['files'] = {'gtf': gtf_text, 'genome': dict(a.chroms),
                        'proteome': open(case.proteome).read(), 'header': HEADER[tool]}
        out['stats']['class_left_' + r.cl.rstrip('123')] = 1
        out['stats']['class_right_' + r.cr.rstrip('123')] = 1
        rows = {'lines': [tool_line(tool, r)], 'lb': r.lb, 'rb': r.rb}
        out['rows'] = rows
        if cv_pipeline(case, a, tool, rows, kw, out):
            out['stats']['runs'] = 1
        return out
    except Exception:   # noqa
        out['stats']['worker_error'] = 1
        out['error'] = traceback.format_exc()[-1500:]
        return out
    finally:
        case.cleanup()


def cv_expected(ctx, done):
    """Lean side for the completed cases: the four stretches of fusedSeq, the reading of the
    parsed record, the donor's reference peptides, then Spec.callBackbone on the backbone"""
    lines = []
    for r in done:
        lines += [r['parts_line'], r['read_line'], r['ref_line']]
    outs = ctx.lean(lines)
    if outs is None:
        ctx.add_broken('correspondence', 'callvariant', 'native driver unavailable')
        return False
    lines2, idx = [], []
    for i, r in enumerate(done):
        parts, read, deny = outs[3 * i:3 * i + 3]
        p = parts.split('|')
        if len(p) != 4:
            r['lean_error'] = parts[:200]
            continue
        de, di, ai, ae = p
        r['backbone'] = de + di + ai + ae
        r['read'] = read
        bp = len(de)
        lim = bp + len(di) + len(ai)
        dd = r['donor']
        orf = dd['orf']
        r['bp'], r['lim'] = bp, lim
        r['skip_fusion'] = bp < (orf[0] if orf else 0) + 3
        r['S'] = set()
        if r['skip_fusion']:
            continue
        btx = {'seq': r['backbone'], 'coding': dd['coding'], 'orf': orf, 'start_nf': dd['start_nf'],
               'end_nf': r['acc_end_nf'], 'sec': [s for s in dd['sec'] if s + 3 <= bp]}
        from .cv_explore import tx_fields
        lines2.append('\t'.join(['S', 'cvb'] + tx_fields(btx) + [str(lim), '1', ''] + r['cleave']
                                + [deny, r['canon']]))
        idx.append(i)
    outs2 = ctx.lean(lines2) if lines2 else []
    if outs2 is None:
        ctx.add_broken('correspondence', 'callvariant', 'native driver unavailable (cvb)')
        return False
    for i, o in zip(idx, outs2):
        done[i]['S'] = set(o.split(',')) if o else set()
    return True


def cv_replay_dict(r, **extra):
    d = dict(r['desc'])
    d.update(kind='callvariant', tool=r['tool'], rows=r['rows']['lines'],
             left_breakpoint_1based=r['rows']['lb'], right_breakpoint_1based=r['rows']['rb'],
             header=r['files']['header'], gtf=r['files']['gtf'], genome=r['files']['genome'],
             proteome=r['files']['proteome'])
    for k in ('bp', 'lim', 'backbone', 'donor', 'acc_end_nf', 'skip_fusion'):
        if k in r:
            d[{'bp': 'donor_breakpoint_tx', 'lim': 'acceptor_exonic_start'}.get(k, k)] = r[k]
    d.update(extra)
    return d


def cv_judge(ctx, r):
    """verdicts on one completed case (after cv_expected); returns the number of violations"""
    nv = 0
    if 'lean_error' in r:
        ctx.add_broken('correspondence', 'callvariant', 'C15 parts op: ' + r['lean_error'])
        return 0
    exp = 'ok:' + r['backbone']
    if r['read'] != exp:
        # the reading of the record the command wrote (model of the documented semantics) is not
        # the fusion transcript of the row's breakpoints
        nv += 1
        ctx.add_violation(DENOTES_MSG + ' (record written by the parser command, read by the C15 '
                          'model, vs FusionSpec.fusedParts of the row)',
                          cv_replay_dict(r, expected=r['backbone'], got=r['read']))
    if r['real_reading'] != exp:
        nv += 1
        ctx.add_violation(DENOTES_MSG, cv_replay_dict(r, expected=r['backbone'],
                                                      got=r['real_reading']))
    real = set(r['real'])
    extra, missing = real - r['S'], r['S'] - real
    if extra:
        nv += 1
        ctx.add_violation(f'{CV_EXTRA}: {len(extra)} peptide(s), e.g. {sorted(extra)[:3]}',
                          cv_replay_dict(r, sub='extra', extra=sorted(extra)[:20],
                                         headers={s: r['headers'][s] for s in sorted(extra)[:5]},
                                         n_expected=len(r['S']), n_reported=len(real)))
    if missing:
        nv += 1
        # known class: an annotated Sec codon of the donor that ENDS exactly at the breakpoint is read
        # as a stop (the fusion then yields nothing behind it)
        bp_ = r.get('bp', r.get('donor_breakpoint_tx'))
        sec_end = bp_ is not None and any(s_ + 3 == bp_ for s_ in (r.get('donor') or {}).get('sec', []))
        ctx.add_violation(f'{CV_MISSING}: {len(missing)} peptide(s), e.g. {sorted(missing)[:3]}',
                          cv_replay_dict(r, sub='missing', missing=sorted(missing)[:20],
                                         n_expected=len(r['S']), n_reported=len(real)),
                          finding_key='sec-codon-ends-at-fusion-breakpoint' if (sec_end and not extra) else None)
    return nv


def callvariant_stream(ctx, procs=14):
    n = ctx.n(54, 900)
    jobs = [(ctx.rng('callvariant', i).randrange(1 << 30), i) for i in range(n)]
    with mp.get_context('fork').Pool(min(procs, max(1, n))) as pool:
        res = pool.map(cv_worker, jobs)
    shutil.rmtree(gen_ref.WORK, ignore_errors=True)
    stats = {}
    for r in res:
        for k, v in r['stats'].items():
            stats[k] = stats.get(k, 0) + v
    ctx.coverage['callvariant_worker_stats'] = stats
    errs = [r['error'] for r in res if 'error' in r]
    if errs:
        ctx.coverage['callvariant_worker_errors'] = errs[:3]
        ctx.notes.append(f'{len(errs)} callvariant worker(s) hit a harness error (cases not counted)')
        if len(errs) * 4 > n:
            ctx.add_broken('correspondence', 'callvariant',
                           f'{len(errs)} of {n} workers failed: {errs[0][-800:]}')
    for r in res:
        if 'parser_crash' in r:
            ctx.evaluated('callvariant', str(r['seed']), True, None)
            ctx.add_violation('converter raised on a valid fusion row (known genes, correct '
                              'chromosome, breakpoints inside the genes)',
                              cv_replay_dict(r, real=r['parser'], error=r['parser_crash']))
        elif 'parser_records' in r:
            ctx.evaluated('callvariant', str(r['seed']), True, None)
            ctx.add_violation('records written by a fusion parser command are not exactly one per '
                              'eligible (donor transcript, acceptor transcript) pair of every '
                              'accepted row', cv_replay_dict(r, real=r['parser'],
                                                             n_records=r['parser_records']))
        elif 'crash' in r:
            ctx.evaluated('callvariant', str(r['seed']), True, None)
            ctx.add_violation(f'callVariant crashed ({r["crash"][0]}: {r["crash"][1]}) on the GVF '
                              'written by a fusion parser command', cv_replay_dict(r, sub='crash'))
    done = [r for r in res if 'parts_line' in r and 'real' in r]
    if not cv_expected(ctx, done):
        return
    for r in done:
        sample = {k: v for k, v in r['desc'].items()}
        sample.update(n_expected=len(r.get('S', ())), n_reported=len(r['real']))
        ctx.evaluated('callvariant', str(r['seed']), bool(r.get('S') or r['real']), sample)
        if r.get('skip_fusion'):
            ctx.count('callvariant', 'breakpoint_before_start_codon')
        if r.get('S'):
            ctx.count('callvariant', 'expected_peptides', len(r['S']))
        cv_judge(ctx, r)
    combos = [c for c in ('++', '+-', '-+', '--') if not stats.get('strands_' + c)]
    if combos and n >= 40:
        ctx.notes.append(f'callvariant: strand combinations not drawn this seed: {combos}')

# ------------------------------------------------------------------ streams
def describe(o):
    ac, tool, rows, extra = o[0], o[1], o[2], o[3]
    d = ac.replay(tool, rows, extra if isinstance(extra, dict) else
                  ({'record': extra} if extra else None))
    d['row_desc'] = [r.desc() for r in rows[:12]]
    return d


def flush(ctx, S):
    for s in STREAMS:
        if not S[s]:
            continue
        if s in TOOLS:
            nt = lambda o: o.startswith('err:') or len(o) > 3
        elif s.startswith('cli-'):
            def nt(o):
                if not o.startswith('tally='):
                    return False
                t = o.split(';')[0][6:].split(',')
                return int(t[1]) > 0 and int(t[2]) > 0
        else:
            nt = None
        if s == 'denotes':
            # non-trivial = an intronic breakpoint or different strands (flag carried by the case)
            tr = [c for c in S[s] if c[2][4] == 'T']
            ntv = [c for c in S[s] if c[2][4] == 'N']
            ctx.diff_stream(s, tr, True, describe, lambda o: False, WHAT[s])
            ctx.diff_stream(s, ntv, True, describe, lambda o: True, WHAT[s])
        else:
            ctx.diff_stream(s, S[s], s in OBSERVABLE, describe, nt or (lambda o: True),
                            WHAT.get(s, ''))
        S[s] = []


def conf_stream(ctx):
    from moPepGen.parser.ArribaParser import ArribaConfidence
    import operator
    ops = {'ge': operator.ge, 'gt': operator.gt, 'le': operator.le, 'lt': operator.lt,
           'eq': operator.eq}
    cases = []
    for op, f in ops.items():
        for x in CONFS:
            for y in CONFS:
                try:
                    real = '1' if f(ArribaConfidence(x), ArribaConfidence(y)) else '0'
                except Exception as e:      # noqa
                    real = 'crash:' + type(e).__name__
                cases.append((f'C15\tconf\t{op}\t{x}\t{y}', real, (op, x, y)))
                if op == 'ge' and real != ('1' if conf_ge(x, y) else '0'):
                    ctx.add_violation(
                        'ArribaConfidence >= (used by ArribaRecord.is_valid) is not the order '
                        'low < medium < high', {'a': x, 'b': y, 'real': real})
    ctx.diff_stream('conf', cases, True, lambda o: {'op': o[0], 'a': o[1], 'b': o[2]},
                    lambda o: True,
                    'ArribaConfidence comparison differs from the modelled rich-comparison dispatch')


def run(ctx: common.Ctx):
    if common.REPO not in sys.path:
        sys.path.insert(0, common.REPO)
    ctx.coverage['rule'] = (
        'annotations from the C11 generator (2-5 genes on two chromosomes, both strands, 1-8 exons '
        'incl. 1-base exons/introns, 1-4 isoforms with shared/alternative exons, GENCODE versioned or '
        'ENSEMBL plain gene ids) + random genome, loaded once by the real load_references.  For '
        'every ordered gene pair (same gene with p=0.25) 2-5 rows whose two breakpoints are drawn '
        'from the position classes first/last/interior base of an exon, first/last/interior base of '
        'an intron, first/last base of the gene, first/last base of a transcript; capped per '
        'annotation; each row is rendered for all three tools (FusionCatcher: versioned and '
        'unversioned ids).  Six defective rows per annotation (unknown left/right/both gene, '
        'breakpoint 1-3 bases outside the gene, breakpoint 0, Arriba transcript strand "."/opposite, '
        'FusionCatcher mixed id styles, STAR-Fusion unknown / other chromosome; 30% carry a second '
        'defect) go through the converter streams.  Command cases: 3-12 rows, each with at most one '
        'defect, evidence at threshold-1/threshold/threshold+1 and every Arriba confidence against '
        'thresholds from small grids incl. the defaults, --skip-failed on and off.  Non-trivial: '
        'converter output = an error or >= 1 record; command = >= 1 skipped and >= 1 succeeded row; '
        'denotes = intronic breakpoint on at least one side or donor/acceptor on different strands.  '
        'callvariant (end to end): a two-gene reference from moPepGen.fake (gen_ref.make_reference: '
        'coding / non-coding, cds_start_NF, mRNA_end_NF, selenoproteins, 3-10 exons, both strands), ONE '
        'clean row donor gene -> acceptor gene rendered for one tool (round robin over the three), '
        'breakpoints from the same position classes (exonic / intronic, first / last base of exon, '
        'intron, transcript, gene) plus the last base of the donor start codon and its two '
        'neighbours; for coding donors 90% of the left breakpoints are re-drawn until they fall '
        'into the CDS; rows the open REF finding would lose are not drawn.  The real parser command '
        'writes the GVF, the real callVariant (trypsin, no exception, miscleavage / length / mass '
        'limits, Sec termination and W2F varied) reads it; the FASTA must equal Lean '
        'Spec.callBackbone on the backbone FusionSpec.fusedParts(row breakpoints) (extra peptide = '
        'the clause of the property, missing peptide = completeness).  Non-trivial: expected or '
        'reported set non-empty.')
    ctx.coverage['exhaustive'] = False
    conf_stream(ctx)
    S = {s: [] for s in STREAMS}
    n = ctx.n(60, 800)
    cap = ctx.n(40, 40)
    ncases = 3
    for i in range(n):
        rng = ctx.rng('anno', i)
        a = c11.gen_annotation(rng, ngenes=rng.randint(2, 5), case=i)
        if rng.random() < 0.15:
            trim_chromosomes(a, rng)
            ctx.count('gen', 'annotations_chromosome_trimmed')
        if a.style == 'GENCODE' and rng.random() < 0.3:
            add_par_y_copy(a, rng)
            ctx.count('gen', 'annotations_with_PAR_Y_copy')
        ctx.count('gen', 'annotations')
        ctx.count('gen', 'style_' + a.style)
        process_anno(ctx, i, a, rng, S, cap, ncases)
        if i % 10 == 9:
            flush(ctx, S)
    flush(ctx, S)
    callvariant_stream(ctx)
    # callVariant clause, metamorphic: two fusion records that leave the donor at the same position
    # (two acceptors, or ONE acceptor entered at two positions) must both be called
    from . import cv_checks
    cv_checks.fusion_pairs(ctx, ctx.n(36, 500))
    g = ctx.coverage['streams'].get('gen', {})
    missing = [c for c in ('++', '+-', '-+', '--') if not g.get('record_strands_' + c)]
    if missing:
        ctx.add_broken('correspondence', 'denotes', f'strand combinations never emitted: {missing}')
    ctx.assumptions += [
        'est_J and --min-est-j are compared as integer hundredths (the harness writes est_J with '
        'exactly two decimals and passes the float parsed from the same text)',
        'genes[id].transcripts (a set on the on-disk annotation) fixes the order of the records of '
        'one row: record lists are canonicalised by sorting on both sides',
        'Bio.Seq slicing / reverse_complement on the alphabet ACGTN (List.drop/take, `complement`)',
        'the tool files carry plausible constants in the columns the converters do not read',
        'transcripts whose real get_transcript_sequence raises (degenerate CDS/ORF, property C11) '
        'are not read: records naming them are counted in gen.records_skipped_tx_sequence_rejected',
        'callvariant stream: the graph algorithm of callVariant is not modelled — the stream compares '
        'its FASTA with the definition Spec.callBackbone (proved: Props.C15.callvariant_clause) on the '
        'backbone that Lean computes from the row (FusionSpec.fusedParts; proved to be fusedSeq and '
        'to be cut at the exon/intron boundaries); transcript fields of the donor (ORF, cds_start_NF, '
        'Sec positions, reference peptides through the S ref op) and mRNA_end_NF of the acceptor come '
        'from the real annotation API as in harness/cv_backbone.py; convention of the command: a '
        'fusion whose donor breakpoint lies before the first base behind the start codon yields '
        'nothing; the canonical pool comes from the real load_references',
        'in 15% of the annotations the chromosomes are cut 0-2 bases after their last gene so that '
        'breakpoints on the last / second to last chromosome base occur (known finding '
        + KF_REF + ')',
    ]


# ------------------------------------------------------------------ replay
def replay_callvariant(ctx, case):
    """stored reference files + tool row -> real parser command -> real callVariant -> Lean"""
    ctx.driver_ok = os.path.exists(common.DRIVER)
    c = gen_ref.Case(gen_ref.work_dir('c15rp'))
    try:
        open(c.gtf, 'w').write(case['gtf'])
        fasta = ''.join(f'>{k}\n{v}\n' for k, v in case['genome'].items())
        open(c.genome, 'w').write(fasta)
        open(c.proteome, 'w').write(case['proteome'])
        a = light_anno(case['gtf'], fasta)
        r = {'stats': {}, 'seed': case.get('seed'), 'tool': case['tool'],
             'desc': {'seed': case.get('seed'), 'tool': case['tool'], 'kw': case['kw']},
             'rows': {'lines': case['rows'], 'lb': case['left_breakpoint_1based'],
                      'rb': case['right_breakpoint_1based']},
             'files': {'gtf': case['gtf'], 'genome': case['genome'], 'proteome': case['proteome'],
                       'header': case['header']}}
        kw = dict(case['kw'])
        if not cv_pipeline(c, a, case['tool'], r['rows'], kw, r):
            print('parser / callVariant did not complete:',
                  {k: r[k] for k in ('parser', 'parser_crash', 'parser_records', 'crash') if k in r})
            return 1
        if not cv_expected(ctx, [r]):
            print('native driver unavailable')
            return 2
        print('record               :', r['desc']['record'])
        print('donor breakpoint (tx):', r.get('bp'), ' acceptor exonic start:', r.get('lim'),
              ' loaded by callVariant at:', r['desc'].get('loaded_breakpoint_tx'))
        real = set(r['real'])
        print('reported             :', sorted(real))
        print('definition           :', sorted(r.get('S', ())))
        print('extra                :', sorted(real - r.get('S', set())))
        print('missing              :', sorted(r.get('S', set()) - real))
        n0 = len(ctx.violations)
        cv_judge(ctx, r)
        for v in ctx.violations[n0:]:
            print('VIOLATION:', v.what[:300])
        return 1 if len(ctx.violations) > n0 else 0
    finally:
        c.cleanup()
        shutil.rmtree(gen_ref.WORK, ignore_errors=True)


def replay(ctx, data):
    """re-run the stored case (gtf + genome + tool rows) through the real code"""
    if common.REPO not in sys.path:
        sys.path.insert(0, common.REPO)
    rp = data.get('replay', data)
    case = rp.get('case') if isinstance(rp.get('case'), dict) else rp
    if 'op' in case and 'a' in case and 'tool' not in case:
        from moPepGen.parser.ArribaParser import ArribaConfidence
        x, y = ArribaConfidence(case['a']), ArribaConfidence(case['b'])
        print(json.dumps({'a': case['a'], 'b': case['b'], 'ge': x >= y, 'gt': x > y,
                          'le': x <= y, 'lt': x < y, 'eq': x == y}))
        return 1 if (x >= y) != conf_ge(case['a'], case['b']) else 0
    if not case.get('gtf') or 'rows' not in case:
        print('replay file carries no gtf/rows')
        return 2
    if case.get('kind') == 'callvariant':
        return replay_callvariant(ctx, case)
    from moPepGen.cli import common as cli_common
    from moPepGen import seqvar
    tool = case['tool']
    tmp = tempfile.mkdtemp(prefix='c15r_')
    failed = 0
    try:
        open(os.path.join(tmp, 'annotation.gtf'), 'w').write(case['gtf'])
        with open(os.path.join(tmp, 'genome.fasta'), 'w') as fh:
            for k, v in case['genome'].items():
                fh.write(f'>{k}\n{v}\n')
        inp = os.path.join(tmp, 'rows.txt')
        open(inp, 'w').write(case['header'] + '\n' + ''.join(x + '\n' for x in case['rows']))
        out = Path(tmp) / 'rows.gvf'
        args = base_args(tmp, tool, inp, out)
        with quiet():
            genome, anno, *_ = cli_common.load_references(args, load_canonical_peptides=False)
        # ground truth from the stored GTF, parsed by this harness (exon lines only)
        genes, txs = {}, {}
        for ln in case['gtf'].splitlines():
            if ln.startswith('#'):
                continue
            f = ln.split('\t')
            at = dict(x.strip().split(' ', 1) for x in f[8].strip(';').split(';') if x.strip())
            at = {k: v.strip('"') for k, v in at.items()}
            if f[2] == 'gene':
                genes[at['gene_id']] = (f[0], f[6], int(f[3]) - 1, int(f[4]))
            elif f[2] == 'exon':
                txs.setdefault(at['transcript_id'], (at['gene_id'], []))[1].append(
                    (int(f[3]) - 1, int(f[4])))
        for k in txs:
            txs[k][1].sort()
        thr = case.get('thresholds')
        if thr is not None:
            args.skip_failed = bool(case.get('skip_failed'))
            if tool == 'star':
                args.min_est_j = thr['min_est_j']
            elif tool == 'arriba':
                args.min_split_read1, args.min_split_read2 = thr['min1'], thr['min2']
                args.min_confidence = thr['minconf']
            else:
                args.max_common_mapping, args.min_spanning_unique = thr['maxc'], thr['minu']
            real, tally, recs, errtext = run_cli(tool, args)
            print('command output :', real, errtext)
            if 'real' in case:
                print('stored output  :', case['real'])
            if 'model' in rp:
                print('model output   :', rp['model'])
                failed |= real != rp['model']
            if 'expected_tally' in case:
                print('expected tally :', case['expected_tally'], 'got', tally)
                failed |= tuple(case['expected_tally']) != tuple(tally or ())
            if 'error' in case and real.startswith('crash:'):
                failed = 1
        else:
            recs = []
            for rec in parse_tool(tool, inp):
                o, vs = convert(rec, anno, genome)
                print('converter output:', o)
                if 'model' in rp and rp.get('stream') in TOOLS:
                    print('model output    :', rp['model'])
                    failed |= o != rp['model']
                if 'expected_pairs' in case:
                    got = sorted((v.attrs['TRANSCRIPT_ID'], v.attrs['ACCEPTER_TRANSCRIPT_ID'])
                                 for v in vs)
                    failed |= got != sorted(map(tuple, case['expected_pairs']))
                recs += [v for v in vs if str(v.ref) != '']
            if recs:
                seqvar.io.write(recs, out, cli_common.generate_metadata(args))
                recs = list(seqvar.io.parse(out))
        for v in recs:
            dtx, atx = v.attrs['TRANSCRIPT_ID'], v.attrs['ACCEPTER_TRANSCRIPT_ID']
            lb0, rb0 = genomic_bp(v)
            got, _ = real_reading(v, anno, genome)
            dgid, dex = txs[dtx]
            agid, aex = txs[atx]
            exp = fused_seq(case['genome'][genes[dgid][0]], genes[dgid][1], dex, lb0,
                            case['genome'][genes[agid][0]], genes[agid][1], aex, rb0)
            bad = got != 'ok:' + exp
            if bad or 'record' not in case or case['record'] == fmt_rec(v):
                print(('DIFFERS ' if bad else 'agrees  ') + fmt_rec(v))
                if bad:
                    print('   expected', exp)
                    print('   got     ', got)
            failed |= bad
    finally:
        shutil.rmtree(tmp, ignore_errors=True)
    return 1 if failed else 0
