"""Generated references + GVF inputs, and in-process runners for the real
calling commands.  Inputs come from the repository's own fuzz generator
(`moPepGen.fake`), seeded from the check's PRNG, written to a case directory.
"""
from __future__ import annotations
import argparse
import contextlib
import io
import json
import logging
import os
import random
import re
import shutil
import sys
import tempfile
from pathlib import Path
from typing import Dict, List, Optional, Tuple

from . import common

# one directory per check process: concurrent checks must not remove each other's files
WORK = os.path.join(os.environ.get('VERIF_WORK', '/var/tmp/mpg_verif_work'), 'p%d' % os.getpid())


def work_dir(tag: str) -> str:
    os.makedirs(WORK, exist_ok=True)
    return tempfile.mkdtemp(prefix=tag + '_', dir=WORK)


def _imports():
    if common.REPO not in sys.path:
        sys.path.insert(0, common.REPO)


@contextlib.contextmanager
def quiet():
    """silence stdout and the moPepGen logger for in-process CLI calls"""
    buf = io.StringIO()
    lg = logging.getLogger('moPepGen')
    old = lg.level
    with contextlib.redirect_stdout(buf), contextlib.redirect_stderr(buf):
        try:
            yield buf
        finally:
            lg.setLevel(old)


class Case:
    """A reference (genome/annotation/proteome files) and GVF files."""
    def __init__(self, path: str):
        self.dir = Path(path)
        self.genome = self.dir / 'genome.fasta'
        self.gtf = self.dir / 'annotation.gtf'
        self.proteome = self.dir / 'proteome.fasta'
        self.gvfs: List[Path] = []
        self.tx_ids: List[str] = []
        self.meta: Dict = {}

    def cleanup(self):
        shutil.rmtree(self.dir, ignore_errors=True)


def make_reference(case: Case, seed: int, n_genes: int, sec_near_start: float = 0.0,
                   context: float = 0.0, sec_lys: float = 0.7, start_context: float = 0.5,
                   widen_genes: float = 0.0, trp: float = 0.0):
    """fake genome + annotation (+ proteome by translation), written with the
    repository's writers as util/fuzz_test.py does."""
    _imports()
    from moPepGen import fake, aa
    from moPepGen.gtf import GtfIO
    from Bio import SeqIO
    from Bio.Seq import Seq
    random.seed(seed)
    genome, anno = fake.fake_genome_and_annotation(n_genes)
    if widen_genes > 0:
        # a gene record wider than its listed transcript (other isoforms not in the annotation):
        # gene coordinates and transcript coordinates then differ by more than the introns
        from moPepGen.SeqFeature import FeatureLocation
        wrng = random.Random(seed ^ 0x61DE)
        for gid, gm in anno.genes.items():
            if wrng.random() < widen_genes:
                n = len(genome[gm.chrom].seq)
                lo = max(0, int(gm.location.start) - wrng.randint(0, 9))
                hi = min(n, int(gm.location.end) + wrng.randint(0, 9))
                if (lo, hi) != (int(gm.location.start), int(gm.location.end)):
                    gm.location = FeatureLocation(seqname=gm.location.seqname, start=lo, end=hi,
                                                  strand=gm.location.strand)
                    case.meta.setdefault('widened_genes', []).append(gid)
    if sec_near_start > 0:
        prng = random.Random(seed ^ 0x5EC)
        for tx_id in list(anno.transcripts.keys()):
            if prng.random() < sec_near_start:
                try:
                    if plant_sec(anno, genome, prng, tx_id, lys_prob=sec_lys):
                        case.meta.setdefault('planted_sec', []).append(tx_id)
                        # half of them: a long in-frame 5'UTR run without K / R / stop in front of
                        # the ATG and no K / R between the ATG and the Sec — the start codon then
                        # sits in the SECOND half of its cleavage-graph node and the Sec in the same
                        # node (truncate_left re-bases the Sec positions of the kept part)
                        if prng.random() < start_context and plant_start_context(anno, genome, prng, tx_id):
                            case.meta.setdefault('planted_start_context', []).append(tx_id)
                except Exception:   # noqa
                    pass
    if trp > 0:
        prng3 = random.Random(seed ^ 0x7121)
        for tx_id in list(anno.transcripts.keys()):
            if prng3.random() < trp:
                try:
                    at = plant_trp(anno, genome, prng3, tx_id)
                except Exception:   # noqa
                    at = None
                if at is not None:
                    case.meta.setdefault('planted_trp', {})[tx_id] = at
    if context > 0:
        prng2 = random.Random(seed ^ 0xC0DE)
        for tx_id in list(anno.transcripts.keys()):
            if prng2.random() < context:
                try:
                    hit = plant_context(anno, genome, prng2, tx_id)
                except Exception:   # noqa
                    hit = None
                if hit:
                    case.meta.setdefault('planted_context', []).append((tx_id,) + hit)
    proteome = aa.AminoAcidSeqDict()
    for tx_model in anno.transcripts.values():
        if not tx_model.is_protein_coding:
            continue
        tx_seq = tx_model.get_transcript_sequence(genome[tx_model.transcript.chrom])
        prot = str(tx_seq[tx_seq.orf.start:tx_seq.orf.end].translate().seq)
        for sec in tx_seq.selenocysteine:
            sec_start = int((sec.start - tx_seq.orf.start) / 3)
            prot = prot[:sec_start] + 'U' + prot[sec_start + 1:]
        desc = f"{tx_model.protein_id}|{tx_model.transcript_id}|{tx_model.gene_id}|XXX"
        aa_seq = aa.AminoAcidSeqRecord(Seq(prot), _id=tx_model.protein_id,
                                       name=tx_model.protein_id, description=desc)
        proteome[tx_model.transcript_id] = aa_seq
    with open(case.gtf, 'wt') as handle:
        GtfIO.write(handle, anno)
    # give every record a GENCODE-style biotype so that the annotation source can be
    # inferred and the biotype filters of callNovelORF have something to look at
    coding_genes = {m.gene_id for m in anno.transcripts.values() if m.is_protein_coding}
    fixed = []
    for ln in open(case.gtf).read().split('\n'):
        if not ln:
            continue
        gid = [a.strip().split(' ')[1] for a in ln.split('\t')[8].split(';')
               if a.strip().startswith('gene_id')][0]
        bt = 'protein_coding' if gid in coding_genes else 'lncRNA'
        # moPepGen.fake spells the tag 'mrna_end_NF'; the reader tests 'mRNA_end_NF'
        fixed.append(ln.replace('tag mrna_end_NF', 'tag mRNA_end_NF') + f' gene_type {bt};')
    with open(case.gtf, 'wt') as handle:
        handle.write('\n'.join(fixed) + '\n')
    with open(case.genome, 'wt') as handle:
        writer = SeqIO.FastaIO.FastaWriter(handle, record2title=lambda x: x.id)
        for record in genome.values():
            writer.write_record(record)
    with open(case.proteome, 'wt') as handle:
        writer = SeqIO.FastaIO.FastaWriter(handle, record2title=lambda x: x.description)
        for record in proteome.values():
            writer.write_record(record)
    case.tx_ids = list(anno.transcripts.keys())
    return genome, anno, proteome


def make_reference_two_chrom(case: Case, seed: int, sec_near_start: float = 0.0):
    """two single-gene references merged into one with the genes on DIFFERENT chromosomes
    (`chrF`, `chrG`) — inter-chromosomal fusions need per-transcript chromosome look-ups"""
    parts = []
    k = 0
    while len(parts) < 2:
        sub = Case(work_dir('sub'))
        make_reference(sub, seed + 7919 * k, 1, sec_near_start=sec_near_start)
        k += 1
        gtf = open(sub.gtf).read()
        gid = [ln.split('gene_id ')[1].split(';')[0] for ln in gtf.split('\n') if 'gene_id ' in ln][0]
        if parts and gid == parts[0][3]:
            sub.cleanup()
            continue
        parts.append((gtf, open(sub.genome).read(), open(sub.proteome).read(), gid))
        sub.cleanup()
    (g1, f1, p1, _), (g2, f2, p2, _) = parts
    g2 = '\n'.join(('chrG' + ln[len('chrF'):]) if ln.startswith('chrF\t') else ln for ln in g2.split('\n'))
    f2 = f2.replace('>chrF', '>chrG', 1)
    with open(case.gtf, 'wt') as h:
        h.write(g1.rstrip('\n') + '\n' + g2.rstrip('\n') + '\n')
    with open(case.genome, 'wt') as h:
        h.write(f1.rstrip('\n') + '\n' + f2.rstrip('\n') + '\n')
    with open(case.proteome, 'wt') as h:
        h.write(''.join(x.rstrip('\n') + '\n' for x in (p1, p2) if x.strip()))
    case.meta['two_chrom'] = True


def load_reference(case: Case):
    _imports()
    from moPepGen.util.common import load_references
    anno, genome, proteome = load_references(
        path_anno=case.gtf, path_genome=case.genome, path_proteome=case.proteome)
    return genome, anno, proteome


def make_variants(case: Case, seed: int, anno, genome, *, per_tx=(1, 4), max_size=4,
                  snv_frac=0.6, fusion_frac=0.0, circ_frac=0.0, alt_splice_frac=0.0,
                  tx_subset: Optional[List[str]] = None, exonic_only=True):
    """records (VariantRecord / CircRNAModel) for several transcripts"""
    _imports()
    from moPepGen import fake, ERROR_INDEX_IN_INTRON
    random.seed(seed)
    records = []
    txs = tx_subset if tx_subset is not None else list(anno.transcripts.keys())
    for tx_id in txs:
        n = random.randint(*per_tx)
        if len(anno.transcripts) > 1 and random.random() < fusion_frac:
            try:
                records.append(fake.fake_fusion(anno, genome, tx_id))
            except Exception:   # noqa  generator could not place a fusion
                pass
        if random.random() < circ_frac:
            try:
                records.append(fake.fake_circ_rna_model(anno, tx_id, 0.2))
            except Exception:   # noqa
                pass
        for _ in range(n):
            try:
                if random.random() < alt_splice_frac:
                    rec = fake.fake_rmats_record(anno, genome, tx_id)
                else:
                    vt = 'SNV' if random.random() < snv_frac else 'INDEL'
                    rec = fake.fake_variant_record(anno=anno, genome=genome, tx_id=tx_id,
                                                   var_type=vt, max_size=max_size,
                                                   exonic_only=exonic_only)
            except Exception:   # noqa
                continue
            records.append(rec)
    # drop exact duplicates (same id on same transcript)
    seen, out = set(), []
    for r in records:
        key = (getattr(r, 'transcript_id', None), r.id)
        if key in seen:
            continue
        seen.add(key)
        out.append(r)
    return out


def write_gvfs(case: Case, records, layout: Optional[List[List[int]]] = None,
               names: Optional[List[str]] = None, circ_name: str = 'circ.gvf'):
    """Write variant records into one or more GVF files (layout = list of index
    lists into the non-circ records); circRNA records go to their own file."""
    _imports()
    from moPepGen import seqvar, circ
    from moPepGen.circ import CircRNAModel
    from moPepGen.cli.common import generate_metadata
    var_records = [r for r in records if r.__class__ is not CircRNAModel]
    circ_records = [r for r in records if r.__class__ is CircRNAModel]
    if layout is None:
        layout = [list(range(len(var_records)))]
    args = argparse.Namespace()
    args.index_dir = None
    args.command = 'parseVEP'
    args.source = 'gSNP'
    case.gvfs = []
    for k, idxs in enumerate(layout):
        if not idxs:
            continue
        path = case.dir / (names[k] if names else f'var_{k}.gvf')
        args.source = f'src{k}'
        metadata = generate_metadata(args)
        recs = sorted([var_records[i] for i in idxs])
        seqvar.io.write(recs, path, metadata)
        case.gvfs.append(path)
    if circ_records:
        args.command = 'parseCIRCexplorer'
        args.source = 'circRNA'
        metadata = generate_metadata(args)
        path = case.dir / circ_name
        with open(path, 'w') as handle:
            circ.io.write(circ_records, metadata, handle)
        case.gvfs.append(path)
    return case.gvfs


def call_variant_args(case: Case, out: Path, **kw) -> argparse.Namespace:
    args = argparse.Namespace()
    args.index_dir = kw.pop('index_dir', None)
    args.command = 'callVariant'
    args.input_path = list(kw.pop('input_path', case.gvfs))
    if args.index_dir is None:
        args.genome_fasta = case.genome
        args.annotation_gtf = case.gtf
        args.proteome_fasta = case.proteome
    else:
        args.genome_fasta = None
        args.annotation_gtf = None
        args.proteome_fasta = None
    args.reference_source = 'GENCODE'
    args.output_path = out
    args.graph_output_dir = None
    args.quiet = True
    args.backsplicing_only = False
    args.max_adjacent_as_mnv = 2
    args.selenocysteine_termination = False
    args.w2f_reassignment = False
    args.cleavage_rule = 'trypsin'
    args.cleavage_exception = None
    args.miscleavage = 2
    args.min_mw = 500.
    args.min_length = 7
    args.max_length = 25
    args.threads = 1
    args.max_variants_per_node = (7,)
    args.additional_variants_per_misc = (2,)
    args.min_nodes_to_collapse = 30
    args.naa_to_collapse = 5
    args.noncanonical_transcripts = False
    args.invalid_protein_as_noncoding = False
    args.debug_level = 1
    args.timeout_seconds = 300
    args.coding_novel_orf = False
    args.skip_failed = False
    for k, v in kw.items():
        if not hasattr(args, k):
            raise KeyError(k)
        setattr(args, k, v)
    return args


def read_fasta(path) -> Dict[str, List[str]]:
    """sequence -> list of header strings (one per FASTA record with that sequence)"""
    out: Dict[str, List[str]] = {}
    if not os.path.exists(path):
        return out
    title, seq = None, []
    with open(path) as fh:
        for line in fh:
            line = line.rstrip('\n')
            if line.startswith('>'):
                if title is not None:
                    out.setdefault(''.join(seq), []).append(title)
                title, seq = line[1:], []
            else:
                seq.append(line.strip())
    if title is not None:
        out.setdefault(''.join(seq), []).append(title)
    return out


def read_table(path) -> List[List[str]]:
    rows = []
    if not os.path.exists(path):
        return rows
    with open(path) as fh:
        for line in fh:
            if line.startswith('#'):
                continue
            rows.append(line.rstrip('\n').split('\t'))
    return rows


def read_trace(path) -> List[dict]:
    out = []
    if os.path.exists(path):
        with open(path) as fh:
            for line in fh:
                line = line.strip()
                if line:
                    out.append(json.loads(line))
    return out


def clear_pathos():
    """pathos caches its worker processes across pools; workers started by an
    earlier run keep that run's environment (trace path, injected faults).
    Destroy them after every multi-threaded run."""
    try:
        import pathos.parallel as pp_
        state = getattr(pp_, '__STATE', None) or getattr(pp_, '_ParallelPool__STATE', {})
        for key in list(state.keys()):
            srv = state.pop(key)
            try:
                srv.destroy()
            except Exception:   # noqa
                pass
    except Exception:   # noqa
        pass


class RunResult:
    def __init__(self):
        self.status = 'ok'        # ok | crash:<Type>
        self.error = ''
        self.fasta: Dict[str, List[str]] = {}
        self.table: List[List[str]] = []
        self.trace: List[dict] = []
        self.log = ''
        self.fasta_exists = False


STAGES = ('create_variant_graph', 'fit_into_codons', 'translate', 'create_cleavage_graph',
          'call_variant_peptides')


@contextlib.contextmanager
def stage_fault(spec):
    """in-process fault injection INSIDE a unit: `spec` = (graph id, stage, n) makes the n-th call
    of that stage method on a graph with that id raise (threads=1 only; no change to /repo)"""
    if not spec:
        yield
        return
    _imports()
    from moPepGen.svgraph.ThreeFrameTVG import ThreeFrameTVG
    from moPepGen.svgraph.PeptideVariantGraph import PeptideVariantGraph
    gid, stage, nth = spec
    canonical = stage.startswith('canonical:')      # the variant-free graph call_canonical_peptides builds
    if canonical:
        stage = stage.split(':', 1)[1]
    cls = PeptideVariantGraph if stage in ('create_cleavage_graph', 'call_variant_peptides') else ThreeFrameTVG
    orig = cls.__dict__[stage]
    orig_cvg = ThreeFrameTVG.__dict__['create_variant_graph']
    # create_variant_graph / fit_into_codons never run on the variant-free canonical graph; translate
    # and the peptide-graph stages do, so they are counted from the first VARIANT graph of this id on
    needs_arming = not canonical and stage not in ('create_variant_graph', 'fit_into_codons')
    state = {'n': 0, 'armed': not needs_arming}

    def arm(self, *a, **k):
        # calls on the peptide graph are counted from the first VARIANT graph of this id on
        if getattr(self, 'id', None) == gid:
            state['armed'] = True
        return orig_cvg(self, *a, **k)

    def wrapped(self, *a, **k):
        if getattr(self, 'id', None) == gid and state['armed']:
            state['n'] += 1
            if state['n'] == nth:
                raise RuntimeError(f'injected fault in {stage} (call {nth}) of {gid}')
        return orig(self, *a, **k)
    setattr(cls, stage, wrapped)
    if needs_arming:
        ThreeFrameTVG.create_variant_graph = arm
    try:
        yield
    finally:
        setattr(cls, stage, orig)
        ThreeFrameTVG.create_variant_graph = orig_cvg


def run_call_variant(case: Case, tag: str = 'out', fail: str = '', timeouts: str = '',
                     stage_fail=None, **kw) -> RunResult:
    """Run the real callVariant in-process with hooks on; returns outputs + trace."""
    _imports()
    from moPepGen.cli.call_variant_peptide import call_variant_peptide
    out = case.dir / f'{tag}.fasta'
    table = case.dir / f'{tag}_peptide_table.txt'
    trace = case.dir / f'{tag}.trace'
    for p in (out, table, trace, Path(str(trace) + '.to')):
        if p.exists():
            p.unlink()
    args = call_variant_args(case, out, **kw)
    res = RunResult()
    env_old = {k: os.environ.get(k) for k in
               ('MOPEPGEN_VERIF_TRACE', 'MOPEPGEN_VERIF_FAIL', 'MOPEPGEN_VERIF_TIMEOUT')}
    os.environ['MOPEPGEN_VERIF_TRACE'] = str(trace)
    os.environ['MOPEPGEN_VERIF_FAIL'] = fail
    os.environ['MOPEPGEN_VERIF_TIMEOUT'] = timeouts
    handler = logging.StreamHandler(io.StringIO())
    lg = logging.getLogger('moPepGen')
    try:
        with quiet() as buf:
            lg.addHandler(handler)
            lg.setLevel(logging.INFO)
            try:
                with stage_fault(stage_fail):
                    call_variant_peptide(args)
            except BaseException as e:   # noqa  includes SystemExit
                if isinstance(e, KeyboardInterrupt):
                    raise
                res.status = f'crash:{type(e).__name__}'
                res.error = str(e)[:500]
            finally:
                lg.removeHandler(handler)
        res.log = handler.stream.getvalue() + buf.getvalue()
    finally:
        for k, v in env_old.items():
            if v is None:
                os.environ.pop(k, None)
            else:
                os.environ[k] = v
    if getattr(args, 'threads', 1) > 1:
        clear_pathos()
    res.fasta_exists = out.exists()
    res.fasta = read_fasta(out)
    res.table = read_table(table)
    res.trace = read_trace(trace)
    return res


# ------------------------------------------------------------------ extras
def make_snv(anno, genome, tx_id: str, tx_pos: int, alt: str):
    """an SNV record (gene coordinates, as the parsers emit) at transcript position tx_pos"""
    _imports()
    from moPepGen.seqvar.VariantRecord import VariantRecord
    from moPepGen.SeqFeature import FeatureLocation
    tx_model = anno.transcripts[tx_id]
    gene_id = tx_model.transcript.gene_id
    gene_model = anno.genes[gene_id]
    chrom = gene_model.chrom
    gene_seq = gene_model.get_gene_sequence(genome[chrom])
    g = anno.coordinate_transcript_to_genomic(tx_pos, tx_id)
    start = anno.coordinate_genomic_to_gene(g, gene_id)
    ref = str(gene_seq.seq[start:start + 1])
    if ref == alt:
        return None
    return VariantRecord(
        location=FeatureLocation(start=start, end=start + 1, seqname=gene_id),
        ref=ref, alt=alt, _type='SNV', _id=f'{gene_id}-{start}-{ref}-{alt}',
        attrs={'TRANSCRIPT_ID': tx_id, 'GENOMIC_POSITION': f'{chrom}-{g}:{g + 1}',
               'GENE_SYMBOL': gene_model.gene_name})


def junction_mnv(anno, genome, tx_id: str, rng: random.Random):
    """two SNVs on the LAST base of an exon and the FIRST base of the next one (adjacent in the
    transcript: they can only share a haplotype as the merged pair) plus the skipped-exon Deletion
    of that next exon, whose record sorts exactly between them.  Returns [] when the transcript
    has no such junction."""
    _imports()
    import random as _r
    from moPepGen import fake
    tx_model = anno.transcripts[tx_id]
    if len(tx_model.exon) < 3:
        return []
    _r.seed(rng.randrange(1 << 30))
    try:
        dele = fake.fake_exon_deletion(anno, genome, tx_id, 'SE')
    except Exception:   # noqa
        return []
    gene_id = tx_model.transcript.gene_id
    try:
        # first base (transcript order) of the deleted exon
        g0 = anno.coordinate_gene_to_genomic(int(dele.attrs['START']), gene_id)
        p = tx_model.get_transcript_index(g0)
    except Exception:   # noqa
        return []
    if p < 1:
        return []
    out = [dele]
    # the pair straddles the junction (p-1, p) or ends on the deletion's anchor base (p-2, p-1):
    # in the second layout the Deletion record sorts BETWEEN the two SNVs of the pair
    if rng.random() < 0.6 and p >= 2:
        p -= 1
    for q in (p - 1, p):
        try:
            g = anno.coordinate_transcript_to_genomic(q, tx_id)
            start = anno.coordinate_genomic_to_gene(g, gene_id)
            gene_model = anno.genes[gene_id]
            ref = str(gene_model.get_gene_sequence(genome[gene_model.chrom]).seq[start:start + 1])
            rec = make_snv(anno, genome, tx_id, q, rng.choice([c for c in 'ACGT' if c != ref]))
        except Exception:   # noqa
            return []
        if rec is None:
            return []
        out.append(rec)
    return out


def plant_i_to_l(anno, genome, rng: random.Random, n: int = 2):
    """SNVs that turn an isoleucine codon of a coding transcript into a leucine codon
    (A>C at the first codon position): the variant peptide is then the I->L image of a
    canonical peptide, which only the global canonical filter rejects."""
    out = []
    for tx_id, tx_model in anno.transcripts.items():
        if not tx_model.is_protein_coding:
            continue
        tx_seq = tx_model.get_transcript_sequence(genome[tx_model.transcript.chrom])
        if not tx_seq.orf:
            continue
        s = str(tx_seq.seq)
        cands = [i for i in range(int(tx_seq.orf.start) + 3, int(tx_seq.orf.end) - 3, 3)
                 if s[i:i + 3] in ('ATA', 'ATC', 'ATT')]
        rng.shuffle(cands)
        for i in cands[:n]:
            try:
                rec = make_snv(anno, genome, tx_id, i, 'C')
            except Exception:   # noqa
                rec = None
            if rec is not None:
                out.append(rec)
    return out


def tag_cds_start_nf(case: Case, rng: random.Random) -> List[str]:
    """after duplicate_isoforms: tag the ORIGINAL isoform of some coding genes `cds_start_NF` (its
    twin `<tx>B`, listed later in the proteome, stays complete): two identical proteins, the first
    one without the Met-removed forms, the second one with them"""
    lines = open(case.gtf).read().split('\n')
    txs = []
    for ln in lines:
        f = ln.split('\t')
        if len(f) > 8 and f[2] == 'transcript' and 'is_protein_coding true' in f[8] \
                and 'cds_start_NF' not in f[8]:
            tx = [a.strip().split(' ')[1] for a in f[8].split(';') if a.strip().startswith('transcript_id')][0]
            if not tx.endswith('B') and not tx.endswith('N'):
                txs.append(tx)
    chosen = [t for t in txs if rng.random() < 0.6]
    if not chosen:
        return []
    out = []
    for ln in lines:
        f = ln.split('\t')
        if len(f) > 8:
            tx = [a.strip().split(' ')[1] for a in f[8].split(';') if a.strip().startswith('transcript_id')]
            if tx and tx[0] in chosen and 'cds_start_NF' not in f[8]:
                ln = ln.replace(' gene_type ', ' tag cds_start_NF; gene_type ', 1) if ' gene_type ' in ln \
                    else ln + ' tag cds_start_NF;'
        out.append(ln)
    with open(case.gtf, 'wt') as fh:
        fh.write('\n'.join(out))
    return chosen


def tag_transcripts(case: Case, rng: random.Random, tag: str, frac: float = 0.6) -> List[str]:
    """add `tag <tag>` to the records of some coding transcripts that do not carry it (GTF text
    edit).  With `mRNA_start_NF` (and no `cds_start_NF`): the 5' end of the transcript is incomplete,
    the CDS start is known — the canonical pool keeps the Met-removed N-terminal peptides."""
    lines = open(case.gtf).read().split('\n')
    txs = []
    for ln in lines:
        f = ln.split('\t')
        if len(f) > 8 and f[2] == 'transcript' and 'is_protein_coding true' in f[8] and tag not in f[8]:
            tx = [a.strip().split(' ')[1] for a in f[8].split(';') if a.strip().startswith('transcript_id')][0]
            txs.append(tx)
    chosen = [t for t in txs if rng.random() < frac]
    if not chosen:
        return []
    out = []
    for ln in lines:
        f = ln.split('\t')
        if len(f) > 8:
            tx = [a.strip().split(' ')[1] for a in f[8].split(';') if a.strip().startswith('transcript_id')]
            if tx and tx[0] in chosen and tag not in f[8]:
                ln = ln.replace(' gene_type ', f' tag {tag}; gene_type ', 1) if ' gene_type ' in ln \
                    else ln + f' tag {tag};'
        out.append(ln)
    with open(case.gtf, 'wt') as fh:
        fh.write('\n'.join(out))
    return chosen


def duplicate_isoforms(case: Case, records):
    """Give every gene a second, identical isoform (<tx>B) in GTF + proteome and
    duplicate every small-variant record for it, so that two transcripts of one batch
    yield the same variant peptides."""
    import copy
    from moPepGen.circ import CircRNAModel
    lines = open(case.gtf).read().split('\n')
    out = []
    by_tx = {}
    order = []
    for ln in lines:
        if not ln or ln.startswith('#'):
            continue
        f = ln.split('\t')
        if f[2] == 'gene':
            out.append(('gene', ln))
            continue
        tx = [a.strip().split(' ')[1] for a in f[8].split(';') if a.strip().startswith('transcript_id')][0]
        if tx not in by_tx:
            by_tx[tx] = []
            order.append(tx)
        by_tx[tx].append(ln)
        out.append(('tx', ln))
    new_lines = []
    emitted = set()
    for kind, ln in out:
        new_lines.append(ln)
    for tx in order:
        for ln in by_tx[tx]:
            new_lines.append(ln.replace(tx, tx + 'B').replace(tx.replace('FAKET', 'FAKEP'),
                                                             tx.replace('FAKET', 'FAKEP') + 'B'))
    with open(case.gtf, 'wt') as fh:
        fh.write('\n'.join(new_lines) + '\n')
    prot = open(case.proteome).read()
    add = []
    for block in prot.split('>')[1:]:
        hdr, _, seq = block.partition('\n')
        pid, tx, gene, rest = hdr.split('|', 3)
        add.append(f'>{pid}B|{tx}B|{gene}|{rest}\n{seq}')
    with open(case.proteome, 'at') as fh:
        fh.write(''.join(add))
    extra = []
    for r in records:
        if r.__class__ is CircRNAModel or r.type not in ('SNV', 'INDEL', 'RNAEditingSite'):
            continue
        r2 = copy.deepcopy(r)
        r2.attrs['TRANSCRIPT_ID'] = r.attrs['TRANSCRIPT_ID'] + 'B'
        extra.append(r2)
    case.tx_ids = case.tx_ids + [t + 'B' for t in order]
    return records + extra


def _gtf_attr(fields8: str, key: str) -> Optional[str]:
    for a in fields8.split(';'):
        a = a.strip()
        if a.startswith(key + ' '):
            return a.split(' ', 1)[1].strip('"')
    return None


def noncoding_twins(case: Case, rng: random.Random, frac: float = 0.7) -> List[str]:
    """Give some coding transcripts a NON-CODING twin: a new lncRNA gene `<gene>N` with one
    transcript `<tx>N` on the same exons (no CDS / selenocysteine / UTR lines, not in the
    proteome) — a processed copy / non-coding isoform that shares the start codon and ORF of
    the coding transcript.  callNovelORF on the twin re-derives the canonical peptides of the
    coding transcript (with and without the start methionine, with missed cleavages), all of
    which the command has to filter.  Returns the twin transcript ids."""
    coding = set()
    for block in open(case.proteome).read().split('>')[1:]:
        hdr = block.partition('\n')[0]
        coding.add(hdr.split('|')[1])
    lines = [ln for ln in open(case.gtf).read().split('\n') if ln and not ln.startswith('#')]
    by_tx: Dict[str, List[str]] = {}
    order = []
    for ln in lines:
        f = ln.split('\t')
        if f[2] not in ('transcript', 'exon'):
            continue
        tx = _gtf_attr(f[8], 'transcript_id')
        if tx not in by_tx:
            by_tx[tx] = []
            order.append(tx)
        by_tx[tx].append(ln)
    twins, new_lines = [], []
    cands = [tx for tx in order if tx in coding and not tx.endswith('N')]
    chosen = [tx for tx in cands if rng.random() < frac]
    if cands and not chosen:
        chosen = [rng.choice(cands)]
    for tx in chosen:
        tl = [ln for ln in by_tx[tx] if ln.split('\t')[2] == 'transcript']
        if len(tl) != 1:
            continue
        gene = _gtf_attr(tl[0].split('\t')[8], 'gene_id')
        pid = _gtf_attr(tl[0].split('\t')[8], 'protein_id')

        def conv(ln, feature=None):
            f = ln.split('\t')
            if feature:
                f[2] = feature
            a = f[8].replace(tx, tx + 'N').replace(gene, gene + 'N')
            if pid:
                a = a.replace(pid, pid + 'N')
            a = a.replace('gene_type protein_coding', 'gene_type lncRNA')
            a = a.replace('is_protein_coding true', 'is_protein_coding false')
            a = a.replace(' tag cds_start_NF;', '').replace(' tag mRNA_end_NF;', '')
            f[8] = a
            return '\t'.join(f)
        new_lines.append(conv(tl[0], 'gene'))
        new_lines += [conv(ln) for ln in by_tx[tx]]
        twins.append(tx + 'N')
    if twins:
        with open(case.gtf, 'wt') as fh:
            fh.write('\n'.join(lines + new_lines) + '\n')
        case.tx_ids = case.tx_ids + twins
        case.meta['noncoding_twins'] = twins
    return twins


INVALID_KINDS = ('beyond-gene-end', 'other-gene', 'unknown-gene', 'straddles-transcript-end')


def invalid_record(anno, tx_id: str, kind: str, rng: random.Random):
    """A record of transcript `tx_id` that makes the variant series of that transcript INVALID:
    `VariantRecordPoolOnDisk.__getitem__` raises ValueError when it places the record on the
    transcript.  kinds: gene position behind the end of the gene (= outside the transcript),
    gene coordinates of ANOTHER gene (transcript not associated with the gene), unknown gene."""
    _imports()
    from moPepGen.seqvar.VariantRecord import VariantRecord
    from moPepGen.SeqFeature import FeatureLocation
    tx_model = anno.transcripts[tx_id]
    gene_id = tx_model.transcript.gene_id
    glen = len(anno.genes[gene_id].location)
    if kind == 'beyond-gene-end':
        seqname, start = gene_id, glen + rng.choice([0, 0, 1, 7, 100])
    elif kind == 'other-gene':
        others = [g for g in anno.genes.keys() if g != gene_id]
        if not others:
            return None
        seqname = rng.choice(sorted(others))
        start = rng.randrange(max(1, len(anno.genes[seqname].location)))
    elif kind == 'unknown-gene':
        seqname, start = 'FAKEG99999999', rng.randrange(glen)
    elif kind == 'straddles-transcript-end':
        # a deletion whose REF starts inside the last exon, 1-3 bases before the transcript's 3'
        # end, and runs 1-4 bases past it: one end on the transcript, the other outside of it
        gm = anno.genes[gene_id]
        strand = tx_model.transcript.strand
        if strand == 1:
            last = int(tx_model.transcript.location.end) - 1 - int(gm.location.start)
        else:
            last = int(gm.location.end) - 1 - int(tx_model.transcript.location.start)
        start = last - rng.randint(1, 3)
        n = (last - start + 1) + rng.randint(1, 4)
        if start < 1:
            return None
        ref = ''.join(rng.choice('ACGT') for _ in range(n))
        chrom = tx_model.transcript.chrom
        return VariantRecord(
            location=FeatureLocation(start=start, end=start + n, seqname=gene_id),
            ref=ref, alt=ref[0], _type='INDEL', _id=f'{gene_id}-{start}-{ref}-{ref[0]}',
            attrs={'TRANSCRIPT_ID': tx_id, 'GENOMIC_POSITION': f'{chrom}-{start}:{start + n}',
                   'GENE_SYMBOL': 'BAD'})
    else:
        raise KeyError(kind)
    ref = rng.choice('ACGT')
    alt = rng.choice([c for c in 'ACGT' if c != ref])
    chrom = tx_model.transcript.chrom
    return VariantRecord(
        location=FeatureLocation(start=start, end=start + 1, seqname=seqname),
        ref=ref, alt=alt, _type='SNV', _id=f'{seqname}-{start}-{ref}-{alt}',
        attrs={'TRANSCRIPT_ID': tx_id, 'GENOMIC_POSITION': f'{chrom}-{start}:{start + 1}',
               'GENE_SYMBOL': 'BAD'})


def write_extra_gvf(case: Case, records, name: str, source: str = 'bad') -> Path:
    """one more small-variant GVF file next to the case's files (case.gvfs is left alone)"""
    _imports()
    from moPepGen import seqvar
    from moPepGen.cli.common import generate_metadata
    args = argparse.Namespace()
    args.index_dir = None
    args.command = 'parseVEP'
    args.source = source
    path = case.dir / name
    seqvar.io.write(sorted(records), path, generate_metadata(args))
    return path


def small_variant(anno, genome, tx_id: str, tx_pos: int, kind: str, size: int,
                  rng: random.Random):
    """SNV / insertion / deletion record (gene coordinates, VCF-style anchoring) whose
    first base is transcript position tx_pos; works on both strands. None if it does not
    fit into one exon."""
    _imports()
    from moPepGen.seqvar.VariantRecord import VariantRecord
    from moPepGen.SeqFeature import FeatureLocation
    tx_model = anno.transcripts[tx_id]
    gene_id = tx_model.transcript.gene_id
    gene_model = anno.genes[gene_id]
    chrom = gene_model.chrom
    gene_seq = str(gene_model.get_gene_sequence(genome[chrom]).seq)
    tx_len = tx_model.transcript_len()
    span = 1 if kind in ('SNV', 'INS') else size + 1
    if tx_pos < 0 or tx_pos + span > tx_len:
        return None
    gpos = []
    for k in range(span):
        g = anno.coordinate_transcript_to_genomic(tx_pos + k, tx_id)
        gpos.append(anno.coordinate_genomic_to_gene(g, gene_id))
    if any(b - a != 1 for a, b in zip(gpos, gpos[1:])):
        return None          # crosses an exon junction
    start, end = gpos[0], gpos[-1] + 1
    ref = gene_seq[start:end]
    if kind == 'SNV':
        alt = rng.choice([c for c in 'ACGT' if c != ref])
        vtype = 'SNV'
    elif kind == 'INS':
        alt = ref + ''.join(rng.choice('ACGT') for _ in range(size))
        vtype = 'INDEL'
    else:
        alt = ref[0]
        vtype = 'INDEL'
    g0 = anno.coordinate_gene_to_genomic(start, gene_id)
    return VariantRecord(
        location=FeatureLocation(start=start, end=end, seqname=gene_id),
        ref=ref, alt=alt, _type=vtype, _id=f'{gene_id}-{start}-{ref}-{alt}',
        attrs={'TRANSCRIPT_ID': tx_id, 'GENOMIC_POSITION': f'{chrom}-{g0}:{g0 + 1}',
               'GENE_SYMBOL': gene_model.gene_name})


def small_circ(anno, tx_id: str, rng: random.Random, lo: int = 45, hi: int = 170):
    """a circRNA of a few consecutive exons whose total length is SHORT (lo..hi nt; a length that
    is not a multiple of three is preferred): peptides then span the back-splice junction and
    several passes around the circle.  Built like moPepGen.fake.fake_circ_rna_model_circ."""
    _imports()
    from moPepGen.circ import CircRNAModel
    from moPepGen.SeqFeature import FeatureLocation, SeqFeature
    tx_model = anno.transcripts[tx_id]
    gene_id = tx_model.gene_id
    chrom = tx_model.transcript.chrom
    ex = tx_model.exon
    cands = []
    for i in range(len(ex)):
        tot = 0
        for j in range(i, len(ex)):
            tot += len(ex[j].location)
            if tot > hi:
                break
            if tot >= lo and (j - i + 1) < len(ex):
                cands.append((i, j, tot))
    if not cands:
        return None
    pref = [c for c in cands if c[2] % 3 != 0]
    i, j, _tot = rng.choice(pref or cands)
    fragments = []
    for exon in ex[i:j + 1]:
        start = anno.coordinate_genomic_to_gene(exon.location.start, gene_id)
        end = anno.coordinate_genomic_to_gene(exon.location.end - 1, gene_id)
        if tx_model.transcript.strand == -1:
            start, end = end, start
        end += 1
        fragments.append(SeqFeature(chrom=tx_id, location=FeatureLocation(start=start, end=end),
                                    attributes={}, type='exon'))
    fragments.sort()
    n_ex = len(ex)
    # exon numbering as fake does: index in the (genomically sorted) exon list
    idx = ['E%d' % x for x in range(i + 1, j + 2)]
    _id = f'CIRC-{tx_id}-' + '-'.join(idx)
    if tx_model.transcript.strand == 1:
        start_genomic = anno.coordinate_gene_to_genomic(fragments[0].location.start, gene_id)
    else:
        start_genomic = anno.coordinate_gene_to_genomic(fragments[-1].location.end - 1, gene_id)
    return CircRNAModel(transcript_id=tx_id, fragments=fragments, intron=[], _id=_id, gene_id=gene_id,
                        gene_name=tx_model.transcript.gene_name,
                        genomic_location=f'{chrom}:{start_genomic}')


def circ_positions(anno, tx_id: str, circ, margin: int = 0) -> List[int]:
    """transcript positions covered by the fragments of `circ` (exonic fragments only), `margin`
    positions away from both ends of every fragment"""
    gid = anno.transcripts[tx_id].transcript.gene_id
    out = []
    for frag in circ.fragments:
        try:
            a = anno.coordinate_gene_to_transcript(int(frag.location.start), gid, tx_id)
            b = anno.coordinate_gene_to_transcript(int(frag.location.end) - 1, gid, tx_id) + 1
        except Exception:   # noqa  intron fragment of a ciRNA
            continue
        out += list(range(min(a, b) + margin, max(a, b) - margin))
    return out


def nested_variants(anno, genome, tx_id: str, rec, rng: random.Random, n: int,
                    kinds=('SNV', 'SNV', 'INS', 'DEL')):
    """small records INSIDE the stretch an alternative-splicing Insertion / Substitution record
    inserts (its donor range in gene coordinates — intronic for the transcript), at least 3 nt
    from its ends and 3 nt apart: they can only show in a peptide together with `rec`."""
    _imports()
    from moPepGen.seqvar.VariantRecord import VariantRecord
    from moPepGen.SeqFeature import FeatureLocation
    if rec.type not in ('Insertion', 'Substitution'):
        return []
    tx_model = anno.transcripts[tx_id]
    gene_id = tx_model.transcript.gene_id
    gene_model = anno.genes[gene_id]
    chrom = gene_model.chrom
    gene_seq = str(gene_model.get_gene_sequence(genome[chrom]).seq)
    ds, de = int(rec.get_donor_start()), int(rec.get_donor_end())
    out, used = [], []
    for _ in range(n * 6):
        if len(out) >= n or de - ds < 12:
            break
        kind = rng.choice(list(kinds))
        size = rng.randint(1, 3)
        span = 1 if kind != 'DEL' else size + 1
        start = rng.randrange(ds + 3, de - 3 - span)
        end = start + span
        if any(not (end + 3 <= a or b + 3 <= start) for a, b in used):
            continue
        ref = gene_seq[start:end]
        if kind == 'SNV':
            alt, vtype = rng.choice([c for c in 'ACGT' if c != ref]), 'SNV'
        elif kind == 'INS':
            alt, vtype = ref + ''.join(rng.choice('ACGT') for _ in range(size)), 'INDEL'
        else:
            alt, vtype = ref[0], 'INDEL'
        g0 = anno.coordinate_gene_to_genomic(start, gene_id)
        out.append(VariantRecord(
            location=FeatureLocation(start=start, end=end, seqname=gene_id),
            ref=ref, alt=alt, _type=vtype, _id=f'{gene_id}-{start}-{ref}-{alt}',
            attrs={'TRANSCRIPT_ID': tx_id, 'GENOMIC_POSITION': f'{chrom}-{g0}:{g0 + 1}',
                   'GENE_SYMBOL': gene_model.gene_name}))
        used.append((start, end))
    return out


def tx_exons_gene(anno, tx_id: str) -> List[Tuple[int, int]]:
    """the exons of a transcript IN TRANSCRIPT ORDER as [start, end) in the (strand-aware) coordinates
    of its gene"""
    tx_model = anno.transcripts[tx_id]
    gene_id = tx_model.transcript.gene_id
    out = []
    for ex in tx_model.exon:
        a = anno.coordinate_genomic_to_gene(int(ex.location.start), gene_id)
        b = anno.coordinate_genomic_to_gene(int(ex.location.end) - 1, gene_id)
        out.append((min(a, b), max(a, b) + 1))
    return sorted(out)


def fusion_insertions(anno, fus):
    """(LEFT_INSERTION_START, LEFT_INSERTION_END, RIGHT_INSERTION_START, RIGHT_INSERTION_END,
    ACCEPTER_POSITION) the loader will attach to the Fusion record `fus` (None, None for an exonic
    breakpoint): the retained intronic stretches in donor / accepter GENE coordinates and the accepter
    position after it moved to the next exon start.  `fus` itself is left as it is."""
    import copy
    g = copy.deepcopy(fus)
    g.shift_breakpoint_to_closest_exon(anno)
    return tuple(g.attrs.get(k) for k in ('LEFT_INSERTION_START', 'LEFT_INSERTION_END',
                                          'RIGHT_INSERTION_START', 'RIGHT_INSERTION_END',
                                          'ACCEPTER_POSITION'))


def intronic_fusion(anno, genome, fus, rng: random.Random, donor_side: bool, acc_side: bool,
                    lo: int = 8, hi: int = 45):
    """a copy of the Fusion record `fus` (as moPepGen.fake.fake_fusion builds it) whose donor breakpoint
    is moved INTO an intron of the donor transcript, `lo`..`hi` nt behind the end of an exon that ends
    inside the CDS (`donor_side`), and / or whose accepter breakpoint is moved into an intron of the
    accepter, `lo`..`hi` nt in front of an exon (`acc_side`): the fusion transcript then retains a SHORT
    intronic stretch; for a coding donor a left stretch without a stop codon in the annotated frame is
    preferred, so the reading frame of the donor usually runs through it into the accepter.
    None when the transcripts have no such intron."""
    import copy
    _imports()
    from moPepGen.SeqFeature import FeatureLocation
    f = copy.deepcopy(fus)
    donor = f.attrs['TRANSCRIPT_ID']
    acc = f.attrs['ACCEPTER_TRANSCRIPT_ID']
    dm, am = anno.transcripts[donor], anno.transcripts[acc]
    dgid, agid = dm.transcript.gene_id, am.transcript.gene_id
    bp, apos = int(f.location.start), int(f.attrs['ACCEPTER_POSITION'])
    if donor_side:
        dseq = dm.get_transcript_sequence(genome[dm.transcript.chrom])
        ex = tx_exons_gene(anno, donor)
        lo_t = int(dseq.orf.start) + 3 if dseq.orf else 3
        hi_t = int(dseq.orf.end) if dseq.orf else len(dseq.seq)
        cands, t = [], 0
        for (a, b), (c, _d) in zip(ex, ex[1:]):
            t += b - a
            if lo_t < t <= hi_t and c - b > lo:
                cands.append((b, c, t))
        if not cands:
            return None
        gm = anno.genes[dgid]
        gseq = str(gm.get_gene_sequence(genome[gm.chrom]).seq)
        rng.shuffle(cands)
        b, c, t = cands[0]
        ks = list(range(lo, min(hi, c - b - 1) + 1))
        if dseq.orf:
            # prefer a stretch the annotated reading frame of the donor reads through (no stop codon)
            o = int(dseq.orf.start)
            for (b_, c_, t_) in cands:
                first = (t_ - o) // 3 * 3
                good = []
                for k in range(lo, min(hi, c_ - b_ - 1) + 1):
                    s_ = str(dseq.seq)[o:t_] + gseq[b_:b_ + k]
                    if not any(s_[i:i + 3] in ('TAA', 'TAG', 'TGA') for i in range(first, len(s_) - 2, 3)):
                        good.append(k)
                if good:
                    b, c, t, ks = b_, c_, t_, good
                    break
        bp = b + rng.choice(ks)
        f.location = FeatureLocation(seqname=dgid, start=bp, end=bp + 1)
        f.ref = gseq[bp]
        f.attrs['GENOMIC_POSITION'] = anno.coordinate_gene_to_genomic(bp, dgid)
    if acc_side:
        ex = tx_exons_gene(anno, acc)
        tot = sum(b - a for a, b in ex)
        cands, t = [], 0
        for (a, b), (c, d) in zip(ex, ex[1:]):
            t += b - a
            if c - b > lo and tot - t >= 24:
                cands.append((b, c))
        if not cands:
            return None
        b, c = rng.choice(cands)
        apos = c - rng.randint(lo, min(hi, c - b - 1))
        f.attrs['ACCEPTER_POSITION'] = apos
        f.attrs['ACCEPTER_GENOMIC_POSITION'] = anno.coordinate_gene_to_genomic(apos, agid)
    f.id = f'FUSION-{donor}:{bp}-{acc}:{apos}'
    return f


def stretch_variants(anno, genome, tx_id: str, lo: int, hi: int, rng: random.Random, n: int,
                     margin: int = 2, gap: int = 3, tail: Optional[int] = None,
                     kinds=('SNV', 'INS', 'DEL', 'INS', 'DEL'), sizes=(1, 1, 2, 3), used=None):
    """up to n small records (SNV / insertion / deletion of 1-3 nt, VCF-style anchoring) INSIDE the gene
    range [lo, hi) of the gene of `tx_id` — intronic for that transcript: the stretch a fusion with an
    intronic breakpoint retains — at least `margin` nt from both ends and `gap` nt apart, written the way
    parseVEP emits an intronic variant of the transcript (gene coordinates, TRANSCRIPT_ID = tx_id; the same
    record shape as `nested_variants`).  `tail`: the records start inside the last `tail` nt of the range
    (close to a donor breakpoint, so that a shifted reading frame still reaches the accepter); `used`:
    (start, end) ranges already taken by other records of the stretch."""
    _imports()
    from moPepGen.seqvar.VariantRecord import VariantRecord
    from moPepGen.SeqFeature import FeatureLocation
    tx_model = anno.transcripts[tx_id]
    gene_id = tx_model.transcript.gene_id
    gene_model = anno.genes[gene_id]
    chrom = gene_model.chrom
    gene_seq = str(gene_model.get_gene_sequence(genome[chrom]).seq)
    out, used = [], list(used or [])
    for _ in range(n * 8):
        if len(out) >= n:
            break
        kind = rng.choice(list(kinds))
        size = rng.choice(list(sizes))
        span = 1 if kind != 'DEL' else size + 1
        a, b = lo + margin, hi - margin - span
        if tail is not None:
            a = max(a, hi - tail)
        if b < a:
            continue
        start = rng.randint(a, b)
        end = start + span
        if any(not (end + gap <= x or y + gap <= start) for x, y in used):
            continue
        ref = gene_seq[start:end]
        if kind == 'SNV':
            alt, vtype = rng.choice([c for c in 'ACGT' if c != ref]), 'SNV'
        elif kind == 'INS':
            alt, vtype = ref + ''.join(rng.choice('ACGT') for _ in range(size)), 'INDEL'
        else:
            alt, vtype = ref[0], 'INDEL'
        g0 = anno.coordinate_gene_to_genomic(start, gene_id)
        out.append(VariantRecord(
            location=FeatureLocation(start=start, end=end, seqname=gene_id),
            ref=ref, alt=alt, _type=vtype, _id=f'{gene_id}-{start}-{ref}-{alt}',
            attrs={'TRANSCRIPT_ID': tx_id, 'GENOMIC_POSITION': f'{chrom}-{g0}:{g0 + 1}',
                   'GENE_SYMBOL': gene_model.gene_name}))
        used.append((start, end))
    return out


def dense_variants(anno, genome, tx_id: str, rng: random.Random, n: int, max_size: int = 4,
                   snv_frac: float = 0.55, window: int = 40, edge_frac: float = 0.25,
                   special: Optional[str] = None, focus_at: Optional[int] = None):
    """n small variants of one transcript, clustered: a focus (start codon, stop codon,
    a Sec codon, an exon junction, or a random point) is drawn and the variants fall in a
    window around it, so adjacent / overlapping / frame-restoring combinations and variants
    on special codons are frequent rather than rare.
    `special` in ('sec', 'start', 'stop', 'junction'): ALL variants cluster around one codon of
    that kind (when the transcript has one)."""
    tx_model = anno.transcripts[tx_id]
    tx_seq = tx_model.get_transcript_sequence(genome[tx_model.transcript.chrom])
    tx_len = len(tx_seq.seq)
    foci = [rng.randrange(tx_len)]
    kinds = {'sec': [], 'start': [], 'stop': [], 'junction': [], 'sec_prefix': []}
    if tx_seq.orf:
        foci += [int(tx_seq.orf.start) + 3, int(tx_seq.orf.end), int(tx_seq.orf.start) + rng.randrange(
            3, max(4, int(tx_seq.orf.end) - int(tx_seq.orf.start)))]
        kinds['start'].append(int(tx_seq.orf.start) + 3)
        kinds['stop'].append(int(tx_seq.orf.end))
    for s in tx_seq.selenocysteine:
        foci.append(int(s.start))
        kinds['sec'].append(int(s.start))
        # between the start codon and a Sec a few codons behind it
        if tx_seq.orf and 6 <= int(s.start) - int(tx_seq.orf.start) <= 60:
            kinds['sec_prefix'].append((int(tx_seq.orf.start) + 3 + int(s.start)) // 2)
    acc = 0
    for ex in (tx_model.exon if tx_model.transcript.strand == 1 else tx_model.exon[::-1])[:-1]:
        acc += len(ex.location)
        foci.append(acc)
        kinds['junction'].append(acc)
    if special and kinds.get(special):
        c0 = rng.choice(kinds[special])
        foci = [foci[0], c0]
    out, seen = [], set()
    nfoci = rng.choice([1, 1, 2])
    chosen = [rng.choice(foci) for _ in range(nfoci)]
    if special and len(foci) == 2:
        chosen = [foci[1]]
        edge_frac = max(edge_frac, 0.5)
    if focus_at is not None:
        chosen = [focus_at]
    # positions whose records END or START exactly on the edge of a special codon / junction
    # (last base before a Sec or stop codon, first base behind it, …): conditions of the form
    # `end <= start_of_codon` vs `<` only show on these
    specials = list(foci[1:])
    if special == 'stop' and kinds['stop'] and rng.random() < 0.6:
        # an in-frame deletion that starts in front of the annotated stop codon and removes it
        c = kinds['stop'][0]
        pos, size = rng.choice([(c - 1, 3), (c - 4, 6), (c - 2, 3), (c - 3, 3), (c - 1, 6)])
        try:
            rec = small_variant(anno, genome, tx_id, pos, 'DEL', size, rng)
        except Exception:   # noqa
            rec = None
        if rec is not None:
            seen.add(rec.id)
            out.append(rec)
    tries = 0
    while len(out) < n and tries < n * 20:
        tries += 1
        r = rng.random()
        kind = 'SNV' if r < snv_frac else ('INS' if r < snv_frac + (1 - snv_frac) / 2 else 'DEL')
        size = rng.randint(1, max_size)
        if specials and rng.random() < edge_frac:
            c = rng.choice(specials) + rng.choice([0, 0, 3])
            if kind == 'DEL':
                pos = rng.choice([c - size - 1, c - 1, c])       # ends at c / anchored just before c / at c
            else:
                pos = rng.choice([c - 1, c - 1, c, c + 2])
        else:
            f = rng.choice(chosen)
            pos = f + rng.randint(-window // 2, window // 2) if rng.random() < 0.85 \
                else rng.randrange(tx_len)
        try:
            rec = small_variant(anno, genome, tx_id, pos, kind, size, rng)
        except Exception:   # noqa  intronic / out of range
            rec = None
        if rec is None or rec.id in seen:
            continue
        seen.add(rec.id)
        out.append(rec)
    return out


def set_tx_bases(anno, genome, tx_id: str, tx_pos: int, bases: str) -> bool:
    """overwrite transcript positions [tx_pos, tx_pos+len) in the GENOME (strand-aware); False
    if the stretch is not inside one exon"""
    from Bio.Seq import Seq
    tx_model = anno.transcripts[tx_id]
    chrom = tx_model.transcript.chrom
    strand = tx_model.transcript.strand
    gs = [anno.coordinate_transcript_to_genomic(tx_pos + j, tx_id) for j in range(len(bases))]
    if max(gs) - min(gs) != len(bases) - 1:
        return False
    comp = {'A': 'T', 'C': 'G', 'G': 'C', 'T': 'A'}
    nts = list(str(genome[chrom].seq))
    for g, b in zip(gs, bases):
        nts[g] = b if strand == 1 else comp[b]
    genome[chrom].seq = Seq(''.join(nts))
    return True


# (codons planted, offset of the SNV inside them, alt base): one base change creates or destroys
# a cleavage site through the LOOK-AROUND of the trypsin rule or of its exception
CONTEXT_MENU = [
    ('TGTAAACCT', 2, 'G'),    # C K P -> W K P : site gained through the look-behind W
    ('ATTCGTCCT', 2, 'G'),    # I R P -> M R P : site gained through the look-behind M
    ('TGGAAACCT', 2, 'T'),    # W K P -> C K P : site lost
    ('ATGCGTCCT', 2, 'T'),    # M R P -> I R P : site lost
    ('AAAACTGGT', 3, 'C'),    # K T G -> K P G : site lost through the look-ahead P
    ('AAACCTGGT', 3, 'A'),    # K P G -> K T G : site gained
    ('TATAAAGAT', 1, 'G'),    # Y K D -> C K D : exception [CD]K|D starts to apply
    ('TGTAAAGAT', 1, 'A'),    # C K D -> Y K D : exception stops applying
    ('CGTCGTAAT', 6, 'C'),    # R R N -> R R H : exception RR|[HR] starts to apply
    ('CGTCGTCAT', 6, 'A'),    # R R H -> R R N : exception RR|[HR] stops applying
]


def plant_context(anno, genome, rng: random.Random, tx_id: str):
    """plant one CONTEXT_MENU motif into the CDS of a coding transcript (genome edited before the
    reference files are written) and return (tx position, alt base) of the SNV that flips it"""
    tx_model = anno.transcripts[tx_id]
    if not tx_model.is_protein_coding or not tx_model.cds:
        return None
    chrom = tx_model.transcript.chrom
    tx_seq = tx_model.get_transcript_sequence(genome[chrom])
    if not tx_seq.orf:
        return None
    o0, o1 = int(tx_seq.orf.start), int(tx_seq.orf.end)
    ncod = (o1 - o0) // 3
    if ncod < 20:
        return None
    secs = {int(s.start) for s in tx_seq.selenocysteine}
    for _ in range(20):
        k = rng.randint(4, ncod - 8)
        p = o0 + 3 * k
        if any(p - 3 <= s0 <= p + 9 for s0 in secs):
            continue
        motif, off, alt = rng.choice(CONTEXT_MENU)
        try:
            ok = set_tx_bases(anno, genome, tx_id, p, motif)
        except Exception:   # noqa
            ok = False
        if ok:
            return (p + off, alt, motif)
    return None


NEUTRAL_CODONS = ['GCT', 'GGT', 'TCT', 'CCT', 'CTG', 'ACT', 'GTT', 'GAT', 'GAA', 'AAC', 'CAG', 'TTC',
                  'TAC', 'ATC']


def silent_pair(anno, genome, tx_id: str, rng: random.Random):
    """for a transcript WITHOUT a known ORF: two SNVs on the 1st and 3rd base of one CTA / CTG / CGA /
    CGG codon inside an open reading frame — each synonymous alone (Leu / Arg), non-synonymous
    together (Phe / Ser) — plus a third SNV a few bases further on.  [] if no such codon."""
    tx_model = anno.transcripts[tx_id]
    if tx_model.is_protein_coding:
        return []
    seq = str(tx_model.get_transcript_sequence(genome[tx_model.transcript.chrom]).seq)
    cands = []
    for m in re.finditer('ATG', seq):
        a = m.start()
        for p in range(a + 6, len(seq) - 18, 3):
            cod = seq[p:p + 3]
            if cod in ('TAA', 'TAG', 'TGA'):
                break
            if cod in ('CTA', 'CTG', 'CGA', 'CGG') and p - a <= 90:
                cands.append(p)
    if not cands:
        return []
    p = rng.choice(cands)
    first = 'T' if seq[p + 1] == 'T' else 'A'
    out = []
    for q, alt in ((p, first), (p + 2, 'C'), (p + rng.randint(4, 12), None)):
        if alt is None:
            alt = rng.choice([c for c in 'ACGT' if c != seq[q]])
        try:
            rec = make_snv(anno, genome, tx_id, q, alt)
        except Exception:   # noqa
            return []
        if rec is None:
            return []
        out.append(rec)
    return out


def plant_trp(anno, genome, rng: random.Random, tx_id: str) -> Optional[int]:
    """two or three tryptophan codons within a few codons of each other inside the CDS (W>F
    reassignment then has several sites in one cleavage product); returns the transcript position
    of the first one"""
    tx_model = anno.transcripts[tx_id]
    if not tx_model.is_protein_coding:
        return None
    tx_seq = tx_model.get_transcript_sequence(genome[tx_model.transcript.chrom])
    if not tx_seq.orf:
        return None
    o0, o1 = int(tx_seq.orf.start), int(tx_seq.orf.end)
    ncod = (o1 - o0) // 3
    if ncod < 14:
        return None
    secs = {int(x.start) for x in tx_seq.selenocysteine}
    for _ in range(20):
        k = rng.randint(2, ncod - 10)
        offs = sorted(rng.sample(range(1, 8), rng.choice([1, 2])))
        pos = [o0 + 3 * k] + [o0 + 3 * (k + d) for d in offs]
        if any(p in secs for p in pos):
            continue
        if all(set_tx_bases(anno, genome, tx_id, p, 'TGG') for p in pos):
            return pos[0]
    return None


def plant_start_context(anno, genome, rng: random.Random, tx_id: str) -> bool:
    """codons without K / R / stop / M in the in-frame 5'UTR stretch in front of the start codon
    (10-22 codons, as far as the UTR reaches) and between the start codon and the first annotated
    Sec; codons split by an intron or holding an annotated Sec are left alone"""
    tx_model = anno.transcripts[tx_id]
    tx_seq = tx_model.get_transcript_sequence(genome[tx_model.transcript.chrom])
    if not tx_seq.orf:
        return False
    o0 = int(tx_seq.orf.start)
    secs = sorted(int(x.start) for x in tx_seq.selenocysteine)
    n_up = min(o0 // 3, rng.randint(10, 22))
    if n_up < 6:
        return False
    done = 0
    for i in range(1, n_up + 1):
        if set_tx_bases(anno, genome, tx_id, o0 - 3 * i, rng.choice(NEUTRAL_CODONS)):
            done += 1
        else:
            break
    first_sec = next((x for x in secs if x > o0), None)
    if first_sec is not None and (first_sec - o0) % 3 == 0:
        for p in range(o0 + 3, first_sec, 3):
            set_tx_bases(anno, genome, tx_id, p, rng.choice(NEUTRAL_CODONS))
    return done >= 6


def plant_sec(anno, genome, rng: random.Random, tx_id: str, near_start: bool = True,
              lys_prob: float = 0.7) -> bool:
    """turn one codon of a coding transcript into an annotated selenocysteine (genome base
    changed to TGA, `selenocysteine` feature added to the model) — close behind the start
    codon when `near_start`, so that Sec termination interacts with the start node, the
    Met-removed twin and upstream variants.  Applied before the reference files are written."""
    _imports()
    from Bio.Seq import Seq
    from moPepGen.gtf.GTFSeqFeature import GTFSeqFeature
    from moPepGen.SeqFeature import FeatureLocation
    tx_model = anno.transcripts[tx_id]
    if not tx_model.is_protein_coding or not tx_model.cds:
        return False
    chrom = tx_model.transcript.chrom
    strand = tx_model.transcript.strand
    tx_seq = tx_model.get_transcript_sequence(genome[chrom])
    if not tx_seq.orf:
        return False
    o0, o1 = int(tx_seq.orf.start), int(tx_seq.orf.end)
    ncod = (o1 - o0) // 3
    if ncod < 12:
        return False
    have = {int(s.start) for s in tx_seq.selenocysteine}
    for _ in range(20):
        k = rng.randint(6, min(14, ncod - 3)) if near_start else rng.randint(3, ncod - 3)
        p = o0 + 3 * k
        if any(abs(p - h) < 3 for h in have):
            continue
        try:
            gs = [anno.coordinate_transcript_to_genomic(p + j, tx_id) for j in range(3)]
        except Exception:   # noqa
            continue
        lo, hi = min(gs), max(gs)
        if hi - lo != 2:
            continue            # codon split by an intron
        nts = list(str(genome[chrom].seq))
        nts[lo:hi + 1] = list('TGA' if strand == 1 else 'TCA')
        if near_start and k >= 5 and rng.random() < lys_prob:
            # a lysine between the start codon and the Sec: the Sec is then not in the first
            # cleavage fragment but within the miscleavage window of the start
            p2 = o0 + 3 * (k - rng.randint(2, min(4, k - 2)))
            try:
                g2 = [anno.coordinate_transcript_to_genomic(p2 + j, tx_id) for j in range(3)]
                l2, h2 = min(g2), max(g2)
                # never on a codon that is itself an annotated Sec (the annotation would then sit
                # on a lysine codon: an inconsistent reference, not a property of the tool)
                on_sec = any(abs(p2 - h) < 3 for h in have)
                if h2 - l2 == 2 and not (l2 <= hi and lo <= h2) and not on_sec:
                    nts[l2:h2 + 1] = list('AAG' if strand == 1 else 'CTT')
            except Exception:   # noqa
                pass
        genome[chrom].seq = Seq(''.join(nts))
        feat = GTFSeqFeature(location=FeatureLocation(lo, hi + 1, strand=strand), type='selenocysteine',
                             id=tx_id, attributes=dict(tx_model.transcript.attributes), chrom=chrom)
        tx_model.selenocysteine.append(feat)
        # sometimes a SECOND Sec a few codons further on (two Sec in one cleavage product)
        if near_start and rng.random() < 0.35:
            k2 = k + rng.randint(2, 5)
            p3 = o0 + 3 * k2
            if k2 < ncod - 2 and not any(abs(p3 - h) < 3 for h in have):
                try:
                    g3 = [anno.coordinate_transcript_to_genomic(p3 + j, tx_id) for j in range(3)]
                    l3, h3 = min(g3), max(g3)
                    if h3 - l3 == 2:
                        nts = list(str(genome[chrom].seq))
                        nts[l3:h3 + 1] = list('TGA' if strand == 1 else 'TCA')
                        genome[chrom].seq = Seq(''.join(nts))
                        tx_model.selenocysteine.append(GTFSeqFeature(
                            location=FeatureLocation(l3, h3 + 1, strand=strand), type='selenocysteine',
                            id=tx_id, attributes=dict(tx_model.transcript.attributes), chrom=chrom))
                except Exception:   # noqa
                    pass
        tx_model.selenocysteine.sort(key=lambda f: int(f.location.start))
        return True
    return False


def custom_reference(case: Case, cds_seq: str, utr5: str = 'GCGC', utr3: str = 'GCGCGCGCGC',
                     tx_id: str = 'ENST0001', gene_id: str = 'ENSG0001'):
    """single-exon plus-strand coding transcript `utr5 + cds_seq + utr3` (cds_seq includes the
    stop codon); returns the transcript id. Files written by hand (not by the repo writers)."""
    from Bio.Seq import Seq
    seq = utr5 + cds_seq + utr3
    pad = 'ACGT' * 5
    chrom = pad + seq + pad
    s = len(pad)
    attrs = (f'gene_id "{gene_id}"; transcript_id "{tx_id}"; gene_type "protein_coding"; '
             f'gene_name "G1"; transcript_type "protein_coding"; protein_id "ENSP0001";')
    gattrs = f'gene_id "{gene_id}"; gene_type "protein_coding"; gene_name "G1";'
    lines = [
        f'chr1\tHAVANA\tgene\t{s + 1}\t{s + len(seq)}\t.\t+\t.\t{gattrs}',
        f'chr1\tHAVANA\ttranscript\t{s + 1}\t{s + len(seq)}\t.\t+\t.\t{attrs}',
        f'chr1\tHAVANA\texon\t{s + 1}\t{s + len(seq)}\t.\t+\t.\t{attrs}',
        f'chr1\tHAVANA\tCDS\t{s + len(utr5) + 1}\t{s + len(utr5) + len(cds_seq) - 3}\t.\t+\t0\t{attrs}',
        f'chr1\tHAVANA\tUTR\t{s + 1}\t{s + len(utr5)}\t.\t+\t.\t{attrs}',
        f'chr1\tHAVANA\tUTR\t{s + len(utr5) + len(cds_seq) - 2}\t{s + len(seq)}\t.\t+\t.\t{attrs}',
    ]
    with open(case.gtf, 'wt') as fh:
        fh.write('\n'.join(lines) + '\n')
    with open(case.genome, 'wt') as fh:
        fh.write(f'>chr1\n{chrom}\n')
    prot = str(Seq(cds_seq[:-3]).translate())
    with open(case.proteome, 'wt') as fh:
        fh.write(f'>ENSP0001|{tx_id}|{gene_id}|OTTHUMG1|OTTHUMT1|G1-201|G1|{len(prot)}\n{prot}\n')
    case.tx_ids = [tx_id]
    return tx_id, len(utr5)
