"""C18 — database bookkeeping conserves peptides (split, merge, encode, summarize).

Correspondence streams (REAL CLI entry points in temp dirs vs native Lean driver):
  gt         VariantSourceSet.__gt__ on random source sets / orders          (internal)
  gtl        __gt__ under explicit level maps (also NON-injective ones), the two sets given
             as lists with repeated / shuffled elements vs `srcGt`              (internal)
  toint      VariantSourceSet.to_int() under the same level maps vs `toInt`    (internal)
  decode     the Lean `decode` applied to the real encoded FASTA + real .dict (uuids renamed
             by first use) must give back the input titles                    (observable)
  split      cli.split_fasta: {database key: records} vs `split`             (observable)
  summarize  cli.summarize_fasta: written table vs `summarize` + row writer  (observable)
  merge      cli.merge_fasta (with / without --dedup-header) vs `mergePools` (observable)
  encode     cli.encode_fasta (+ .dict) vs `encode` (uuids renamed by first use) (observable)
Property predicates evaluated directly on the real outputs:
  partition      every input sequence in exactly one split database, nothing new, sequences
                 unchanged, header entries preserved (multiset)
  union          mergeFasta = union of sequences / concatenation of headers
  decode         decode(.dict, encoded header) == original header, decoy marks preserved
  total          summarizeFasta rows add up to the number of peptides
  eq_split       summarizeFasta row totals == splitFasta database sizes (same options)
  perm           splitFasta on the same input with the entries of every header permuted files
                 every peptide under the same database with the same entries
                 (split_key_order_independent)
  order_props    on the real objects: a > b / b > a / a == b exactly one (levels injective),
                 to_int equal iff sets equal
"""
from __future__ import annotations
import argparse
import itertools
import os
import shutil
import sys
import tempfile
from pathlib import Path

from . import common
from . import c19
from .c19 import (Universe, GenEntry, gen_entry, gen_malformed_entry, gen_seq, etext, read_fasta,
                  write_fasta, quiet, crash_name)

PARSER_SOURCES = [
    ('gSNP', 'parseVEP'), ('gINDEL', 'parseVEP'), ('sSNV', 'parseVEP'),
    ('RNAEditingSite', 'parseREDItools'), ('altSplice', 'parseRMATS'),
    ('Fusion', 'parseSTARFusion'), ('circRNA', 'parseCIRCexplorer'),
]
INTERNAL = ['NovelORF', 'SECT', 'CodonReassign']


class Crash(Exception):
    pass


def entry_labels(e: GenEntry, uni: Universe):
    """(gene, label, natural source kinds) the entry needs in the label map"""
    out = []
    if e.kind == 'base':
        g = uni.gene[e.txs[0]]
        out += [(g, v) for v in e.variants]
    elif e.kind == 'circ':
        g = uni.gene[e.txs[0]]
        out.append((g, e.text.split('|')[0]))
        out += [(g, v) for v in e.variants]
    elif e.kind == 'fusion':
        fid = e.text.split('|')[0]
        g1, g2 = uni.gene[e.txs[0]], uni.gene[e.txs[1]]
        out.append((g1, fid))
        for f in e.text.split('|')[1:]:
            if f.startswith('1-'):
                out.append((g1, f[2:]))
            elif f.startswith('2-'):
                out.append((g2, f[2:]))
    return out


def natural_sources(label):
    t = label.split('-')[0]
    if t in ('SNV',):
        return ['gSNP', 'sSNV']
    if t in ('INDEL', 'MNV'):
        return ['gINDEL', 'sSNV']
    if t == 'RES':
        return ['RNAEditingSite']
    if t in c19.SPLICE:
        return ['altSplice']
    if t == 'FUSION':
        return ['Fusion']
    if t in ('CIRC', 'CI'):
        return ['circRNA']
    return ['gSNP']


def reindex(text, idx):
    """the entry with its trailing peptide index replaced (appended when there is none)"""
    head, _, last = text.rpartition('|')
    if head and last.isdigit():
        return f'{head}|{idx}'
    return f'{text}|{idx}'


def near_labels(rng, stored, textual=False):
    """A header for a sequence that is already in an earlier input, built from the entries
    stored for it: near-identical labels (same backbone + variants, another index — in
    particular an index that is a textual prefix / extension of the stored one), verbatim
    repeats and contiguous sub-runs of the stored header.  `textual`: also arbitrary textual
    pieces of the stored header (only for tools that never parse the labels)."""
    stored = [e for e in stored if e]
    if not stored:
        return None
    k = rng.randint(0, 5 if textual else 4)
    e = rng.choice(stored)
    head, _, last = e.rpartition('|')
    if k == 0:
        return [e]                                              # verbatim repeat
    if k == 1 and head and last.isdigit() and len(last) >= 2:
        return [f'{head}|{last[:rng.randint(1, len(last) - 1)]}']   # 11 -> 1, 25 -> 2
    if k == 2 and head and last.isdigit():
        return [f'{head}|{last}{rng.randint(0, 9)}']            # 1 -> 13
    if k == 3:
        i = rng.randrange(len(stored))
        j = rng.randint(i + 1, len(stored))
        return stored[i:j]                                      # contiguous sub-run
    if k == 4:
        return [reindex(e, rng.randint(1, 99))] + ([rng.choice(stored)] if rng.random() < 0.3 else [])
    if k == 5:
        t = ' '.join(stored)
        cuts = [i + 1 for i, c in enumerate(t) if c in '| '] + [0]
        a = rng.choice(cuts)
        ends = [i for i, c in enumerate(t) if c in '| ' and i > a] + [len(t)]
        piece = t[a:rng.choice(ends)].strip()
        return piece.split(' ') if piece else [e]
    return [reindex(e, rng.randint(10, 99))]


class Case:
    pass


def gen_case(rng, malformed=False, clean=False):
    """clean: no wildcards, no (gene,label) shared between GVFs — the hypotheses of
    summary_eq_split"""
    c = Case()
    # --order-source with a wildcard makes create_wildcard_map enumerate all subsets of
    # self.sources, which contains every *character* of the plain order keys: keep the
    # alphabet small there (short source names, internal sources not listed as plain keys)
    wild = (not clean) and rng.random() < 0.35
    short = {'gSNP': 'ab', 'gINDEL': 'ac', 'sSNV': 'ad', 'RNAEditingSite': 'bc',
             'altSplice': 'bd', 'Fusion': 'cd', 'circRNA': 'ba'}
    nm = (lambda x: short[x]) if wild else (lambda x: x)
    psrc = [(nm(a), b) for a, b in PARSER_SOURCES]
    c.uni = uni = Universe(rng, ntx=rng.randint(2, 5))
    odd = 0.0 if clean else 0.1
    # three input FASTAs like the CLI (variant / novel ORF / alt translation)
    files = [[], [], []]
    seen = set()
    for _ in range(rng.randint(1, 8)):
        s = gen_seq(rng)
        if s in seen:
            continue
        seen.add(s)
        ents = [gen_entry(rng, uni, odd) for _ in range(rng.choice([1, 1, 2, 3]))]
        files[rng.choice([0, 0, 0, 1, 2])].append((s, ents))
    if not clean and rng.random() < 0.45 and seen:
        # the same sequence in two (three) input files: load_database merges the headers.
        # Half of the time the later label is near-identical to the stored one (same
        # backbone + variants, index a textual prefix / extension, verbatim repeat, sub-run).
        for _ in range(rng.choice([1, 1, 2])):
            s = rng.choice(sorted(seen))
            src = next(((fi, k) for fi, f in enumerate(files) for k, (s2, _) in enumerate(f)
                        if s2 == s), None)
            if src is None:
                continue
            fi, k = src
            if fi == 2:
                continue
            ents0 = files[fi][k][1]
            if rng.random() < 0.5:
                # two-digit indices on the stored side make "11 then 1" possible
                ents0 = [GenEntry(reindex(e.text, rng.randint(10, 99)), e.kind, e.txs, e.variants,
                                  e.alts, e.canonical_form, e.orf, e.gene)
                         if isinstance(e, GenEntry) and e.text.rpartition('|')[2].isdigit()
                         and e.canonical_form else e for e in ents0]
                files[fi][k] = (s, ents0)
            later = rng.choice([x for x in (1, 2) if x > fi])
            if any(s2 == s for s2, _ in files[later]):
                continue
            if rng.random() < 0.6:
                near = near_labels(rng, [etext(e) for e in ents0])
                by_text = {etext(e): e for e in ents0}
                ents = []
                for t in near or []:
                    b = by_text.get(t)
                    if b is None:
                        b0 = next((e for e in ents0 if isinstance(e, GenEntry)
                                   and e.text.rpartition('|')[0] == t.rpartition('|')[0]), None)
                        b = GenEntry(t, b0.kind, b0.txs, b0.variants, b0.alts, b0.canonical_form,
                                     b0.orf, b0.gene) if b0 is not None else t
                    ents.append(b)
                if ents:
                    files[later].append((s, ents))
                    continue
            files[later].append((s, [gen_entry(rng, uni, odd)]))
    if malformed and rng.random() < 0.5:
        f = rng.choice([f for f in files if f] or [files[0]])
        if f:
            i = rng.randrange(len(f))
            s, ents = f[i]
            f[i] = (s, list(ents) + [gen_malformed_entry(rng, uni)])
            malformed = False
    c.files = files
    # label -> source assignment
    assign = {}
    for f in files:
        for s, ents in f:
            for e in ents:
                if isinstance(e, str):
                    continue
                for g, lab in entry_labels(e, uni):
                    if (g, lab) not in assign:
                        assign[(g, lab)] = [nm(rng.choice(natural_sources(lab)))]
    c.shared = []
    if not clean:
        for k in list(assign):
            if rng.random() < 0.08:
                other = [s for s, _ in psrc if s not in assign[k]
                         and s in (nm('gSNP'), nm('gINDEL'), nm('sSNV'))]
                if other:
                    assign[k].append(rng.choice(other))
                    c.shared.append(k)
    if malformed and assign and rng.random() < 0.6:
        assign.pop(rng.choice(sorted(assign)))           # VariantSourceNotFoundError
        malformed = False
    used = sorted({s for v in assign.values() for s in v},
                  key=lambda s: [x for x, _ in psrc].index(s))
    extra = [s for s, _ in psrc if s not in used and rng.random() < 0.2]
    gorder = used + extra
    rng.shuffle(gorder)
    c.gvfs = []
    for src in gorder:
        parser = dict(psrc)[src]
        labels = sorted(k for k, v in assign.items() if src in v)
        rng.shuffle(labels)
        c.gvfs.append((src, parser, labels))
    # options
    all_sources = gorder + INTERNAL
    c.group = None
    names = list(all_sources)
    if rng.random() < 0.35 and not wild:
        k = rng.randint(1, 2)
        pool = list(all_sources)
        rng.shuffle(pool)
        c.group = []
        for gi in range(k):
            members = [pool.pop() for _ in range(min(len(pool), rng.randint(1, 3)))]
            if members:
                c.group.append((f'Grp{gi}', members))
        gm = {m: g for g, ms in c.group for m in ms}
        names = []
        for s in all_sources:
            n = gm.get(s, s)
            if n not in names:
                names.append(n)
    c.order = None
    x = rng.random()
    if x < 0.55:
        items = [n for n in names if not (wild and (n in INTERNAL or n.startswith('Grp')))]
        rng.shuffle(items)
        items = items[:rng.randint(1, max(1, len(items)))]
        if rng.random() < 0.4 and len(names) >= 2:
            a, b = rng.sample(names, 2)
            combo = f'{a}-{b}'
            items.insert(rng.randint(0, len(items)), combo)
        if wild:
            a = rng.choice(names)
            items.insert(rng.randint(0, len(items)), f'{a}-{rng.choice("*+")}')
        if malformed and rng.random() < 0.5:
            items.append(items[0])                          # duplicate -> ValueError
        c.order = ','.join(items)
    c.max_groups = rng.choice([1, 1, 2, 3, 4])
    c.additional = None
    if rng.random() < 0.3 and len(names) >= 2:
        c.additional = []
        for _ in range(rng.randint(1, 2)):
            a, b = rng.sample(names, 2)
            c.additional.append(rng.choice([f'{a}-{b}', a]))
    c.enzyme = rng.choice(['trypsin', 'trypsin', 'lysc', 'arg-c'])
    c.ignore_missing = rng.random() < 0.3
    c.clean = clean
    return c


def describe(c):
    return {'fastas': [[[s, [etext(e) for e in ents]] for s, ents in f] for f in c.files],
            'tx2gene': c.uni.gene, 'gvfs': [[s, p, [list(x) for x in l]] for s, p, l in c.gvfs],
            'order_source': c.order, 'group_source': c.group, 'max_source_groups': c.max_groups,
            'additional_split': c.additional, 'enzyme': c.enzyme,
            'ignore_missing_source': c.ignore_missing, 'shared_labels': [list(k) for k in c.shared]}


# ------------------------------------------------------------------ real runs
def write_inputs(c, d):
    w = Path(d)
    c19.write_gtf(w / 'anno.gtf', c.uni)
    with open(w / 'prot.fasta', 'w') as fh:
        for t in c.uni.coding:
            fh.write(f'>ENSP{t[4:]}|{t}|{c.uni.gene[t]}|-\nMKAAAR\n')
    paths = []
    for i, f in enumerate(c.files):
        if f:
            p = w / f'in{i}.fasta'
            write_fasta(p, f)
            paths.append(p)
        else:
            paths.append(None)
    gvfs = []
    for i, (src, parser, labels) in enumerate(c.gvfs):
        p = w / f'g{i}.gvf'
        with open(p, 'w') as fh:
            fh.write('##fileformat=VCFv4.2\n##mopepgen_version=1.4.3\n')
            fh.write(f'##parser={parser}\n##reference_index=\n##genome_fasta=\n##annotation_gtf=\n')
            fh.write(f'##source={src}\n##CHROM=<Description="Gene ID">\n')
            fh.write('#CHROM\tPOS\tID\tREF\tALT\tQUAL\tFILTER\tINFO\n')
            for g, lab in labels:
                tx = next((t for t in c.uni.tx if c.uni.gene[t] == g), 'TX')
                if parser == 'parseCIRCexplorer':
                    fh.write(f'{g}\t0\t{lab}\t.\t.\t.\t.\tOFFSET=0,10;LENGTH=5,5;INTRON=;'
                             f'TRANSCRIPT_ID={tx};GENE_SYMBOL=S;GENOMIC_POSITION=chr1:0:20\n')
                else:
                    fh.write(f'{g}\t10\t{lab}\tA\tT\t.\t.\tTRANSCRIPT_ID={tx};GENE_SYMBOL=S;'
                             f'GENOMIC_POSITION=chr1:10\n')
        gvfs.append(p)
    return paths, gvfs


def base_args(c, d, paths, gvfs):
    a = argparse.Namespace()
    a.quiet = True
    a.index_dir = None
    a.reference_source = None
    a.annotation_gtf = Path(d) / 'anno.gtf'
    a.proteome_fasta = Path(d) / 'prot.fasta'
    a.gvf = gvfs
    a.variant_peptides, a.novel_orf_peptides, a.alt_translation_peptides = paths
    a.order_source = c.order
    a.group_source = None if c.group is None else [f'{g}:{",".join(ms)}' for g, ms in c.group]
    return a


CRASHES = (ValueError, IndexError, KeyError, TypeError)


def real_split(c, d, paths, gvfs):
    from moPepGen import cli
    from moPepGen.err import VariantSourceNotFoundError
    from moPepGen.aa.VariantPeptideLabel import VariantSourceSet
    a = base_args(c, d, paths, gvfs)
    a.command = 'splitFasta'
    a.max_source_groups = c.max_groups
    a.additional_split = c.additional
    out = Path(d) / 'split'
    out.mkdir()
    a.output_prefix = out / 'db'
    VariantSourceSet.reset_levels()
    try:
        with quiet():
            cli.split_fasta(a)
    except VariantSourceNotFoundError:
        return 'crash:VariantSourceNotFoundError', None
    except CRASHES as e:
        return crash_name(e), None
    dbs = {}
    for f in sorted(out.glob('db_*.fasta')):
        key = f.name[len('db_'):-len('.fasta')]
        dbs[key] = read_fasta(f)
    return canon_dbs(dbs), dbs


def canon_dbs(dbs):
    parts = []
    for k in dbs:
        recs = sorted(f'{s}:{" ".join(sorted(t.split(" ")))}' for t, s in dbs[k])
        parts.append(f'{k}=>' + ';'.join(recs))
    return '##'.join(sorted(parts))


def real_summarize(c, d, paths, gvfs):
    from moPepGen import cli
    from moPepGen.err import VariantSourceNotFoundError
    from moPepGen.aa.VariantPeptideLabel import VariantSourceSet
    a = base_args(c, d, paths, gvfs)
    a.command = 'summarizeFasta'
    a.cleavage_rule = c.enzyme
    a.output_path = Path(d) / 'summary.txt'
    a.output_image = None
    a.ignore_missing_source = c.ignore_missing
    VariantSourceSet.reset_levels()
    try:
        with quiet():
            cli.summarize_fasta(a)
    except VariantSourceNotFoundError:
        return 'crash:VariantSourceNotFoundError', None
    except CRASHES as e:
        return crash_name(e), None
    rows = []
    with open(a.output_path) as fh:
        header = fh.readline().rstrip('\n').split('\t')
        for line in fh:
            f = line.rstrip('\n').split('\t')
            rows.append((f[0], int(f[1]), [int(x) for x in f[2:]]))
    return ';'.join(f'{n}:{t}:{",".join(str(x) for x in m)}' for n, t, m in rows), rows


def files_fields(files):
    parts = []
    for i, f in enumerate(files):
        if i:
            parts.append('//')
        for s, ents in f:
            parts += [s, ' '.join(etext(e) for e in ents).rstrip()]
    return parts


def common_fields(c):
    t2g = ','.join(f'{t}={g}' for t, g in c.uni.gene.items())
    gv = ';'.join(f'{s}@{p}@' + ','.join(f'{g}~{l}' for g, l in labs) for s, p, labs in c.gvfs)
    grp = '-' if c.group is None else ' '.join(f'{g}:{",".join(ms)}' for g, ms in c.group)
    return (c.order or '-'), grp, t2g, gv


def line_split(c):
    order, grp, t2g, gv = common_fields(c)
    addl = '-' if not c.additional else ' '.join(c.additional)
    files = [f for f in c.files if f]
    return '\t'.join(['C18', 'split', order, grp, str(c.max_groups), addl, t2g, gv]
                     + files_fields(files))


def line_summarize(c):
    order, grp, t2g, gv = common_fields(c)
    files = [f for f in c.files if f]
    return '\t'.join(['C18', 'summarize', order, grp, c.enzyme, '1' if c.ignore_missing else '0',
                      t2g, gv] + files_fields(files))


# ----------------------------------------------------------------- predicates
def merged_input(c):
    """sequence -> list of entry texts, files merged in CLI order"""
    out = {}
    for f in c.files:
        seen = set()
        for s, ents in f:
            if s in seen:
                continue
            seen.add(s)
            out.setdefault(s, [])
            out[s] += ' '.join(etext(e) for e in ents).rstrip().split(' ')   # title is rstrip-ed
    return out


def check_split(ctx, c, dbs, stats):
    inp = merged_input(c)
    rp = lambda extra: dict(describe(c), databases={k: v for k, v in dbs.items()}, **extra)
    where = {}
    for k, recs in dbs.items():
        for t, s in recs:
            where.setdefault(s, []).append(k)
    stats['partition'] += 1
    for s in inp:
        if len(where.get(s, [])) != 1:
            ctx.add_violation('splitFasta: an input peptide is not in exactly one database',
                              rp({'predicate': 'partition', 'seq': s, 'found_in': where.get(s, [])}))
            return
    for s in where:
        if s not in inp:
            ctx.add_violation('splitFasta: a database contains a sequence that was not in the input',
                              rp({'predicate': 'partition-new', 'seq': s}))
            return
    # header entries preserved (canonical-form entries are reproduced verbatim)
    all_canon = all(isinstance(e, GenEntry) and e.canonical_form
                    for f in c.files for _, ents in f for e in ents)
    for k, recs in dbs.items():
        for t, s in recs:
            got = sorted(t.split(' '))
            want = sorted(inp[s])
            if len(got) != len(want) or (all_canon and got != want):
                ctx.add_violation('splitFasta: header entries are not preserved',
                                  rp({'predicate': 'entries', 'seq': s, 'got': got, 'want': want}))
                return


def check_summary(ctx, c, rows, dbs, stats):
    inp = merged_input(c)
    rp = lambda extra: dict(describe(c), summary=rows, **extra)
    total = sum(t for _, t, _ in rows)
    stats['total'] += 1
    if total != len(inp):
        excl = True
        ctx.add_violation('summarizeFasta: per-source totals do not add up to the number of peptides',
                          rp({'predicate': 'total', 'sum': total, 'peptides': len(inp)}),
                          finding_key='summary-rows-skip-exclusive')
    for n, t, m in rows:
        if sum(m) != t:
            ctx.add_violation('summarizeFasta: miscleavage columns do not add up to n_total',
                              rp({'predicate': 'misc-total', 'row': n}))
    if dbs is None:
        return
    # agreement with splitFasta under the same options (summary_eq_split): per key, the row of
    # a source combination with at most --max-source-groups members equals the size of the
    # database of that name; the -additional / Remaining databases together hold the peptides
    # of the rows with more members
    sizes = {k: len(v) for k, v in dbs.items()}
    stats['eq_split'] += 1
    rowmap = {n: t for n, t, _ in rows}
    overflow = lambda k: k == 'Remaining' or k.endswith('-additional')
    fits = lambda n: len(n.split('-')) <= c.max_groups
    keys = {k for k in sizes if not overflow(k)} | {n for n, t in rowmap.items() if t and fits(n)}
    bad = [(k, sizes.get(k, 0), rowmap.get(k)) for k in sorted(keys)
           if sizes.get(k, 0) != (rowmap.get(k) or 0)]
    over_db = sum(v for k, v in sizes.items() if overflow(k))
    over_rows = sum(t for n, t in rowmap.items() if not fits(n))
    if over_db != over_rows:
        bad.append(('Remaining + *-additional', over_db, over_rows))
    if bad:
        wild = c.order is not None and any(x in c.order for x in '*+')
        key = None
        if wild:
            key = 'summary-vs-split-wildcard'
        elif c.shared:
            key = 'summary-vs-split-shared-label'
        elif total != len(inp):
            key = 'summary-rows-skip-exclusive'
        ctx.add_violation('summarizeFasta row totals differ from splitFasta database sizes',
                          rp({'predicate': 'eq_split', 'disagree(key, db size, row)': bad,
                              'databases': sizes}), finding_key=key)


# ------------------------------------------------------------------------ run
def run(ctx: common.Ctx):
    sys.path.insert(0, common.REPO)
    import logging
    logging.disable(logging.CRITICAL)
    from moPepGen.aa.VariantPeptideLabel import VariantSourceSet
    ctx.coverage['rule'] = (
        'FASTAs (1-3 input files, 1-8 peptides, 1-3 entries per header over the whole label grammar) '
        'x GVF source assignment (7 sources / 5 parsers, shuffled file order, some (gene,label) in '
        'two GVFs, some GVFs unused) x --order-source (subsets, combinations A-B, wildcards A-* / '
        'A-+) x --group-source x --max-source-groups 1-4 x --additional-split, through the real '
        'split/summarize/merge/encode CLIs; a "clean" half satisfies the hypotheses of '
        'summary_eq_split; malformed stream: bad entries, missing labels, duplicate order keys; '
        'non-trivial = at least two databases / rows with a count, or an error class; '
        'source-set order: explicit level maps over 2-5 plain keys + 0-2 frozenset keys, 70 % '
        'injective / 30 % with repeated levels, both sets as lists with repetitions in random '
        'order (25 % the same set re-ordered), real __gt__ / to_int vs srcGt / toInt and the '
        'trichotomy + injectivity predicate on the real objects; every second splitFasta case is '
        're-run with the entries of each header permuted; every encodeFasta output is decoded by '
        'the Lean decode; the empty decoy string as prefix and as suffix')

    # ---- gt
    rng = ctx.rng('gt')
    cases = []
    names = ['A', 'B', 'C', 'D', 'E']
    for i in range(ctx.n(1500, 20000)):
        k = rng.randint(2, 5)
        items = rng.sample(names, k)
        if rng.random() < 0.5:
            a, b = rng.sample(items, 2)
            items.insert(rng.randint(0, len(items)), f'{a}-{b}')
        order = {}
        for j, v in enumerate(items):
            order[frozenset(v.split('-')) if '-' in v else v] = j
        VariantSourceSet.set_levels(order)
        plain = [x for x in items if '-' not in x]
        sa = rng.sample(plain, rng.randint(1, len(plain)))
        sb = rng.sample(plain, rng.randint(1, len(plain)))
        real = '1' if VariantSourceSet(sa) > VariantSourceSet(sb) else '0'
        cases.append((f'C18\tgt\t{",".join(items)}\t{"-".join(sa)}\t{"-".join(sb)}', real,
                      (items, sa, sb)))
    VariantSourceSet.reset_levels()
    ctx.diff_stream('gt', cases, False, lambda o: {'order': o[0], 'a': o[1], 'b': o[2]},
                    lambda o: o == '1')

    run_order(ctx)

    work = tempfile.mkdtemp(prefix='c18_')
    stats = {'partition': 0, 'total': 0, 'eq_split': 0, 'union': 0, 'decode': 0, 'perm': 0}
    try:
        # ---- split + summarize
        rng = ctx.rng('split')
        scases, mcases = [], []
        n_ok, n_mal = ctx.n(900, 8000), ctx.n(200, 1500)
        for i in range(n_ok + n_mal):
            mal = i >= n_ok
            c = gen_case(rng, malformed=mal, clean=(not mal and i % 2 == 0))
            d = os.path.join(work, f's{i}')
            os.mkdir(d)
            paths, gvfs = write_inputs(c, d)
            rs, dbs = real_split(c, d, paths, gvfs)
            scases.append((line_split(c), rs, c))
            rm, rows = real_summarize(c, d, paths, gvfs)
            mcases.append((line_summarize(c), rm, c))
            if dbs is not None:
                check_split(ctx, c, dbs, stats)
                c2 = permuted(c, rng) if i % 2 == 0 else None
                if c2 is not None:
                    d2 = os.path.join(work, f'p{i}')
                    os.mkdir(d2)
                    paths2, gvfs2 = write_inputs(c2, d2)
                    rs2, _ = real_split(c2, d2, paths2, gvfs2)
                    shutil.rmtree(d2, ignore_errors=True)
                    stats['perm'] += 1
                    if rs2 != rs:
                        ctx.add_violation(
                            'splitFasta: permuting the entries of the input headers changes the '
                            'database a peptide is filed under (or its entries)',
                            dict(describe(c), predicate='perm',
                                 permuted_fastas=describe(c2)['fastas'], split=rs, split_permuted=rs2))
            if rows is not None:
                check_summary(ctx, c, rows, dbs, stats)
            shutil.rmtree(d, ignore_errors=True)
        ctx.diff_stream('split', scases, True, describe, lambda o: '##' in o or o.startswith('crash'),
                        'splitFasta databases differ from the proved model')
        ctx.diff_stream('summarize', mcases, True, describe,
                        lambda o: o.startswith('crash') or sum(1 for r in o.split(';') if ':0:' not in r) >= 2,
                        'summarizeFasta table differs from the proved model')

        run_merge(ctx, work, stats)
        run_encode(ctx, work, stats)
    finally:
        shutil.rmtree(work, ignore_errors=True)
    for k, v in stats.items():
        ctx.count('predicates', k, v)
    ctx.assumptions += [
        'uuid.uuid4() returns pairwise distinct identifiers that neither start nor end with the '
        'decoy string (hypothesis UuidOk of encode_decode; checked on the identifiers of every run '
        'by the decode predicate)',
        'str.split / str.join on " ", "|", "-", "," and ":" (driver side)',
        'Python list.sort() with the partial VariantPeptideInfo.__lt__ puts an entry with a minimal '
        'source set first (validated by the split/summarize streams; the order of the remaining '
        'entries is compared as a multiset)',
    ]


def run_order(ctx):
    """to_int / __gt__ under explicit level maps: plain and frozenset keys, injective and
    non-injective levels, sets given as lists with repetitions in random order."""
    from moPepGen.aa.VariantPeptideLabel import VariantSourceSet
    rng = ctx.rng('gtl')
    names = ['A', 'B', 'C', 'D', 'E']
    gcases, tcases = [], []
    n_props = 0
    for i in range(ctx.n(2500, 30000)):
        k = rng.randint(2, 5)
        plain = rng.sample(names, k)
        keys = list(plain)
        for _ in range(rng.choice([0, 0, 1, 1, 2])):
            m = rng.sample(plain, rng.randint(1, min(3, k)))
            keys.insert(rng.randint(0, len(keys)), '-'.join(m))
        injective = rng.random() < 0.7
        if injective:
            lv = list(range(len(keys)))
            rng.shuffle(lv)
        else:
            lv = [rng.randint(0, max(1, len(keys) - 2)) for _ in keys]
        order = {}
        for kname, v in zip(keys, lv):
            order[frozenset(kname.split('-')) if '-' in kname else kname] = v
        # what the dict holds after the assignments (a repeated frozenset key overwrites)
        spec = ','.join(f'{kname}={v}' for kname, v in zip(keys, lv))
        VariantSourceSet.set_levels(order)

        def some_set():
            base = rng.sample(plain, rng.randint(1, len(plain)))
            lst = base + [rng.choice(base) for _ in range(rng.choice([0, 0, 1, 2]))]
            rng.shuffle(lst)
            return lst
        la, lb = some_set(), some_set()
        if rng.random() < 0.25:
            lb = list(la)
            rng.shuffle(lb)
        a, b = VariantSourceSet(la), VariantSourceSet(lb)
        try:
            real = '1' if a > b else '0'
        except KeyError:
            real = 'crash:KeyError'
        gcases.append((f'C18\tgtl\t{spec}\t{"-".join(la)}\t{"-".join(lb)}', real, (spec, la, lb)))
        try:
            ti = a.to_int()
            real_t = ','.join(str(x) for x in ti)
        except KeyError:
            ti, real_t = None, 'crash:KeyError'
        tcases.append((f'C18\ttointl\t{spec}\t{"-".join(la)}', real_t, (spec, la, None)))
        # source_order_total evaluated on the real objects
        distinct_levels = len(set(order.values())) == len(order)
        if distinct_levels:
            n_props += 1
            gt, lt, eq = a > b, b > a, set(a) == set(b)
            tb = b.to_int()
            if (gt + lt + eq) != 1 or ((ti == tb) != eq):
                ctx.add_violation('VariantSourceSet order is not a strict total order on sets / '
                                  'to_int is not injective although the levels are distinct',
                                  {'predicate': 'order_props', 'levels': spec, 'a': la, 'b': lb,
                                   'a>b': gt, 'b>a': lt, 'a==b': eq, 'to_int': [ti, tb]})
    VariantSourceSet.reset_levels()
    d = lambda o: {'levels': o[0], 'a': o[1], 'b': o[2]}
    ctx.diff_stream('gtl', gcases, False, d, lambda o: o == '1')
    ctx.diff_stream('toint', tcases, False, d, lambda o: ',' in o or o.startswith('crash'))
    ctx.count('predicates', 'order_props', n_props)


def permuted(c, rng):
    """the case with the entries of every multi-entry header permuted (None: nothing to permute)"""
    import copy
    c2 = copy.copy(c)
    changed = False
    files = []
    for f in c.files:
        g = []
        for s, ents in f:
            e2 = list(ents)
            if len(e2) >= 2 and all(etext(x) for x in e2):   # '' = trailing blank of the title
                e2.reverse() if rng.random() < 0.5 else rng.shuffle(e2)
                changed = changed or [etext(x) for x in e2] != [etext(x) for x in ents]
            g.append((s, e2))
        files.append(g)
    c2.files = files
    return c2 if changed else None


def run_merge(ctx, work, stats):
    from moPepGen import cli
    rng = ctx.rng('merge')
    cases = []
    for i in range(ctx.n(600, 6000)):
        uni = Universe(rng, ntx=3)
        nfiles = rng.randint(1, 4)
        seqs = [gen_seq(rng) for _ in range(rng.randint(1, 6))]
        files = []
        stored = {}          # sequence -> entries accumulated by the earlier files
        for _ in range(nfiles):
            f = []
            for s in seqs:
                if rng.random() < 0.55:
                    ents = None
                    if s in stored and rng.random() < 0.5:
                        # same sequence as in an earlier input, near-identical label(s)
                        ents = near_labels(rng, stored[s], textual=True)
                    if ents is None:
                        ents = [gen_entry(rng, uni, 0.1).text for _ in range(rng.choice([1, 1, 2]))]
                        if rng.random() < 0.4:
                            ents = [reindex(e, rng.randint(10, 99)) if e.rpartition('|')[2].isdigit()
                                    else e for e in ents]
                        if rng.random() < 0.3 and stored:
                            # an entry differing from an earlier one only in its index -> dedup
                            prev = rng.choice([e for es in stored.values() for e in es])
                            ents.append(reindex(prev, rng.randint(1, 9)))
                    f.append((s, ents))
            if rng.random() < 0.15 and f:
                f.append((f[0][0], [gen_entry(rng, uni, 0).text]))   # duplicate sequence in a file
            seen_f = set()
            for s, ents in f:
                if s not in seen_f:
                    seen_f.add(s)
                    stored.setdefault(s, [])
                    stored[s] = stored[s] + list(ents)
            files.append(f)
        dedup = rng.random() < 0.4
        d = os.path.join(work, f'm{i}')
        os.mkdir(d)
        a = argparse.Namespace()
        a.command = 'mergeFasta'
        a.quiet = True
        a.input_path = []
        for j, f in enumerate(files):
            p = Path(d) / f'f{j}.fasta'
            write_fasta(p, f)
            a.input_path.append(p)
        a.output_path = Path(d) / 'merged.fasta'
        a.dedup_header = dedup
        try:
            with quiet():
                cli.merge_fasta(a)
            recs = read_fasta(a.output_path)
            real = ';'.join(sorted(f'{s}:{t}' for t, s in recs))
        except CRASHES as e:
            real, recs = crash_name(e), None
        line = '\t'.join(['C18', 'merge', '1' if dedup else '0'] + files_fields(files))
        cases.append((line, real, (files, dedup)))
        if recs is not None and not dedup:
            stats['union'] += 1
            want = {}
            for f in files:
                seen = set()
                for s, ents in f:
                    if s in seen:
                        continue
                    seen.add(s)
                    want.setdefault(s, [])
                    want[s] += ents
            want = {s: ' '.join(v).rstrip().split(' ') for s, v in want.items()}
            got = {s: t.split(' ') for t, s in recs}
            # union of sequences (each once), union of header ENTRIES as a multiset per
            # sequence; the order of the entries (file order) is checked separately
            bad = None
            if len(recs) != len(got) or set(got) != set(want):
                bad = 'sequences'
            elif any(sorted(got[s]) != sorted(want[s]) for s in want):
                bad = 'entries (multiset)'
            elif got != want:
                bad = 'entry order'
            if bad:
                s_bad = next((s for s in want if sorted(got.get(s, [])) != sorted(want[s])), None)
                ctx.add_violation('mergeFasta output is not the union of sequences with the union '
                                  'of header entries',
                                  {'predicate': 'union', 'differs_in': bad, 'seq': s_bad,
                                   'want_entries': want.get(s_bad), 'got_entries': got.get(s_bad),
                                   'files': files, 'output': recs})
        shutil.rmtree(d, ignore_errors=True)
    ctx.diff_stream('merge', cases, True, lambda o: {'files': o[0], 'dedup_header': o[1]},
                    lambda o: ' ' in o, 'mergeFasta output differs from the proved model')


def run_encode(ctx, work, stats):
    from moPepGen import cli
    rng = ctx.rng('encode')
    cases, dcases = [], []

    def one(i, decoy, pos, recs, finding=None):
        d = os.path.join(work, f'e{i}')
        os.mkdir(d)
        a = argparse.Namespace()
        a.command = 'encodeFasta'
        a.quiet = True
        a.input_path = Path(d) / 'in.fasta'
        a.output_path = Path(d) / 'out.fasta'
        a.decoy_string = decoy
        a.decoy_string_position = pos
        with open(a.input_path, 'w') as fh:
            for h, s in recs:
                fh.write(f'>{h}\n{s}\n')
        line = '\t'.join(['C18', 'encode', decoy, pos] + [x for r in recs for x in r])
        try:
            with quiet():
                cli.encode_fasta(a)
        except CRASHES as e:
            cases.append((line, crash_name(e), (decoy, pos, recs)))
            return
        out = read_fasta(a.output_path)
        dict_lines = [l.rstrip('\n').split('\t', 1) for l in open(str(a.output_path) + '.dict')]
        ren = {u: f'U{k}' for k, (u, _) in enumerate(dict_lines)}

        def rename(h):
            for u, v in ren.items():
                if u in h:
                    return h.replace(u, v)
            return h
        real = ';'.join(f'{rename(t)}:{s}' for t, s in out) + '##' + \
            ';'.join(f'{ren[u]}={h}' for u, h in dict_lines)
        cases.append((line, real, (decoy, pos, recs)))
        # the Lean `decode` on the real files (identifiers renamed): must give the input titles
        if finding is None:
            dline = '\t'.join(['C18', 'decode', decoy, pos] + [x for u, h in dict_lines for x in (ren[u], h)]
                              + ['//'] + [rename(t) for t, _ in out])
            dcases.append((dline, ';'.join(h for h, _ in recs), (decoy, pos, recs)))
        # decode ∘ encode = id on the real files, with the real identifiers
        stats['decode'] += 1
        dd = dict(dict_lines)
        ok = len(out) == len(recs) and len(dd) == len(dict_lines)
        for (t, s), (h0, s0) in zip(out, recs):
            if pos == 'prefix' and t.startswith(decoy):
                back = decoy + dd.get(t[len(decoy):], '?')
            elif pos == 'suffix' and t.endswith(decoy):
                back = dd.get(t[:len(t) - len(decoy)], '?') + decoy
            else:
                back = dd.get(t, '?')
            if back != h0 or s != s0:
                ok = False
        # equal (stripped) headers share an identifier, different ones do not
        strip = lambda h: (h[len(decoy):] if pos == 'prefix' and h.startswith(decoy)
                           else h[:len(h) - len(decoy)] if pos == 'suffix' and h.endswith(decoy) else h)
        ids = {}
        for (t, _), (h0, _) in zip(out, recs):
            ids.setdefault(strip(h0), set()).add(strip(t))
        if finding is None and (any(len(v) != 1 for v in ids.values())
                                or len({next(iter(v)) for v in ids.values()}) != len(ids)):
            ok = False
        if not ok:
            ctx.add_violation('encodeFasta: the dictionary does not restore the headers',
                              {'predicate': 'decode', 'decoy_string': decoy, 'position': pos,
                               'records': recs, 'output': out, 'dict': dict_lines},
                              finding_key=finding)
        shutil.rmtree(d, ignore_errors=True)

    n = ctx.n(600, 6000)
    for i in range(n):
        uni = Universe(rng, ntx=3)
        decoy = rng.choice(['DECOY_', 'DECOY_', 'rev_', '_REV', 'XXX'])
        pos = rng.choice(['prefix', 'suffix'])
        recs = []
        hdrs = [' '.join(gen_entry(rng, uni, 0.1).text for _ in range(rng.choice([1, 1, 2])))
                for _ in range(rng.randint(1, 5))]
        for _ in range(rng.randint(1, 8)):
            h = rng.choice(hdrs)
            if rng.random() < 0.4:
                h = decoy + h if pos == 'prefix' else h + decoy
            recs.append((h, gen_seq(rng)))
        one(i, decoy, pos, recs)
    # the empty decoy string: as a prefix it round-trips (encode_decode_empty_prefix); as a
    # suffix `header[:-0]` is '' for every record (known finding encode-empty-decoy-suffix)
    two = [('T1|SNV-1-A-T|1', 'AAK'), ('T2|SNV-9-C-G|1', 'CCK')]
    one(n, '', 'prefix', two)
    one(n + 1, '', 'suffix', two, finding='encode-empty-decoy-suffix')
    ctx.diff_stream('encode', cases, True,
                    lambda o: {'decoy_string': o[0], 'position': o[1], 'records': o[2]},
                    lambda o: True, 'encodeFasta output differs from the proved model')
    ctx.diff_stream('decode', dcases, True,
                    lambda o: {'decoy_string': o[0], 'position': o[1], 'records': o[2]},
                    lambda o: True,
                    'the dictionary written by encodeFasta does not restore the titles (Lean decode '
                    'on the real files)')


def replay(ctx, data):
    print(data.get('what'))
    return 0
