"""C17 — parseCIRCexplorer records denote the reported circular RNA.

Annotations + genome come from the C11 generator (own GTF / FASTA writers).  For every
transcript: ALL non-empty exon subsets (<= 6 exons exhaustively, above that every contiguous
run + random subsets) as `circRNA` rows and every intron x start/end shifts -3..+3 (+ short
lariats) as `ciRNA` rows, in the text format of CIRCexplorer2 `known` and CIRCexplorer3.
The rows are read by the REAL `CIRCexplorerParser.parse`; streams (real code in-process vs the
native Lean driver):

  conv     record.convert_to_circ_rna(anno, rs, re) -> CircRNAModel.to_string(), 8 tolerance
           range pairs incl. ranges without 0                                     (observable)
  seq      CircRNAModel.get_circ_rna_sequence(real gene sequence)                 (observable)
  run      the real CLI function parse_circexplorer (args from the real argparse sub-parser):
           tallies from the log + the emitted GVF re-read by circ.io.parse        (observable)
  valid    is_valid of both record classes, exhaustive threshold grid             (observable)
  lookup   find_exon_index / find_intron_index with coordinate='gene'             (internal)
  bad      malformed rows: unknown isoform, block outside the gene, unknown circ type,
           short offsets, empty block, shifted exon                               (internal)

Direct predicates on the real output (no model involved), per emitted record: fragments ==
strand-corrected blocks, real get_circ_rna_sequence(real gene sequence) == concatenation of the
blocks read from the chromosome in transcript orientation, ID == CIRC-<tx>-<back-splice gene
interval>, every record below the read threshold / with a block that is no exon is absent and
counted, every exon-subset row above the threshold is present; parser fragment type vs the type
the GVF reader assigns (0-based INTRON suspect).
"""
from __future__ import annotations
import argparse
import importlib
import itertools
import logging
import os
import shutil
import sys
import tempfile
from pathlib import Path

from . import common
from . import c11

KF_CE3 = 'circexplorer3-cli-reads-undefined-option'
KF_INTRON = 'cirna-intron-index-0-based-vs-reader-1-based'
KF_NOTX = 'unknown-isoform-aborts-run'
KF_OUTSIDE = 'block-outside-gene-aborts-run'

COMP = {'A': 'T', 'T': 'A', 'C': 'G', 'G': 'C', 'N': 'N'}
STREAMS = ['conv', 'seq', 'run', 'valid', 'lookup', 'bad']
OBSERVABLE = {'conv', 'seq', 'run', 'valid'}
WHAT = {
    'conv': 'convert_to_circ_rna: emitted record differs from the proved model (fragments / id / '
            'skip class)',
    'seq': 'get_circ_rna_sequence differs from the proved model (= concatenation of the blocks)',
    'run': 'parse_circexplorer: tallies or emitted GVF records differ from the proved model',
    'valid': 'is_valid differs from the modelled threshold test',
}

TOLERANCES = [((0, 0), (0, 0)), ((-2, 0), (-100, 5)), ((-3, 3), (-3, 3)), ((-1, 2), (-2, 1)),
              ((0, 3), (-3, 0)), ((-2, 0), (-100, 2)), ((-2, 0), (-5, -1)), ((1, 2), (1, 3))]


def revcomp(s):
    return ''.join(COMP[c] for c in reversed(s))


def milli(v):
    """fixed-point integer -> decimal text (exact)"""
    sign = '-' if v < 0 else ''
    v = abs(v)
    return f'{sign}{v // 1000}.{v % 1000:03d}'


# ------------------------------------------------------------------ rows
class Row:
    """one CIRCexplorer row with its ground truth"""
    def __init__(self, g, t, blocks, ctype, reads=3, kind='', start=None, end=None,
                 sizes=None, offsets=None, isoform=None, fpb=1000, score=1000):
        self.g, self.t, self.kind = g, t, kind
        self.blocks = list(blocks)
        self.ctype = ctype
        self.reads = reads
        self.start = self.blocks[0][0] if start is None else start
        self.end = self.blocks[-1][1] if end is None else end
        self.sizes = [e - s for s, e in self.blocks] if sizes is None else sizes
        self.offsets = [s - self.start for s, _ in self.blocks] if offsets is None else offsets
        self.isoform = t.id if isoform is None else isoform
        self.fpb, self.score = fpb, score
        self.name = 'circular_RNA/1'

    def text(self, ce3):
        idx = ','.join(str(i + 1) for i in range(len(self.sizes)))
        f = [self.g.chrom, self.start, self.end, self.name, 0, self.g.strand,
             self.start, self.start, '0,0,0', len(self.sizes),
             ','.join(map(str, self.sizes)), ','.join(map(str, self.offsets)),
             self.reads, self.ctype, self.g.name, self.isoform, idx, 'None|None']
        if ce3:
            f += [milli(self.fpb), milli(500), milli(self.score)]
        return '\t'.join(map(str, f))

    def ref(self):
        return (f'{self.g.strand}\t{self.g.start}-{self.g.end}\t{self.t.strand}\t'
                f'{c11.ivs(self.t.exons)}')

    def rec_fields(self):
        return (f'{self.start}\t{self.end}\t{",".join(map(str, self.sizes)) or "."}\t'
                f'{",".join(map(str, self.offsets)) or "."}')

    # ground truth of the property (independent of the code and of the model)
    def gene_iv(self, lo, hi):
        if self.g.strand == '+':
            return (lo - self.g.start, hi - self.g.start)
        return (self.g.end - hi, self.g.end - lo)

    def expected_fragments(self):
        return [self.gene_iv(s, e) for s, e in self.blocks]

    def expected_seq(self, chrom):
        s = ''.join(chrom[a:b] for a, b in sorted(self.blocks))
        return s if self.g.strand == '+' else revcomp(s)

    def desc(self, ce3=False):
        return {'row': self.text(ce3), 'kind': self.kind, 'transcript': self.t.id,
                'strand': self.g.strand, 'gene': [self.g.start, self.g.end],
                'exons': self.t.exons, 'blocks': self.blocks}


def gen_rows(a, rng, ctx):
    rows = []
    for g in a.genes:
        for t in g.txs:
            ex = t.exons
            n = len(ex)
            if n <= 6:
                subsets = [c for k in range(1, n + 1) for c in itertools.combinations(range(n), k)]
                ctx.count('conv', 'tx_all_subsets')
            else:
                subsets = [tuple(range(i, j)) for i in range(n) for j in range(i + 1, n + 1)]
                for _ in range(30):
                    k = rng.randint(1, n)
                    subsets.append(tuple(sorted(rng.sample(range(n), k))))
                subsets = sorted(set(subsets))
            for sub in subsets:
                rows.append(Row(g, t, [ex[i] for i in sub], 'circRNA', kind='exons',
                                reads=rng.choice([1, 2, 3, 5])))
            for j in range(n - 1):
                ia, ib = ex[j][1], ex[j + 1][0]
                ends = set(range(-3, 4)) | {-(ib - ia) // 2, -(ib - ia) + 1}
                for ds in range(-3, 4):
                    for de in sorted(ends):
                        if g.strand == '+':
                            lo, hi = ia + ds, ib + de
                        else:
                            lo, hi = ia - de, ib - ds
                        if lo < g.start or hi > g.end or hi <= lo:
                            continue        # outside the gene: `bad` stream
                        rows.append(Row(g, t, [(lo, hi)], 'ciRNA', kind=f'intron{j}:{ds}:{de}',
                                        reads=rng.choice([1, 2, 3, 5])))
    return rows


def gen_bad_rows(a, rng):
    rows = []
    for g in a.genes:
        for t in g.txs:
            ex = t.exons
            s, e = ex[rng.randrange(len(ex))]
            # exon shifted / shortened by one base: no exon of the transcript
            for (s2, e2) in [(s + 1, e + 1), (s, e + 1), (max(0, s - 1), e), (s, e - 1) if e - s > 1
                             else (s, e + 2)]:
                rows.append(Row(g, t, [(s2, e2)], 'circRNA', kind='bad:shifted-exon'))
            rows.append(Row(g, t, [(s, e)], 'circRNA', kind='bad:unknown-isoform',
                            isoform='ENSTNOPE.1'))
            far = g.end + rng.randint(0, 4)
            rows.append(Row(g, t, [(far, far + 5)], 'circRNA', kind='bad:outside-gene'))
            if g.start >= 2:
                rows.append(Row(g, t, [(g.start - 2, g.start + 1)], 'ciRNA',
                                kind='bad:outside-gene'))
            rows.append(Row(g, t, [(s, e)], 'lariat', kind='bad:circ-type'))
            if len(ex) >= 2:
                rows.append(Row(g, t, [ex[0], ex[1]], 'circRNA', kind='bad:short-offsets',
                                offsets=[0]))
                rows.append(Row(g, t, [ex[1], ex[0]], 'circRNA', kind='bad:unsorted-blocks',
                                start=ex[0][0], end=ex[1][1]))
                rows.append(Row(g, t, [ex[0], ex[1]], 'circRNA', kind='bad:end-before-start',
                                start=ex[0][0], end=max(0, ex[0][0] - 1),
                                offsets=[0, ex[1][0] - ex[0][0]]))
                rows.append(Row(g, t, [ex[0], ex[1]], 'ciRNA', kind='bad:exons-as-ciRNA'))
            rows.append(Row(g, t, [(s, s)], 'circRNA', kind='bad:empty-block', start=s, end=e,
                            sizes=[0], offsets=[0]))
            rows.append(Row(g, t, [(s, e)], 'circRNA', kind='bad:end-past-gene', start=s,
                            end=g.end + 3))
    return rows


# ------------------------------------------------------------------ real side
class LogGrab(logging.Handler):
    def __init__(self):
        super().__init__(level=logging.INFO)
        self.msgs = []

    def emit(self, record):
        try:
            self.msgs.append(record.getMessage())
        except Exception:   # noqa  (the code has a malformed format string in one warning)
            self.msgs.append(str(record.msg))


_PARSER = None


def cli_parser():
    """the REAL argparse sub-parser of parseCIRCexplorer"""
    global _PARSER
    if _PARSER is None:
        mod = importlib.import_module('moPepGen.cli.parse_circexplorer')
        p = argparse.ArgumentParser()
        sub = p.add_subparsers(dest='command')
        mod.add_subparser_parse_circexplorer(sub)
        _PARSER = p
    return _PARSER


def rng_arg(r):
    s = f'{r[0]},{r[1]}'
    return ' ' + s if s[0] == '-' else s     # what moPepGen.cli.__main__ does to sys.argv


def cli_args(inp, out, gtf_path, opt):
    argv = ['parseCIRCexplorer', '-i', inp, '-o', out, '-a', gtf_path, '--source', 'circRNA',
            '-q', '--min-read-number', str(opt['min_reads']),
            '--intron-start-range', rng_arg(opt['rs']), '--intron-end-range', rng_arg(opt['re'])]
    if opt['ce3']:
        argv.append('--circexplorer3')
        if opt['min_fpb'] is not None:
            argv += ['--min-fpb-circ', milli(opt['min_fpb'])]
        if opt['min_score'] is not None:
            argv += ['--min-circ-score', milli(opt['min_score'])]
    return cli_parser().parse_args(argv)


def canon_line(line, tx_id=None):
    """GVF line of a circRNA -> the numbers the model produces"""
    f = line.rstrip('\n').split('\t')
    info = dict(x.split('=', 1) for x in f[7].split(';'))
    cid = f[2]
    tx = info['TRANSCRIPT_ID']
    pre = f'CIRC-{tx}-'
    idpart = cid[len(pre):] if cid.startswith(pre) else '?' + cid
    gp = info.get('GENOMIC_POSITION', '')
    gp = gp.split(':', 1)[1] if ':' in gp else '?' + gp
    return f'{f[1]}|{info["OFFSET"]}|{info["LENGTH"]}|{info["INTRON"]}|{idpart}|{gp}'


def classify_exc(e):
    from moPepGen import err
    if isinstance(e, err.ExonNotFoundError):
        return 'skip:exon'
    if isinstance(e, err.IntronNotFoundError):
        return 'skip:intron'
    return 'crash:' + type(e).__name__


def real_convert(rec, anno, rs, re_):
    try:
        m = rec.convert_to_circ_rna(anno, rs, re_)
    except Exception as e:    # noqa
        return None, classify_exc(e)
    try:
        return m, canon_line(m.to_string())
    except Exception as e:    # noqa
        return m, 'crash:' + type(e).__name__


def parse_rows(tmp, rows, ce3, name):
    from moPepGen.parser import CIRCexplorerParser
    p = os.path.join(tmp, name)
    with open(p, 'w') as fh:
        for r in rows:
            fh.write(r.text(ce3) + '\n')
    recs = list(CIRCexplorerParser.parse(Path(p), ce3))
    if len(recs) != len(rows):
        raise RuntimeError('parser returned a different number of records')
    return p, recs


class Case:
    pass


def load_case(a, tmp, which):
    from moPepGen import gtf, dna
    C = Case()
    C.gtf_path = os.path.join(tmp, 'anno.gtf')
    C.fa_path = os.path.join(tmp, 'genome.fa')
    with open(C.gtf_path, 'w') as fh:
        fh.write(a.gtf_text())
    with open(C.fa_path, 'w') as fh:
        fh.write(a.fasta_text())
    C.genome = dna.DNASeqDict()
    C.genome.dump_fasta(C.fa_path)
    if which % 2 == 0:
        C.anno = gtf.GenomicAnnotationOnDisk()
        C.anno.generate_index(C.gtf_path)
    else:
        C.anno = gtf.GenomicAnnotation()
        C.anno.dump_gtf(C.gtf_path)
    C.rank = C.anno.get_genes_rank()
    C.gene_seq = {}
    for g in a.genes:
        C.gene_seq[g.id] = C.anno.genes[g.id].get_gene_sequence(C.genome[g.chrom])
    return C


def close_case(C):
    h = getattr(C.anno, 'handle', None)
    if h:
        try:
            h.close()
        except Exception:   # noqa
            pass


def check_record(ctx, viol, row, m, chrom, gene_seq, ce3, via):
    """the property evaluated directly on one emitted CircRNAModel"""
    frags = [(int(f.location.start), int(f.location.end)) for f in m.fragments]
    exp = row.expected_fragments()
    d = {'via': via}
    if frags != exp:
        viol('fragments are not the strand-corrected reported blocks',
             dict(d, fragments=frags, expected=exp), row, ce3)
        return
    try:
        got = str(m.get_circ_rna_sequence(gene_seq).seq)
    except Exception as e:   # noqa
        viol('get_circ_rna_sequence raised on an emitted record',
             dict(d, exception=f'{type(e).__name__}: {e}'), row, ce3)
        return
    want = row.expected_seq(chrom)
    if got != want:
        viol('circular sequence read from the gene differs from the concatenation of the '
             'reported blocks in transcript orientation',
             dict(d, sequence=got, expected=want), row, ce3)
    sg, eg = row.gene_iv(row.start, row.end)
    if m.id != f'CIRC-{row.t.id}-{sg}:{eg}':
        viol('ID does not encode the back-splice gene coordinates',
             dict(d, id=m.id, expected=f'CIRC-{row.t.id}-{sg}:{eg}'), row, ce3)
    if (m.gene_id, m.transcript_id, m.gene_name) != (row.g.id, row.t.id, row.g.name):
        viol('gene / transcript / symbol of the emitted record differ from the row',
             dict(d, got=[m.gene_id, m.transcript_id, m.gene_name]), row, ce3)


# ------------------------------------------------------------------ per annotation
def process_case(ctx, case_id, a, S, rng, bad=False):
    from moPepGen import circ as circ_mod
    from moPepGen.SeqFeature import FeatureLocation, SeqFeature
    tmp = tempfile.mkdtemp(prefix='c17_')
    C = None
    adesc = None

    def viol(what, extra, row=None, ce3=False, key=None):
        nonlocal adesc
        if adesc is None:
            adesc = a.desc()
        d = dict(extra)
        if row is not None:
            d.update(row.desc(ce3))
        d.update(adesc)
        ctx.add_violation(what, d, finding_key=key)

    try:
        C = load_case(a, tmp, case_id)
        mod = importlib.import_module('moPepGen.cli.parse_circexplorer')
        rows = gen_bad_rows(a, rng) if bad else gen_rows(a, rng, ctx)
        if not rows:
            return
        ce3 = bool(case_id % 2) if not bad else bool(rng.getrandbits(1))
        _, recs = parse_rows(tmp, rows, ce3, 'all.txt')
        stream = 'bad' if bad else 'conv'
        tol_ci = TOLERANCES if not bad else TOLERANCES[:2]
        ok_models = {}
        for ri, (row, rec) in enumerate(zip(rows, recs)):
            tols = tol_ci if row.ctype == 'ciRNA' else [TOLERANCES[(case_id + ri) % 2]]
            for (rs, re_) in tols:
                m, out = real_convert(rec, C.anno, rs, re_)
                line = (f'C17\tconv\t{row.ref()}\t{rs[0]}:{rs[1]}\t{re_[0]}:{re_[1]}\t'
                        f'{row.rec_fields()}\t{row.ctype}')
                if row.kind == 'bad:unknown-isoform':
                    # the model of convert starts after `anno.transcripts[tx_id]`
                    if out != 'crash:KeyError':
                        viol('unknown isoform: expected KeyError from anno.transcripts[...]',
                             {'real': out}, row, ce3)
                    continue
                S[stream].append((line, out, (case_id, row, ce3, (rs, re_))))
                if m is not None and not bad:
                    ctx.count('conv', 'converted_' + row.ctype)
                    ok_models[(ri, rs, re_)] = m
                    chrom = a.chroms[row.g.chrom]
                    gseq = C.gene_seq[row.g.id]
                    check_record(ctx, viol, row, m, chrom, gseq, ce3, 'convert_to_circ_rna')
                    frs = ','.join(f'{int(f.location.start)}-{int(f.location.end)}'
                                   for f in m.fragments)
                    try:
                        sq = str(m.get_circ_rna_sequence(gseq).seq)
                    except Exception as e:    # noqa
                        sq = 'crash:' + type(e).__name__
                    if (ri + case_id) % 3 == 0 or row.ctype == 'ciRNA':
                        S['seq'].append((f'C17\tseq\t{str(gseq.seq)}\t{frs}', sq,
                                         (case_id, row, ce3, None)))
                    # an exon-subset row must convert
                if not bad and row.kind == 'exons' and m is None:
                    viol('a row whose blocks are exons of the transcript was not converted',
                         {'real': out}, row, ce3)
                if not bad and row.kind.startswith('intron') and row.kind.endswith(':0:0') \
                        and m is None and rs[1] == 0:
                    viol('a ciRNA row that is exactly an intron of the transcript was not '
                         'converted', {'real': out, 'ranges': [rs, re_]}, row, ce3)
        # internal: look-ups with coordinate='gene' on the expected fragments
        if not bad:
            by_tx = {}
            for row in rows:
                if row.g.start <= row.start and row.end <= row.g.end:
                    by_tx.setdefault((row.t.id, row.ctype), []).append(row)
            for (txid, ctype), rws in by_tx.items():
                rws = rws[::max(1, len(rws) // 40)][:40]
                for (rs, re_) in ([TOLERANCES[0]] if ctype == 'circRNA' else TOLERANCES[:4]):
                    outs, feats = [], []
                    for row in rws:
                        s, e = row.expected_fragments()[0]
                        strand = 1 if row.g.strand == '+' else -1
                        ft = SeqFeature(chrom=txid, attributes={}, type='exon',
                                        location=FeatureLocation(seqname=row.g.id, start=s, end=e,
                                                                 strand=strand))
                        try:
                            if ctype == 'circRNA':
                                k = C.anno.find_exon_index(txid, ft)
                            else:
                                k = C.anno.find_intron_index(txid, ft, intron_start_range=rs,
                                                             intron_end_range=re_)
                            outs.append(str(int(k)))
                        except Exception as ex:   # noqa
                            c = classify_exc(ex)
                            outs.append({'skip:exon': 'E', 'skip:intron': 'N'}.get(c, 'X:' + c))
                        feats.append(f'{s}-{e}')
                    r0 = rws[0]
                    S['lookup'].append((
                        f'C17\tlookup\t{r0.ref()}\t{rs[0]}:{rs[1]}\t{re_[0]}:{re_[1]}\t'
                        f'{1 if ctype == "ciRNA" else 0}\t{",".join(feats)}',
                        ','.join(outs), (case_id, r0, ce3, (rs, re_))))
        # the CLI function on files
        nruns = 2 if bad else 3
        for k in range(nruns):
            cli_run(ctx, case_id, a, C, tmp, rows, rng, S, viol, k, bad, mod, circ_mod)
    finally:
        if C is not None:
            close_case(C)
        shutil.rmtree(tmp, ignore_errors=True)


def cli_run(ctx, case_id, a, C, tmp, rows, rng, S, viol, k, bad, mod, circ_mod):
    ce3 = bool((case_id + k) % 2)
    rs, re_ = TOLERANCES[(case_id + k) % len(TOLERANCES)] if k else TOLERANCES[1]
    opt = {'ce3': ce3, 'rs': rs, 're': re_,
           'min_reads': rng.choice([1, 1, 2, 3, 5]),
           'min_fpb': rng.choice([None, 0, 500, 1000, 1500]) if ce3 else None,
           'min_score': rng.choice([None, 0, 1000, 2000]) if ce3 else None}
    if bad:
        good = [r for r in rows if r.kind in ('bad:shifted-exon', 'bad:exons-as-ciRNA',
                                              'bad:unsorted-blocks')]
        crash = [r for r in rows if r not in good]
        pick = rng.sample(good, min(len(good), 6))
        if k == 1 and crash:
            pick.insert(rng.randint(0, len(pick)), rng.choice(crash))
        # plus some valid rows
        pick += [Row(r.g, r.t, [r.t.exons[0]], 'circRNA', kind='exons',
                     reads=rng.choice([1, 2, 3])) for r in pick[:3]]
    else:
        pick = rng.sample(rows, min(len(rows), rng.randint(5, 40)))
    for r in pick:
        r.fpb = rng.choice([0, 500, 1000, 1500, 2500])
        r.score = rng.choice([0, 1000, 2000, 3000])
    inp, recs = parse_rows(tmp, pick, ce3, f'in{k}.txt')
    out = os.path.join(tmp, f'out{k}.gvf')
    args = cli_args(inp, out, C.gtf_path, opt)
    logger = logging.getLogger('moPepGen')
    grab = LogGrab()
    old_level = logger.level
    logger.addHandler(grab)
    logger.setLevel(logging.INFO)
    exc = None
    try:
        try:
            mod.parse_circexplorer(args)
        except AttributeError as e:
            if ce3 and 'min_fbr_circ' in str(e):
                viol('parseCIRCexplorer --circexplorer3 raises AttributeError: the function reads '
                     'args.min_fbr_circ, the option is --min-fpb-circ (args.min_fpb_circ)',
                     {'argv': f'--circexplorer3 --min-read-number {opt["min_reads"]}',
                      'exception': str(e)}, pick[0], True, key=KF_CE3)
                ctx.count('run', 'ce3_attribute_error')
                # what the repository's own integration test does: set the attribute by hand
                args.min_fbr_circ = args.min_fpb_circ
                grab.msgs.clear()
                if os.path.exists(out):
                    os.unlink(out)
                try:
                    mod.parse_circexplorer(args)
                except Exception as e2:   # noqa
                    exc = e2
            else:
                exc = e
        except Exception as e:   # noqa
            exc = e
    finally:
        logger.removeHandler(grab)
        logger.setLevel(old_level)
    # protocol line
    fields = []
    for r in pick:
        rank = C.rank.get(r.g.id) if r.isoform == r.t.id else None
        fields.append('/'.join([
            '-' if rank is None else str(rank), r.g.strand, f'{r.g.start}-{r.g.end}', r.t.strand,
            c11.ivs(r.t.exons), str(r.start), str(r.end),
            ','.join(map(str, r.sizes)) or '.', ','.join(map(str, r.offsets)) or '.',
            str(r.reads), r.ctype, str(r.fpb if ce3 else 0), str(r.score if ce3 else 0)]))
    fo = lambda v: '.' if v is None else str(v)
    line = (f'C17\trun\t{int(ce3)}\t{opt["min_reads"]}\t{fo(opt["min_fpb"])}\t'
            f'{fo(opt["min_score"])}\t{rs[0]}:{rs[1]}\t{re_[0]}:{re_[1]}\t{";".join(fields)}')
    obj = (case_id, pick[0], ce3, opt, [r.text(ce3) for r in pick])
    if exc is not None:
        real = 'crash:' + type(exc).__name__
        if os.path.exists(out):
            viol('the run aborted but left an output file', {'exception': repr(exc)}, pick[0], ce3)
        S['run'].append((line, real, obj))
        kinds = {r.kind for r in pick}
        if 'bad:unknown-isoform' in kinds and isinstance(exc, KeyError):
            viol('a row naming an isoform that is not in the annotation aborts the whole run '
                 '(KeyError) instead of being skipped and counted',
                 {'exception': repr(exc)},
                 [r for r in pick if r.kind == 'bad:unknown-isoform'][0], ce3, key=KF_NOTX)
        elif kinds & {'bad:outside-gene', 'bad:end-past-gene'} and isinstance(exc, ValueError) \
                and 'does not overlap with the gene' in str(exc):
            viol('a row with a block outside the gene of its isoform aborts the whole run '
                 '(ValueError) instead of being skipped and counted',
                 {'exception': repr(exc)},
                 [r for r in pick if r.kind in ('bad:outside-gene', 'bad:end-past-gene')][0], ce3,
                 key=KF_OUTSIDE)
        elif not bad:
            viol('parse_circexplorer raised on well-formed rows', {'exception': repr(exc),
                 'options': opt, 'rows': [r.text(ce3) for r in pick]}, pick[0], ce3)
        return
    tally = {}
    for msg in grab.msgs:
        for key, pat in (('total', 'Totally records read: '), ('skipped', 'Records skipped: '),
                         ('invalid', 'Invalid circRNA record: '),
                         ('insufficient', 'Insufficient evidence: '),
                         ('succeed', 'Records successfully processed: ')):
            if msg.strip().startswith(pat):
                tally[key] = int(msg.strip()[len(pat):])
    tally.setdefault('invalid', 0)
    tally.setdefault('insufficient', 0)
    models = []
    lines = []
    if os.path.exists(out):
        with open(out) as fh:
            lines = [ln for ln in fh if not ln.startswith('#')]
        with open(out) as fh:
            models = list(circ_mod.io.parse(fh))
    real = (f'{tally.get("total")},{tally.get("skipped")},{tally["insufficient"]},'
            f'{tally["invalid"]}#' + ';'.join(canon_line(ln) for ln in lines))
    S['run'].append((line, real, obj))
    ctx.count('run', 'records', len(pick))
    ctx.count('run', 'emitted', len(lines))
    # ---- the property, directly on the real output
    def valid(r):
        if r.reads < opt['min_reads']:
            return False
        if ce3 and opt['min_fpb'] and r.fpb < opt['min_fpb']:
            return False
        if ce3 and opt['min_score'] and r.score < opt['min_score']:
            return False
        return True
    d0 = {'options': opt, 'rows': [r.text(ce3) for r in pick]}
    n_insuf = sum(not valid(r) for r in pick)
    if tally.get('total') != len(pick) or tally['insufficient'] != n_insuf:
        viol('records below the thresholds are not counted as the property requires',
             dict(d0, tally=tally, expected_insufficient=n_insuf), pick[0], ce3)
    if tally.get('skipped') != tally['insufficient'] + tally['invalid'] or \
            len(lines) + tally.get('skipped', 0) != len(pick):
        viol('emitted + skipped != records read', dict(d0, tally=tally, emitted=len(lines)),
             pick[0], ce3)
    # per gene, the emitted records are the converted valid rows in input order
    per_gene = {}
    for r, rec in zip(pick, recs):
        if not valid(r):
            continue
        m, o = real_convert(rec, C.anno, rs, re_)
        if m is not None:
            per_gene.setdefault(r.g.id, []).append((r, o))
        elif r.kind == 'exons':
            viol('a valid exon-subset row was skipped', dict(d0, real=o), r, ce3)
    got = {}
    for ln, m in zip(lines, models):
        got.setdefault(m.gene_id, []).append((canon_line(ln), m))
    for gid in set(per_gene) | set(got):
        e = [o for _, o in per_gene.get(gid, [])]
        g_ = [o for o, _ in got.get(gid, [])]
        if e != g_:
            viol('the emitted records of a gene are not the converted valid rows in input order',
                 dict(d0, gene=gid, emitted=g_, expected=e), pick[0], ce3)
            continue
        for (r, _), (_, m) in zip(per_gene[gid], got[gid]):
            check_record(ctx, viol, r, m, a.chroms[r.g.chrom], C.gene_seq[gid], ce3,
                         'parse_circexplorer + circ.io.parse')
            # suspect: INTRON indices are written 0-based, the reader tests j+1
            if r.ctype == 'ciRNA':
                types = [str(f.type) for f in m.fragments]
                ctx.count('run', 'cirna_reread')
                if types != ['intron'] * len(types):
                    viol('ciRNA: the parser marks fragment 0 as intron by writing INTRON=0 '
                         '(0-based block index) but the GVF reader tests `j+1 in introns`, so '
                         'the fragment is read back as type exon',
                         {'intron_attr': list(m.intron), 'types_after_reading': types}, r, ce3,
                         key=KF_INTRON)
    order = [C.rank[m.gene_id] for m in models]
    if order != sorted(order):
        viol('emitted records are not ordered by gene rank', dict(d0, ranks=order), pick[0], ce3)


def valid_stream(ctx, S):
    from moPepGen.parser.CIRCexplorerParser import CIRCexplorer2KnownRecord, \
        CIRCexplorer3KnownRecord
    base = dict(chrom='c', start=0, end=1, name='n', score=0.0, strand='+', thick_start=0,
                thick_end=0, item_rgb=[0, 0, 0], exon_count=1, exon_sizes=[1], exon_offsets=[0],
                circ_type='circRNA', gene_name='g', isoform_name='t', index=[1], flank_intron='')
    vals = [0, 500, 1000, 1500]
    thr = [None, 0, 500, 1000, 1500]
    for reads in range(4):
        for mr in range(4):
            r2 = CIRCexplorer2KnownRecord(read_number=reads, **base)
            out = '1' if r2.is_valid(mr) else '0'
            S['valid'].append((f'C17\tvalid\t0\t{mr}\t.\t.\t{reads}\t0\t0', out,
                               (0, None, False, None)))
            for fpb in vals:
                for sc in vals:
                    r3 = CIRCexplorer3KnownRecord(read_number=reads, fpb_circ=float(milli(fpb)),
                                                  fpb_linear=0.5, circ_score=float(milli(sc)),
                                                  **base)
                    for mf in thr:
                        for ms in thr:
                            a = None if mf is None else float(milli(mf))
                            b = None if ms is None else float(milli(ms))
                            out = '1' if r3.is_valid(mr, a, b) else '0'
                            f = lambda v: '.' if v is None else str(v)
                            S['valid'].append((
                                f'C17\tvalid\t1\t{mr}\t{f(mf)}\t{f(ms)}\t{reads}\t{fpb}\t{sc}',
                                out, (0, None, True, None)))


def flush(ctx, S, annos):
    def describe(o):
        d = {'case': o[0], 'ce3': o[2], 'options_or_ranges': o[3]}
        if o[1] is not None:
            d.update(o[1].desc(o[2]))
        if len(o) > 4:
            d['rows'] = o[4]
        a = annos.get(o[0])
        if a is not None:
            d.update(a.desc(full=True))
        return d
    for s in STREAMS:
        if not S[s]:
            continue
        if s in ('conv', 'bad'):
            nt = lambda o: True
        elif s == 'run':
            nt = lambda o: '#' in o and not o.endswith('#')
        elif s == 'lookup':
            nt = lambda o: any(ch.isdigit() for ch in o)
        else:
            nt = lambda o: len(o) > 0
        ctx.diff_stream(s, S[s], s in OBSERVABLE, describe, nt, WHAT.get(s, ''))
        S[s] = []


def run(ctx: common.Ctx):
    sys.path.insert(0, common.REPO)
    ctx.coverage['rule'] = (
        'annotations from the C11 generator (both strands, 1-8 exons incl. 1-base exons and '
        '1-base introns, 1-4 isoforms) x ALL non-empty exon subsets of every transcript with <= 6 '
        'exons (all contiguous runs + 30 random subsets above) as circRNA rows x every intron x '
        'start shift -3..3 x end shift -3..3 (+ two short lariats) as ciRNA rows x 8 tolerance '
        'range pairs, CIRCexplorer2 and CIRCexplorer3 text alternating per annotation, read through '
        'the real parser; CLI runs with read thresholds 1..5 against reads 1..5 (equal included) and '
        'fpb / score thresholds None, 0, at, above; non-trivial = every conversion case, every run '
        'that emitted at least one record')
    ctx.coverage['exhaustive'] = False
    ctx.coverage['exhaustive_per_annotation'] = True
    S = {s: [] for s in STREAMS}
    annos = {}
    valid_stream(ctx, S)
    n = ctx.n(110, 1200)
    for i in range(n):
        rng = ctx.rng('anno', i)
        a = c11.gen_annotation(rng, ngenes=rng.randint(1, 3), case=i)
        annos[i] = a
        ctx.count('conv', 'annotations')
        process_case(ctx, i, a, S, rng)
        if i % 15 == 14:
            flush(ctx, S, annos)
            annos.clear()
    nb = ctx.n(40, 350)
    for i in range(nb):
        rng = ctx.rng('bad', i)
        a = c11.gen_annotation(rng, ngenes=rng.randint(1, 2), case=50000 + i)
        annos[50000 + i] = a
        process_case(ctx, 50000 + i, a, S, rng, bad=True)
    flush(ctx, S, annos)
    ctx.assumptions += [
        'transcript strand = gene strand (GTF invariant; SeqFeature equality also compares strands)',
        'row fields are non-negative integers; floats only as decimal text with 3 digits '
        '(compared, never added)',
        'Python sorted() = stable sort by SeqFeature.__lt__ (modelled by List.mergeSort)',
        'the gene sequence is the C11 model geneSeq (C11 geneSeq_pointwise); Bio.Seq slicing / '
        'concatenation modelled by List.drop/take/append',
        'GVF text codec of the emitted line is C13; here the line is compared field by field',
    ]


def replay(ctx, data):
    """re-run one stored row through the real convert_to_circ_rna and print the outcome"""
    sys.path.insert(0, common.REPO)
    rp = data.get('replay', data)
    case = rp.get('case', rp)
    gtf_text = case.get('gtf')
    genome = case.get('genome')
    row = case.get('row')
    print({'what': data.get('what'), 'row': row})
    if not gtf_text or not row:
        return 2
    from moPepGen import gtf
    from moPepGen.parser import CIRCexplorerParser
    tmp = tempfile.mkdtemp(prefix='c17r_')
    try:
        p = os.path.join(tmp, 'a.gtf')
        open(p, 'w').write(gtf_text)
        q = os.path.join(tmp, 'rows.txt')
        open(q, 'w').write(row + '\n')
        ce3 = len(row.split('\t')) > 18
        anno = gtf.GenomicAnnotation()
        anno.dump_gtf(p)
        for rec in CIRCexplorerParser.parse(Path(q), ce3):
            tols = list(TOLERANCES[:2])
            stored = case.get('options_or_ranges') or rp.get('ranges')
            if isinstance(stored, (list, tuple)) and len(stored) == 2:
                tols.insert(0, (tuple(stored[0]), tuple(stored[1])))
            elif isinstance(stored, dict) and 'rs' in stored:
                tols.insert(0, (tuple(stored['rs']), tuple(stored['re'])))
            for rs, re_ in tols:
                m, out = real_convert(rec, anno, rs, re_)
                print(f'ranges={rs},{re_} -> {out}')
                if m is not None and genome:
                    gm = anno.genes[m.gene_id]
                    ch = genome[gm.chrom]
                    s = ch[gm.location.start:gm.location.end]
                    print('fragments', [(int(f.location.start), int(f.location.end))
                                        for f in m.fragments], 'gene_seq_len', len(s))
    finally:
        shutil.rmtree(tmp, ignore_errors=True)
    return 1
