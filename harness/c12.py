"""C12 — index directory: each parameter set maps to its own, faithful data.

The REAL command functions (`moPepGen.cli.generate_index`, `cli.update_index`,
`cli.common.load_references(index_dir=…)`) are run on real directories under a
temporary root; every operation history of an alphabet is explored as a prefix
tree (the directory is snapshotted with `shutil.copytree`, so an operation is
executed once per prefix).  After every operation the harness records

  * the result class of the operation (`ok`, `reject:<class>`, `crash:<Type>`),
  * the canonicalised `metadata.json`,
  * the directory listing with the content class of every file,

and the native Lean driver (`Model/IndexDir.lean`, the model the theorems of
`Props/C12.lean` are about) must print the same line.  Independently of the
model, every successful load is compared with the pool that
`create_unique_peptide_pool` returns for the REQUESTED arguments on the reference
of the last completed `generateIndex`, and with the reference payloads
(`ctx.add_violation` when they differ).

Streams
  exh      all histories <= L over {gen,upd} x {force} x P, load x P, tamper   (observable)
  alias    histories over parameter spellings that are the same key after
           CleavageParams ('auto' / explicit / None, 500 / 500.0)              (observable)
  symlink  histories with generateIndex --gtf-symlink                          (observable)
  refs     histories over two different reference sets                         (observable)
  version  tampered `version` objects x every operation                        (observable)
  long     seeded random histories of length 6..12 over the union alphabet     (observable)
  gate     every tampered `version` object x load_references with EVERY combination of
           load_genome / load_canonical_peptides / load_proteome (+ the call shapes of
           splitFasta / summarizeFasta / invalid_protein_as_noncoding) x parseVEP and
           parseREDItools with --index-dir, then the same calls after the matching
           metadata is restored; expected verdict = Lean `isValid` (the hypothesis of
           `version_gate`): not valid => rejected by every call, valid => loads   (observable)
  valid    MetaVersion.is_valid / get_semver vs the model on a grid            (internal)
"""
from __future__ import annotations
import argparse
import hashlib
import io
import itertools
import json
import multiprocessing as mp
import os
import pickle
import shutil
import sys
import tempfile
from pathlib import Path

from . import common

# ----------------------------------------------------------------- parameters
# raw arguments: (enzyme, exception, miscleavage, min_mw, min_length, max_length)
P_TRYP = ('trypsin', 'auto', 2, 500.0, 7, 25)
P_LYSC = ('lysc', 'auto', 2, 500.0, 7, 25)
P_MISC = ('trypsin', 'auto', 1, 500.0, 7, 25)
A_TRYP_EXPL = ('trypsin', 'trypsin_exception', 2, 500.0, 7, 25)
A_TRYP_NONE = ('trypsin', None, 2, 500.0, 7, 25)
A_LYSC_NONE = ('lysc', None, 2, 500.0, 7, 25)
A_TRYP_INT = ('trypsin', 'trypsin_exception', 2, 500, 7, 25)      # 500 == 500.0
A_TRYP_MW = ('trypsin', 'trypsin_exception', 2, 1200.5, 7, 25)
# an EXPLICIT exception with another enzyme is its own parameter set (lysc must not cut the K of
# CKD / DKD / CKH / CKY; gen_protein plants those contexts, so the pool differs from lysc alone)
A_LYSC_EXC = ('lysc', 'trypsin_exception', 2, 500.0, 7, 25)
# zero-valued parameters are values, not "unset" (miscleavage 0 vs the constructor default 2,
# min_mw 0 vs 500)
A_MISC0 = ('trypsin', 'auto', 0, 500.0, 7, 25)
A_MW0 = ('trypsin', 'auto', 2, 0.0, 7, 25)
ALL_PARAMS = [P_TRYP, P_LYSC, P_MISC, A_TRYP_EXPL, A_TRYP_NONE, A_LYSC_NONE, A_TRYP_INT,
              A_TRYP_MW, A_LYSC_EXC, A_MISC0, A_MW0]
# graph options of the calling commands (callVariant --max-variants-per-node …): not part of
# the key a pool is registered under; a load that carries non-default ones must find the pool
GRAPH_OPTS = [dict(max_variants_per_node=(5,), additional_variants_per_misc=(1,)),
              dict(min_nodes_to_collapse=20, naa_to_collapse=3),
              dict(max_variants_per_node=(9,), additional_variants_per_misc=(4,),
                   min_nodes_to_collapse=10, naa_to_collapse=8)]


def mw_milli(x) -> int:
    v = round(float(x) * 1000)
    if abs(float(x) * 1000 - v) > 1e-6:
        raise ValueError(f'min_mw {x} not representable in 1/1000 Da')
    return int(v)


def enc_params(p) -> str:
    enz, exc, misc, mw, mn, mx = p
    return f'{enz},{exc if exc is not None else "-"},{int(misc)},{mw_milli(mw)},{int(mn)},{int(mx)}'


def enc_op(op) -> str:
    k = op[0]
    if k == 'gen':
        _, r, p, force, symlink = op
        return f'gen:{r}:{int(force)}:{int(symlink)}:{enc_params(p)}'
    if k == 'upd':
        _, p, force = op
        return f'upd:{int(force)}:{enc_params(p)}'
    if k == 'load':
        # op[2] (graph options of the caller, if any) is not part of the modelled key
        return f'load:{enc_params(op[1])}'
    if k == 'tamper':
        _, py, bio, mpg = op
        return f'tamper:{py}:{bio}:{mpg}'
    raise ValueError(op)


def op_json(op):
    return [list(x) if isinstance(x, tuple) else x for x in op]


# ------------------------------------------------------------------ reference
CODON = {'A': 'GCT', 'C': 'TGT', 'D': 'GAT', 'E': 'GAA', 'F': 'TTT', 'G': 'GGT', 'H': 'CAT',
         'I': 'ATT', 'K': 'AAA', 'L': 'CTG', 'M': 'ATG', 'N': 'AAT', 'P': 'CCT', 'Q': 'CAA',
         'R': 'CGT', 'S': 'TCT', 'T': 'ACT', 'V': 'GTT', 'W': 'TGG', 'Y': 'TAT'}
COMP = str.maketrans('ACGT', 'TGCA')


def revcomp(s):
    return s.translate(COMP)[::-1]


def gen_protein(rng, n):
    """motif-rich protein: plain K/R sites, proline blocks, and the four
    trypsin_exception contexts (CKD, DKD, CKH/CKY, CRK, RRH/RRR)"""
    motifs = ['CKD', 'DKD', 'CKY', 'CKH', 'CRK', 'RRH', 'RRR', 'KP', 'RP', 'K', 'R', 'K', 'R']
    s = 'M'
    while len(s) < n:
        if rng.random() < 0.35:
            s += rng.choice(motifs)
        else:
            s += ''.join(rng.choice('ADEFGHILNQSTVWY') for _ in range(rng.randint(2, 7)))
    return s


def write_reference(root: Path, rid: int, rng) -> dict:
    """Two genes on chr1 (gene 1: '+' strand, one exon; gene 2: '-' strand, two exons),
    written with the harness's own GTF / FASTA writers (GENCODE flavour)."""
    d = root / f'ref{rid}'
    d.mkdir()
    p1 = gen_protein(rng, 70)
    p2 = gen_protein(rng, 60)
    cds1 = ''.join(CODON[a] for a in p1) + 'TAA'
    cds2 = ''.join(CODON[a] for a in p2) + 'TGA'
    rnd = lambda n: ''.join(rng.choice('ACGT') for _ in range(n))
    pad0, utr5, utr3, pad1 = rnd(30), rnd(12), rnd(15), rnd(40)
    g1_start = len(pad0) + 1
    tx1 = utr5 + cds1 + utr3
    g1_end = g1_start + len(tx1) - 1
    # gene 2, minus strand: transcript (5'->3') = u5 + cds2 + u3, split in two exons
    u5b, u3b = rnd(9), rnd(11)
    tx2 = u5b + cds2 + u3b
    cut = len(u5b) + 3 * 20 + 1          # exon boundary inside the CDS
    ex_a, ex_b = tx2[:cut], tx2[cut:]    # transcript order
    intron = rnd(25)
    # genomic (+) layout: revcomp(ex_b) intron revcomp(ex_a)
    g2_start = g1_end + len(pad1) + 1
    seg = revcomp(ex_b) + intron + revcomp(ex_a)
    g2_end = g2_start + len(seg) - 1
    genome = pad0 + tx1 + pad1 + seg + rnd(30)
    with open(d / 'genome.fasta', 'w') as fh:
        fh.write('>chr1\n')
        for i in range(0, len(genome), 60):
            fh.write(genome[i:i + 60] + '\n')
    # ids are specific to the reference set, so every payload file identifies its origin
    g1, t1, q1 = (f'ENS{c}0000{rid}000001.1' for c in 'GTP')
    g2, t2, q2 = (f'ENS{c}0000{rid}000002.1' for c in 'GTP')

    def attrs(g, t=None, q=None, extra=''):
        s = f'gene_id "{g}"; '
        if t:
            s += f'transcript_id "{t}"; '
        s += 'gene_type "protein_coding"; gene_name "G"; '
        if t:
            s += 'transcript_type "protein_coding"; transcript_name "T"; '
        if q:
            s += f'protein_id "{q}"; '
        return s + extra + 'level 2;'

    L = []

    def rec(feat, a, b, strand, frame, at):
        L.append(f'chr1\tHAVANA\t{feat}\t{a}\t{b}\t.\t{strand}\t{frame}\t{at}')
    rec('gene', g1_start, g1_end, '+', '.', attrs(g1))
    rec('transcript', g1_start, g1_end, '+', '.', attrs(g1, t1, q1, 'tag "basic"; '))
    rec('exon', g1_start, g1_end, '+', '.', attrs(g1, t1, q1, 'exon_number 1; '))
    c_a = g1_start + len(utr5)
    rec('CDS', c_a, c_a + len(cds1) - 4, '+', '0', attrs(g1, t1, q1, 'exon_number 1; '))
    rec('start_codon', c_a, c_a + 2, '+', '0', attrs(g1, t1, q1))
    rec('stop_codon', c_a + len(cds1) - 3, c_a + len(cds1) - 1, '+', '0', attrs(g1, t1, q1))
    rec('gene', g2_start, g2_end, '-', '.', attrs(g2))
    rec('transcript', g2_start, g2_end, '-', '.', attrs(g2, t2, q2, 'tag "basic"; '))
    exa_start = g2_end - len(ex_a) + 1
    exb_end = g2_start + len(ex_b) - 1
    rec('exon', exa_start, g2_end, '-', '.', attrs(g2, t2, q2, 'exon_number 1; '))
    rec('CDS', exa_start, g2_end - len(u5b), '-', '0', attrs(g2, t2, q2, 'exon_number 1; '))
    rec('exon', g2_start, exb_end, '-', '.', attrs(g2, t2, q2, 'exon_number 2; '))
    n_cds_a = len(ex_a) - len(u5b)
    frame_b = (3 - n_cds_a % 3) % 3
    rec('CDS', g2_start + len(u3b) + 3, exb_end, '-', str(frame_b),
        attrs(g2, t2, q2, 'exon_number 2; '))
    if rid % 2 == 1:
        # an assembled (StringTie-style) isoform appended to the reference annotation: transcript and
        # exon records with their own gene_id but NO gene record (the annotation loaded from an
        # index must still know it)
        g3, t3 = f'MSTRG.{rid}', f'MSTRG.{rid}.1'
        at3 = f'gene_id "{g3}"; transcript_id "{t3}"; '
        n_a, n_b = g2_end + 6, g2_end + 14
        L.append(f'chr1\tStringTie\ttranscript\t{n_a}\t{n_b + 8}\t.\t+\t.\t{at3}')
        L.append(f'chr1\tStringTie\texon\t{n_a}\t{n_a + 5}\t.\t+\t.\t{at3}exon_number "1";')
        L.append(f'chr1\tStringTie\texon\t{n_b}\t{n_b + 8}\t.\t+\t.\t{at3}exon_number "2";')
    with open(d / 'annotation.gtf', 'w') as fh:
        fh.write('\n'.join(L) + '\n')
    with open(d / 'proteome.fasta', 'w') as fh:
        fh.write(f'>{q1}|{t1}|{g1}|OTTHUMG1|OTTHUMT1|G-201|G|{len(p1)}\n{p1}\n')
        fh.write(f'>{q2}|{t2}|{g2}|OTTHUMG2|OTTHUMT2|G-202|G|{len(p2)}\n{p2}\n')
    # a site inside the CDS of gene 1 ('+' strand) for the tiny parseVEP / parseREDItools inputs
    site = c_a + 10
    return {'dir': str(d), 'proteins': [p1, p2],
            'site': {'gene': g1, 'tx': t1, 'pos': site, 'ref': genome[site - 1]}}


# ------------------------------------------------------- real-code adapters
_W = {}      # per-process world: refs, direct pools, pristine payloads


def fp_pool(pool) -> str:
    return hashlib.sha1('\n'.join(sorted(pool)).encode()).hexdigest()[:10]


def canon_seqdict(d):
    return sorted((str(k), str(v.seq)) for k, v in d.items())


def canon_anno(anno):
    out = []
    for tx_id in sorted(anno.transcripts.keys()):
        m = anno.transcripts[tx_id]
        feats = []
        for name in ('exon', 'cds', 'utr'):
            for f in getattr(m, name, []) or []:
                feats.append((name, int(f.location.start), int(f.location.end),
                              f.location.strand, getattr(f, 'frame', None)))
        t = m.transcript
        out.append((tx_id, t.gene_id, int(t.location.start), int(t.location.end),
                    t.location.strand, bool(m.is_protein_coding), tuple(feats),
                    bool(m.is_cds_start_nf())))
    genes = sorted((g, int(anno.genes[g].location.start), int(anno.genes[g].location.end),
                    tuple(anno.genes[g].transcripts)) for g in anno.genes.keys())
    return (tuple(out), tuple(genes))


def ns_base(**kw):
    a = argparse.Namespace(quiet=True, reference_source=None,
                           invalid_protein_as_noncoding=False, debug_level=1)
    for k, v in kw.items():
        setattr(a, k, v)
    return a


def set_cleavage(a, p):
    a.cleavage_rule, a.cleavage_exception, a.miscleavage, a.min_mw, a.min_length, \
        a.max_length = p


def init_world(refs):
    """executed once per process: direct (index-free) reference objects and pools"""
    if _W.get('refs') is refs or _W.get('refdirs') == [r['dir'] for r in refs]:
        return
    sys.path.insert(0, common.REPO)
    from moPepGen import gtf, aa, dna
    _W.clear()
    _W['refdirs'] = [r['dir'] for r in refs]
    _W['direct'] = {}
    _W['payload'] = {}
    for rid, r in enumerate(refs):
        d = Path(r['dir'])
        proteome = aa.AminoAcidSeqDict()
        proteome.dump_fasta(d / 'proteome.fasta', source=None)
        if rid % 2 == 1:
            # the in-memory parser rejects a transcript whose gene has no record; the commands read
            # GTFs through the on-disk annotation (a private copy: the index files it writes next
            # to the GTF must not become part of the reference)
            priv = d / 'direct'
            priv.mkdir(exist_ok=True)
            shutil.copy(d / 'annotation.gtf', priv / 'annotation.gtf')
            anno = gtf.GenomicAnnotationOnDisk()
            anno.generate_index(priv / 'annotation.gtf', source=None)
        else:
            anno = gtf.GenomicAnnotation()
            anno.dump_gtf(d / 'annotation.gtf', source=None)
        anno.check_protein_coding(proteome, False)
        genome = dna.DNASeqDict()
        genome.dump_fasta(d / 'genome.fasta')
        for p in ALL_PARAMS:
            # a fresh proteome each time: create_unique_peptide_pool may edit records
            pr = aa.AminoAcidSeqDict()
            pr.dump_fasta(d / 'proteome.fasta', source=None)
            # the documented meaning of --cleavage-exception auto (CleavageParams):
            # trypsin -> trypsin_exception, any other enzyme -> no exception
            exc = p[1]
            if exc == 'auto':
                exc = 'trypsin_exception' if p[0] == 'trypsin' else None
            pool = pr.create_unique_peptide_pool(
                anno=anno, rule=p[0], exception=exc, miscleavage=int(p[2]),
                min_mw=float(p[3]), min_length=int(p[4]), max_length=int(p[5]))
            _W['direct'][(rid, enc_params(p), p[1])] = fp_pool(pool)
        _W['payload'][rid] = {
            'genome': canon_seqdict(genome), 'proteome': canon_seqdict(proteome),
            'anno': canon_anno(anno),
            'coding': sorted(t for t, m in anno.transcripts.items() if m.is_protein_coding),
            'gtf': open(d / 'annotation.gtf').read(),
        }


def direct_fp(rid, p):
    return _W['direct'][(rid, enc_params(p), p[1])]


def pool_table(nrefs) -> str:
    ents = []
    for rid in range(nrefs):
        for p in ALL_PARAMS:
            ents.append(f'{rid},{rid},{enc_params(p)}={direct_fp(rid, p)}')
    return ';'.join(sorted(set(ents)))


def apply_op(d: Path, op):
    """run ONE real invocation on directory d. Returns (result class, loaded-or-None)"""
    from moPepGen import cli, err, params
    from moPepGen.cli import common as mc
    k = op[0]
    try:
        if k == 'gen':
            _, rid, p, force, symlink = op
            rd = Path(_W['refdirs'][rid])
            a = ns_base(command='generateIndex', genome_fasta=rd / 'genome.fasta',
                        annotation_gtf=rd / 'annotation.gtf',
                        proteome_fasta=rd / 'proteome.fasta', gtf_symlink=bool(symlink),
                        force=bool(force), output_dir=d)
            set_cleavage(a, p)
            cli.generate_index(a)
            return 'ok', None
        if k == 'upd':
            _, p, force = op
            a = ns_base(command='updateIndex', index_dir=d, force=bool(force))
            set_cleavage(a, p)
            cli.update_index(a)
            return 'ok', None
        if k == 'load':
            p = op[1]
            a = ns_base(command='callVariant', index_dir=d)
            set_cleavage(a, p)
            # as cli.call_variant_peptide builds it
            cp = params.CleavageParams(enzyme=p[0], exception=p[1], miscleavage=int(p[2]),
                                       min_mw=p[3], min_length=p[4], max_length=p[5],
                                       **(GRAPH_OPTS[op[2]] if len(op) > 2 else {}))
            genome, anno, proteome, pool = mc.load_references(
                a, load_genome=True, load_canonical_peptides=True, load_proteome=True,
                cleavage_params=cp)
            return 'ok', {'pool': pool, 'genome': genome, 'anno': anno, 'proteome': proteome}
        if k == 'tamper':
            _, py, bio, mpg = op
            mf = d / 'metadata.json'
            if mf.exists():
                data = json.load(open(mf))
                data['version'] = {'python': py or None, 'biopython': bio or None,
                                   'mopepgen': mpg or None}
                with open(mf, 'w') as fh:
                    json.dump(data, fh, indent=2)
            return 'ok', None
    except SystemExit:
        return 'reject:exists', None
    except err.InvalidIndexError:
        return 'reject:bad-version', None
    except ValueError as e:
        if 'No canonical peptide pool match' in str(e):
            return 'reject:no-pool', None
        return 'crash:ValueError', None
    except Exception as e:      # noqa: BLE001  every other exception is a crash class
        return f'crash:{type(e).__name__}', None
    raise ValueError(op)


def classify_data(name: str, path: Path) -> str:
    """which reference set a payload file was made from (d<r>), '?' if none"""
    try:
        if name == 'annotation.gtf':
            txt = open(path).read()
            for rid, pl in _W['payload'].items():
                if txt == pl['gtf']:
                    return f'l{rid}' if os.path.islink(path) else f'd{rid}'
            return '?'
        if name in ('annotation_gene.idx', 'annotation_tx.idx'):
            # pointers into annotation.gtf: judged through load_annotation below
            return 'idx'
        obj = pickle.load(open(path, 'rb'))
        key = {'genome.pkl': 'genome', 'proteome.pkl': 'proteome',
               'coding_transcripts.pkl': 'coding'}[name]
        c = sorted(obj) if key == 'coding' else canon_seqdict(obj)
        for rid, pl in _W['payload'].items():
            if c == pl[key]:
                return f'd{rid}'
        return '?'
    except Exception as e:      # noqa: BLE001
        return f'?{type(e).__name__}'


def observe_dir(d: Path) -> str:
    """canonical metadata + listing, in the driver's format"""
    if not d.exists():
        return 'none # '
    mf = d / 'metadata.json'
    if mf.exists():
        # metadata.json is output of the code under test: a record that lacks a key, or is not
        # JSON at all, is reported in the line (the model then disagrees), never a harness crash
        try:
            data = json.load(open(mf))
            v = data['version']
            ents = []
            for it in data['canonical_pools']:
                c = it['cleavage_params']
                missing = [k for k in ('enzyme', 'exception', 'miscleavage', 'min_mw', 'min_length',
                                       'max_length') if k not in c]
                if missing:
                    ents.append(f"{it.get('filename')},{it.get('index')},MISSING-KEYS:{'+'.join(missing)}")
                    continue
                p = (c['enzyme'], c['exception'], c['miscleavage'], c['min_mw'], c['min_length'],
                     c['max_length'])
                ents.append(f"{it['filename']},{it['index']},{enc_params(p)}")
            src = '-' if data['source'] is None else 's'
            meta = (f"{v['python'] or ''}|{v['biopython'] or ''}|{v['mopepgen'] or ''}|{src}|"
                    + ';'.join(ents))
        except Exception as e:      # noqa: BLE001
            meta = f'unreadable-metadata:{type(e).__name__}'
    else:
        meta = 'none'
    items = []
    anno_ref = None
    names = sorted(os.listdir(d))
    for name in names:
        if name == 'metadata.json':
            continue
        path = d / name
        if name.startswith('canonical_peptides_'):
            try:
                c = 'p' + fp_pool(pickle.load(open(path, 'rb')))
            except Exception as e:      # noqa: BLE001
                c = f'?{type(e).__name__}'
        else:
            c = classify_data(name, path)
            if name == 'annotation.gtf':
                anno_ref = c
        items.append([name, c])
    # the two .idx files belong to the GTF copy they point into
    for it in items:
        if it[1] == 'idx':
            it[1] = ('d' + anno_ref[1:]) if anno_ref and anno_ref[0] in 'dl' else '?'
    return meta + ' # ' + ','.join(sorted(f'{n}={c}' for n, c in items))


def show_loaded(x, d: Path) -> str:
    """ok:pool=…,genome=…,anno=…,src=…,prot=… in the driver's format"""
    def which(key, c):
        for rid, pl in _W['payload'].items():
            if c == pl[key]:
                return f'd{rid}'
        return '?'
    try:
        an = canon_anno(x['anno'])
    except Exception as e:      # noqa: BLE001
        an = f'?{type(e).__name__}'
    # metadata.source reaches the loaded annotation as the `source` of its pointers
    srcs = {x['anno'].transcripts.get_pointer(t).source for t in x['anno'].transcripts.keys()}
    src = '-' if srcs <= {None} else 's'
    return (f"ok:pool=p{fp_pool(x['pool'])},genome={which('genome', canon_seqdict(x['genome']))},"
            f"anno={which('anno', an)},src={src},prot={which('proteome', canon_seqdict(x['proteome']))}")


ALIAS = {'auto': 'trypsin_exception', 'trypsin_exception': 'auto'}


def explore(task):
    """Worker: run `prefix` from an empty directory, then every history that extends it by
    at most `depth` ops of `alphabet`.  Returns (cases, violations)."""
    import logging
    logging.disable(logging.CRITICAL)
    refs, stream, prefix, alphabet, depth, tmproot = task
    init_world(refs)
    root = Path(tempfile.mkdtemp(prefix=f'c12_{stream}_', dir=tmproot))
    cases, viols = [], []
    counter = itertools.count()
    try:
        def do(d: Path, hist, last_ref, op):
            res, loaded = apply_op(d, op)
            hist = hist + [op]
            if op[0] == 'gen' and res == 'ok':
                last_ref = op[1]
            if loaded is not None:
                out = show_loaded(loaded, d)
                # ---- the property itself, on the real objects
                want = direct_fp(last_ref, op[1]) if last_ref is not None else None
                got = fp_pool(loaded['pool'])
                if want != got:
                    p = op[1]
                    key = None
                    if last_ref is not None and p[0] == 'trypsin' and p[1] in ALIAS:
                        q = (p[0], ALIAS[p[1]]) + tuple(p[2:])
                        if q in ALL_PARAMS and direct_fp(last_ref, q) == got:
                            key = 'auto-exception-pool'
                    viols.append((
                        'load_references returned a canonical pool that is not the pool '
                        'create_unique_peptide_pool computes for the requested arguments',
                        {'stream': stream, 'ops': [op_json(o) for o in hist],
                         'requested': list(p), 'loaded_fp': got, 'expected_fp': want,
                         'reference_proteins': refs[last_ref]['proteins']
                         if last_ref is not None else None}, key))
                pl = _W['payload'].get(last_ref)
                if pl is not None:
                    bad = []
                    if canon_seqdict(loaded['genome']) != pl['genome']:
                        bad.append('genome')
                    if canon_seqdict(loaded['proteome']) != pl['proteome']:
                        bad.append('proteome')
                    try:
                        if canon_anno(loaded['anno']) != pl['anno']:
                            bad.append('annotation')
                    except Exception as e:      # noqa: BLE001
                        bad.append(f'annotation({type(e).__name__})')
                    try:
                        from moPepGen.index import IndexDir
                        if sorted(IndexDir(d).load_coding_tx()) != pl['coding']:
                            bad.append('coding_transcripts')
                    except Exception as e:      # noqa: BLE001
                        bad.append(f'coding_transcripts({type(e).__name__})')
                    if bad:
                        viols.append((
                            'payload loaded from the index differs from the reference it was '
                            'generated from: ' + ','.join(bad),
                            {'stream': stream, 'ops': [op_json(o) for o in hist],
                             'differs': bad}, None))
            else:
                out = res
            real = out + ' # ' + observe_dir(d)
            cases.append((';'.join(enc_op(o) for o in hist), real, [op_json(o) for o in hist]))
            return hist, last_ref

        def rec(d: Path, hist, last_ref, left):
            if left == 0:
                return
            for op in alphabet:
                child = root / f'n{next(counter)}'
                if d.exists():
                    shutil.copytree(d, child, symlinks=True)
                h2, lr2 = do(child, hist, last_ref, op)
                rec(child, h2, lr2, left - 1)
                shutil.rmtree(child, ignore_errors=True)

        d0 = root / 'start'
        hist, last_ref = [], None
        for op in prefix:
            hist, last_ref = do(d0, hist, last_ref, op)
        rec(d0, hist, last_ref, depth)
    finally:
        shutil.rmtree(root, ignore_errors=True)
    return cases, viols


# ------------------------------------------------- version gate x load flags x commands
GATE_PREFIX = [('gen', 0, P_TRYP, False, False), ('upd', P_LYSC, False)]
# (load_genome, load_canonical_peptides, load_proteome, extra keyword arguments)
GATE_CALLS = [(lg, lc, lp, {}) for lg in (True, False) for lc in (True, False)
              for lp in (True, False)] + [
    (False, False, True, {'check_protein_coding': True}),       # cli.split_fasta
    (False, False, False, {'check_protein_coding': True}),      # cli.summarize_fasta
    (True, False, False, {'invalid_protein_as_noncoding': True}),
]


def gate_call_name(c):
    if isinstance(c, str):
        return c + ' --index-dir'
    lg, lc, lp, kw = c
    return (f'load_references(load_genome={lg}, load_canonical_peptides={lc}, load_proteome={lp}'
            + ''.join(f', {k}={v}' for k, v in kw.items()) + ')')


def gate_apply(d: Path, c, site, work: Path):
    """ONE real call on the index directory d -> 'valid' (loaded / command completed),
    'invalid' (err.InvalidIndexError), 'crash:ValueError' (get_semver), anything else as is;
    problems with what a successful call hands out are appended after '!'"""
    from moPepGen import cli, err, params
    from moPepGen.cli import common as mc
    out = work / 'out.gvf'
    if out.exists():
        out.unlink()
    notes = []
    try:
        if c == 'parseVEP':
            alt = 'A' if site['ref'] != 'A' else 'C'
            vep = work / 'in.tsv'
            with open(vep, 'w') as fh:
                fh.write('## VEP\n#Uploaded_variation\tLocation\tAllele\n')
                fh.write('\t'.join(['v', f"chr1:{site['pos']}", alt, site['gene'], site['tx'],
                                    'Transcript', 'missense_variant', '-', '-', '-', '-', '-',
                                    '-', 'IMPACT=LOW']) + '\n')
            a = ns_base(command='parseVEP', input_path=[vep], index_dir=d, source='gSNP',
                        genome_fasta=None, proteome_fasta=None, annotation_gtf=None,
                        output_path=out, skip_failed=False)
            cli.parse_vep(a)
        elif c == 'parseREDItools':
            ref = site['ref']
            alt = 'G' if ref != 'G' else 'A'
            bc = [12 if b == ref else (9 if b == alt else 0) for b in 'ACGT']
            tab = work / 'redi.txt'
            with open(tab, 'w') as fh:
                fh.write('Region\tPosition\tReference\tStrand\tCoverage-q30\tMeanQ\t'
                         'BaseCount[A,C,G,T]\tAllSubs\tFrequency\tgCoverage-q\tgMeanQ\t'
                         'gBaseCount[A,C,G,T]\tgAllSubs\tgFrequency\tgencode_feat\tgencode_gid\t'
                         'gencode_tid\n')
                fh.write('\t'.join(['chr1', str(site['pos']), ref, '1', '21', '40.58',
                                    '[' + ', '.join(map(str, bc)) + ']', ref + alt, '0.43',
                                    '25', '30.00', '-', '-', '-', 'transcript', site['gene'],
                                    site['tx'] + '-transcript']) + '\n')
            a = ns_base(command='parseREDItools', source='RNAEditingSite', input_path=tab,
                        transcript_id_column=17, index_dir=d, annotation_gtf=None,
                        output_path=out, min_coverage_alt=3, min_frequency_alt=0.1,
                        min_coverage_rna=10, min_coverage_dna=10)
            cli.parse_reditools(a)
        else:
            lg, lc, lp, kw = c
            a = ns_base(command='load', index_dir=d)
            set_cleavage(a, P_TRYP)
            cp = params.CleavageParams(enzyme=P_TRYP[0], exception=P_TRYP[1],
                                       miscleavage=int(P_TRYP[2]), min_mw=P_TRYP[3],
                                       min_length=P_TRYP[4], max_length=P_TRYP[5]) if lc else None
            genome, anno, proteome, pool = mc.load_references(
                a, load_genome=lg, load_canonical_peptides=lc, load_proteome=lp,
                cleavage_params=cp, **kw)
            pl = _W['payload'][0]
            want_prot = lp or kw.get('invalid_protein_as_noncoding', False)
            for nm, obj, asked in (('genome', genome, lg), ('proteome', proteome, want_prot),
                                   ('pool', pool, lc)):
                if (obj is not None) != asked:
                    notes.append(f'{nm}-{"missing" if asked else "unasked"}')
            if lg and genome is not None and canon_seqdict(genome) != pl['genome']:
                notes.append('genome-differs')
            if want_prot and proteome is not None and canon_seqdict(proteome) != pl['proteome']:
                notes.append('proteome-differs')
            if lc and pool is not None and fp_pool(pool) != direct_fp(0, P_TRYP):
                notes.append('pool-differs')
            if anno is None or canon_anno(anno) != pl['anno']:
                notes.append('annotation-differs')
        if isinstance(c, str):
            recs = [ln for ln in open(out) if not ln.startswith('#')] if out.exists() else None
            if recs is None:
                notes.append('no-output')
            elif len(recs) != 1 or site['tx'] not in recs[0] and site['gene'] not in recs[0]:
                notes.append(f'{len(recs)}-records')
        res = 'valid'
    except err.InvalidIndexError:
        res = 'invalid'
    except ValueError as e:
        res = 'reject:no-pool' if 'No canonical peptide pool match' in str(e) else 'crash:ValueError'
    except Exception as e:      # noqa: BLE001
        res = f'crash:{type(e).__name__}'
    if res != 'valid' and out.exists():
        notes.append('output-written')
    return res + ('!' + ','.join(notes) if notes else '')


def gate_explore(task):
    """Worker: generateIndex + updateIndex, put the version object v into metadata.json, run every
    call of GATE_CALLS and the two parser commands; restore the metadata, run them again.
    Returns [(version shown to the model, real verdict, case description)]"""
    import logging
    logging.disable(logging.CRITICAL)
    refs, _stream, v, tmproot = task
    init_world(refs)
    root = Path(tempfile.mkdtemp(prefix='c12_gate_', dir=tmproot))
    cases = []
    try:
        d = root / 'index'
        for op in GATE_PREFIX:
            res, _ = apply_op(d, op)
            if res != 'ok':
                raise RuntimeError(f'gate: {op} -> {res}')
        work = root / 'work'
        work.mkdir()
        pristine = open(d / 'metadata.json').read()
        site = refs[0]['site']
        for state in ('tampered', 'restored'):
            if state == 'tampered':
                apply_op(d, ('tamper',) + tuple(v))
                shown = tuple(v)
            else:
                with open(d / 'metadata.json', 'w') as fh:
                    fh.write(pristine)
                rec = json.loads(pristine)['version']
                shown = (rec['python'], rec['biopython'], rec['mopepgen'])
            before = observe_dir(d)
            for c in ['parseVEP'] + GATE_CALLS + ['parseREDItools']:
                real = gate_apply(d, c, site, work)
                after = observe_dir(d)
                if after != before:
                    real += '!directory-changed'
                cases.append((shown, real, {
                    'gate': {'recorded_version': {'python': shown[0], 'biopython': shown[1],
                                                  'mopepgen': shown[2]},
                             'metadata': state, 'tamper': list(v), 'call': gate_call_name(c)},
                    'ops': [op_json(o) for o in GATE_PREFIX + [('tamper',) + tuple(v)]],
                    'vep_site': site if isinstance(c, str) else None}))
    finally:
        shutil.rmtree(root, ignore_errors=True)
    return cases


def run_task(task):
    return gate_explore(task) if task[1] == 'gate' else explore(task)


def make_refs(tmproot, rng_of):
    """two reference sets that separate the parameter sets (else a mixed-up pool would be
    invisible); redrawn (deterministically) until they do"""
    for attempt in range(200):
        root = Path(tmproot) / f'refs{attempt}'
        root.mkdir()
        rng = rng_of(attempt)
        refs = [write_reference(root, 0, rng), write_reference(root, 1, rng)]
        init_world(refs)
        ok = direct_fp(0, P_TRYP) != direct_fp(1, P_TRYP)
        for rid in range(2):
            fps = [direct_fp(rid, p) for p in [P_TRYP, P_LYSC, P_MISC, A_TRYP_NONE, A_TRYP_MW]]
            ok = ok and len(set(fps)) == len(fps)
        if ok:
            return refs
    raise RuntimeError('no reference separating the parameter sets in 200 draws')


# -------------------------------------------------------------------- streams
def tree_tasks(refs, stream, alphabet, depth, tmproot, first=None):
    """split the prefix tree on its first operation (and second when deep)"""
    tasks = []
    first = first if first is not None else alphabet
    for a in first:
        if depth >= 4:
            for b in alphabet:
                tasks.append((refs, stream, [a, b], alphabet, depth - 2, tmproot))
        else:
            tasks.append((refs, stream, [a], alphabet, depth - 1, tmproot))
    return tasks


def real_valid(cur, v):
    from moPepGen.version import MetaVersion
    try:
        rec = MetaVersion(python=v[0] or None, biopython=v[1] or None, mopepgen=v[2] or None)
        return 'valid' if MetaVersion().is_valid(rec) else 'invalid'
    except ValueError:
        return 'crash:ValueError'


def run(ctx: common.Ctx):
    sys.path.insert(0, common.REPO)
    import Bio
    import moPepGen
    from moPepGen import version as mver
    cur = ('.'.join(str(x) for x in sys.version_info[:3]), Bio.__version__, moPepGen.__version__)
    minimal = mver.MINIMAL_VERSION
    ver = '|'.join(cur + (minimal,))
    for x in cur + (minimal,):
        if any(c in x for c in '|:;\t'):
            raise RuntimeError('version string collides with the protocol separators')
    tmproot = tempfile.mkdtemp(prefix='verif_c12_', dir='/tmp')
    try:
        refs = make_refs(tmproot, lambda k: ctx.rng('reference', k))
        table = pool_table(len(refs))

        bad_py = ('tamper', '0.0.0', '', '')
        gens = lambda ps, forces=(False, True), syms=(False,), rids=(0,): [
            ('gen', r, p, f, s) for r in rids for p in ps for f in forces for s in syms]
        upds = lambda ps, forces=(False, True): [('upd', p, f) for p in ps for f in forces]
        loads = lambda ps: [('load', p) for p in ps]
        gloads = lambda ps: [('load', p, i % len(GRAPH_OPTS)) for i, p in enumerate(ps)]

        tasks = []
        # exh: the alphabet of DESIGN §4
        ps = [P_TRYP, P_LYSC] if ctx.tier == 'quick' else [P_TRYP, P_LYSC, P_MISC]
        alpha = gens(ps) + upds(ps) + loads(ps) + [bad_py]
        L = ctx.n(3, 4)
        tasks += tree_tasks(refs, 'exh', alpha, L, tmproot)
        ctx.coverage['exh_alphabet'] = len(alpha)
        ctx.coverage['exh_max_len'] = L
        # alias: spellings that are one key after CleavageParams.__init__ / jsonfy
        al = [P_TRYP, A_TRYP_EXPL, A_TRYP_NONE, P_LYSC, A_LYSC_NONE, A_TRYP_INT, A_TRYP_MW]
        alpha = upds(al) + loads(al)
        # a third family: lysc with an explicit exception (its own key), loads that carry graph options
        tasks += tree_tasks(refs, 'alias', upds([P_LYSC, A_LYSC_EXC, P_TRYP], (False,))
                            + loads([P_LYSC, A_LYSC_EXC]) + gloads([P_TRYP, A_LYSC_EXC, P_LYSC]),
                            ctx.n(3, 4), tmproot,
                            first=gens([P_LYSC, A_LYSC_EXC], forces=(False,)))
        tasks += tree_tasks(refs, 'alias', alpha, ctx.n(3, 4), tmproot,
                            first=gens([P_TRYP, A_TRYP_EXPL, A_LYSC_NONE], forces=(False,)))
        # zero-valued parameters next to the defaults they must not be confused with
        zs = [P_TRYP, A_MISC0, A_MW0]
        tasks += tree_tasks(refs, 'alias', upds(zs, (False,)) + loads(zs), ctx.n(3, 4), tmproot,
                            first=gens([A_MISC0, A_MW0, P_TRYP], forces=(False,)))
        # symlink
        alpha = (gens([P_TRYP], syms=(False, True)) + upds([P_TRYP], (True,))
                 + upds([P_LYSC], (False,)) + loads([P_TRYP, P_LYSC]))
        tasks += tree_tasks(refs, 'symlink', alpha, ctx.n(3, 5), tmproot)
        # refs: a forced regenerate from ANOTHER reference must leave nothing of the old one
        alpha = (gens([P_TRYP], rids=(0, 1)) + upds([P_TRYP], (True,))
                 + upds([P_LYSC], (False,)) + loads([P_TRYP, P_LYSC]))
        tasks += tree_tasks(refs, 'refs', alpha, ctx.n(3, 5), tmproot)
        # version: tampered version objects x every kind of operation (+ one follow-up)
        vers = [(cur[0], cur[1], cur[2]), ('0.0.0', cur[1], cur[2]), (cur[0], '0.1', cur[2]),
                (cur[0], cur[1], '1.2.9'), (cur[0], cur[1], minimal), (cur[0], cur[1], '1.3'),
                (cur[0], cur[1], '2'), (cur[0], cur[1], '1.3.0.1'), (cur[0], cur[1], '1.10.0'),
                (cur[0], cur[1], '1.3.0-rc1'), (cur[0], cur[1], '1.2.99-rc1'),
                (cur[0], cur[1], 'abc'), (cur[0], cur[1], '1.x.0'), ('', '', ''),
                ('', cur[1], '0.9.0'), ('0.0.0', cur[1], 'abc'), (cur[0], cur[1], '1..0'),
                (cur[0], cur[1], '01.03.00'), (cur[0], cur[1], '-1.0.0')]
        alpha = (gens([P_TRYP]) + upds([P_TRYP, P_LYSC, P_MISC]) + loads([P_TRYP, P_LYSC]))
        for v in vers:
            tasks.append((refs, 'version',
                          [('gen', 0, P_TRYP, False, False), ('upd', P_LYSC, False),
                           ('tamper',) + v], alpha, 2, tmproot))
        # long: seeded random histories
        union = (gens([P_TRYP, P_LYSC, A_TRYP_NONE], syms=(False, True), rids=(0, 1))
                 + upds(ALL_PARAMS) + loads(ALL_PARAMS) + loads([P_TRYP, P_LYSC])
                 + gloads([P_TRYP, P_LYSC, A_LYSC_EXC])
                 + [('tamper',) + v for v in vers[:6]])
        nlong = ctx.n(150, 3000)
        for i in range(nlong):
            r = ctx.rng('long', i)
            n = r.randint(6, 12)
            ops = [('gen', r.choice((0, 1)), r.choice([P_TRYP, P_LYSC]), False, r.random() < 0.3)]
            # symlink + two references would need pools of mixed references: the histories
            # with --gtf-symlink use one reference only
            sym = any(o[0] == 'gen' and o[4] for o in ops) or r.random() < 0.4
            rid0 = ops[0][1]
            for _ in range(n - 1):
                o = r.choice(union)
                if o[0] == 'gen':
                    if sym:
                        o = ('gen', rid0, o[2], o[3], o[4])
                    else:
                        o = ('gen', o[1], o[2], o[3], False)
                ops.append(o)
            tasks.append((refs, 'long', ops, [], 0, tmproot))

        # gate: every tampered version object x every load-flag combination x parser commands
        for v in vers:
            tasks.append((refs, 'gate', v, tmproot))

        nproc = min(14, os.cpu_count() or 2)
        with mp.get_context('fork').Pool(nproc) as pool:
            results = pool.map(run_task, tasks, chunksize=1)

        gate_cases = []
        for res, task in zip(results, tasks):
            if task[1] == 'gate':
                gate_cases.extend(res)
        results = [r for r, t in zip(results, tasks) if t[1] != 'gate']
        tasks = [t for t in tasks if t[1] != 'gate']

        by_stream = {}
        pending = []
        for (cases, viols), task in zip(results, tasks):
            st = task[1]
            by_stream.setdefault(st, []).extend(cases)
            for what, rp, key in viols:
                ctx.count(st, 'direct_violations')
                pending.append((len(rp['ops']), json.dumps(rp['ops']), what, rp, key))
        for _n, _k, what, rp, key in sorted(pending, key=lambda t: t[:2]):   # shortest first
            ctx.add_violation(what, rp, finding_key=key)
        for st, cases in by_stream.items():
            seen = set()
            uniq = []
            for ops, real, hist in cases:
                if ops in seen:
                    continue
                seen.add(ops)
                uniq.append((f'C12\tseq\t{ver}\t{table}\t{ops}', real, hist))
            uniq.sort(key=lambda c: (len(c[2]), c[0]))     # shortest disagreeing history first
            ctx.diff_stream(
                st, uniq, True, lambda h: {'ops': h},
                lambda o: 'canonical_peptides_' in o,
                f'{st}: result class / metadata / directory content after an operation '
                'history differs from the proved model of the index directory')
            ctx.count(st, 'histories', len(uniq))
            ctx.count(st, 'successful_loads', sum(1 for _, r, _ in uniq if r.startswith('ok:pool')))

        # gate: expected verdict from the Lean model of the version gate (`isValid` on the
        # recorded version, the hypothesis of Props.C12.version_gate): every call must reject a
        # version that is not valid and load a valid one, whatever the load flags / command
        cases = [(f'C12\tvalid\t{ver}\t{sv[0]}\t{sv[1]}\t{sv[2]}', real, obj)
                 for sv, real, obj in gate_cases
                 if not any(ch in ''.join(sv) for ch in '|:;\t')]
        ctx.diff_stream(
            'gate', cases, True, lambda o: o, lambda o: o != 'valid',
            'gate: load_references / a parser command with --index-dir does not treat the index '
            'as the version gate demands (real = what the call did: valid = loaded and handed out '
            'the stored data, invalid = InvalidIndexError; model = verdict of the proved gate on '
            'the versions recorded in metadata.json): an index whose recorded versions do not '
            'match must be rejected by EVERY load, a matching one must load')
        ctx.count('gate', 'tampered_versions', len(vers))
        ctx.count('gate', 'calls_per_version_and_state', len(GATE_CALLS) + 2)
        ctx.count('gate', 'rejected_calls', sum(1 for _l, r, _o in cases if r != 'valid'))
        ctx.count('gate', 'restored_loads', sum(1 for _l, r, o in cases
                                                if o['gate']['metadata'] == 'restored'
                                                and r == 'valid'))

        # valid: MetaVersion.is_valid / get_semver (internal helper)
        comps = ['', '0', '1', '2', '3', '10', '03', 'x', '1a']
        grid = set(v for v in vers)
        for a in comps:
            for b in comps:
                for c in ['', '0', '1', 'rc']:
                    s = '.'.join(x for x in [a, b, c] if x != '') if a else ''
                    grid.add((cur[0], cur[1], s))
                    grid.add((cur[0], cur[1], s + '-rc4'))
        cases = []
        for v in sorted(grid):
            if any(ch in ''.join(v) for ch in '|:;\t'):
                continue
            cases.append((f'C12\tvalid\t{ver}\t{v[0]}\t{v[1]}\t{v[2]}', real_valid(cur, v), v))
        ctx.diff_stream('valid', cases, False,
                        lambda v: {'python': v[0], 'biopython': v[1], 'mopepgen': v[2]},
                        lambda o: o != 'valid')
        ctx.coverage['exhaustive'] = True
        ctx.coverage['rule'] = (
            'exh: ALL histories of length <= L over the alphabet {generateIndex, updateIndex} x '
            '{--force} x P  +  load x P  +  version tamper (|P| = 2, L = 3 quick; |P| = 3, L = 4 '
            'thorough), prefix tree with directory snapshots, each history started on an absent '
            'directory; alias/symlink/refs: all histories <= L over alphabets of parameter '
            'spellings with the same key, --gtf-symlink, two reference sets; version: 19 tampered '
            'version objects x all histories <= 2 after generate+update; gate: the same 19 version '
            'objects x {8 combinations of load_genome/load_canonical_peptides/load_proteome, the '
            'splitFasta / summarizeFasta / invalid_protein_as_noncoding call shapes, parseVEP and '
            'parseREDItools with --index-dir on a one-record input} x {tampered, restored '
            'metadata}, verdict compared with the Lean gate; long: seeded random '
            'histories (6..12 ops). A case is one history; compared: result class of its last '
            'operation, canonical metadata.json, listing with content class of every file. '
            'non-trivial = the directory holds at least one pool file after the history. '
            'Every successful load is also compared with create_unique_peptide_pool on the '
            'requested arguments and with the reference payloads (direct property check).')
        ctx.assumptions += [
            'pickle / JSON / file-system primitives (files are blobs in the model)',
            'pool contents are the parameter poolRaw (C10 covers create_unique_peptide_pool); '
            'hypothesis Respects (same key => same pool) is checked directly on every load '
            'and is FALSE on the unchanged tree for exception=auto (known finding)',
            'Python int() on version components restricted to ASCII digit strings',
        ]
    finally:
        shutil.rmtree(tmproot, ignore_errors=True)


def replay(ctx: common.Ctx, data):
    """re-run the operation history of a replay file on the real code and print every step"""
    sys.path.insert(0, common.REPO)
    rp = data.get('replay', data)
    gate = rp.get('case', {}).get('gate') if isinstance(rp.get('case'), dict) else None
    if gate:
        # version gate x load flags: re-run every call for the tampered version object
        tmproot = tempfile.mkdtemp(prefix='verif_c12_replay_', dir='/tmp')
        try:
            refs = make_refs(tmproot, lambda k: common.rng_for(data.get('seed', 0), 'C12',
                                                               'reference', k))
            bad = 0
            for shown, real, obj in gate_explore((refs, 'gate', tuple(gate['tamper']), tmproot)):
                g = obj['gate']
                same = (g['metadata'], g['call']) == (gate['metadata'], gate['call'])
                print(f"{g['metadata']:9s} recorded={'|'.join(shown)}  {g['call']} => {real}"
                      + (f"   <-- the reported case; proved gate says {rp.get('model')}"
                         if same else ''))
                if same and real != rp.get('model'):
                    bad += 1
            return 1 if bad else 0
        finally:
            shutil.rmtree(tmproot, ignore_errors=True)
    ops = rp.get('ops') or rp.get('case', {}).get('ops')
    if not ops:
        print('replay file has no operation history')
        return 2
    ops = [tuple(tuple(x) if isinstance(x, list) else x for x in o) for o in ops]
    tmproot = tempfile.mkdtemp(prefix='verif_c12_replay_', dir='/tmp')
    try:
        refs = make_refs(tmproot, lambda k: common.rng_for(data.get('seed', 0), 'C12',
                                                           'reference', k))
        cases, viols = explore((refs, 'replay', ops, [], 0, tmproot))
        for line, real, _ in cases:
            print(line.split(';')[-1], '=>', real)
        for what, r, key in viols:
            print('PROPERTY FAILS:', what, json.dumps(r)[:600])
        return 1 if viols else 0
    finally:
        shutil.rmtree(tmproot, ignore_errors=True)
