"""Common driver for the Layer-P checks: run case workers on a process pool,
feed their protocol lines to the Lean model, collect direct violations."""
from __future__ import annotations
import multiprocessing as mp
import os
import shutil
import time

from . import common, gen_ref, pipe_explore


def run_workers(ctx: common.Ctx, worker, n_jobs: int, stream_observable=False, procs: int = 14,
                budget_s: float = 1e9):
    jobs = [(ctx.rng('job', i).randrange(1 << 30), ctx.tier) for i in range(n_jobs)]
    stats = {}
    cases = {}
    nviol = 0
    nkey = {}
    errors = []
    t0 = time.time()
    mpctx = mp.get_context('fork')
    with mpctx.Pool(min(procs, max(1, n_jobs))) as pool:
        for res in pool.imap_unordered(worker, jobs):
            for k, v in res['stats'].items():
                stats[k] = stats.get(k, 0) + v
            if 'error' in res:
                errors.append(res['error'])
            for c in res['cases']:
                cases.setdefault(c[0], []).append(c[1:])
            for v in res['violations']:
                what, replay = v[0], v[1]
                key = v[2] if len(v) > 2 else None
                if key is not None:
                    # matches the signature of an entry of known_findings.json (decided there)
                    nkey[key] = nkey.get(key, 0) + 1
                    if nkey[key] <= 2:
                        ctx.add_violation(what, replay, finding_key=key)
                    continue
                nviol += 1
                if nviol <= 5:
                    ctx.add_violation(what, replay)
            if time.time() - t0 > budget_s:
                pool.terminate()
                stats['budget_exhausted'] = 1
                break
    ctx.coverage['worker_stats'] = stats
    if errors:
        ctx.coverage['worker_errors'] = errors[:3]
        ctx.notes.append(f'{len(errors)} worker(s) hit a harness error (cases not counted)')
    for stream, cs in cases.items():
        ctx.diff_stream(stream, [(l, r, d) for (l, r, d) in cs], stream_observable,
                        lambda o: o, lambda o: ' F=' in o and not o.split(' F=')[1].startswith(' ') or o.startswith('abort') or o == 'all-valid',
                        f'{stream}: real callVariant differs from the Lean pipeline model')
    shutil.rmtree(gen_ref.WORK, ignore_errors=True)
    return stats
