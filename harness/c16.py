"""C16 — parseRMATS records reproduce the alternative isoform.

Generated multi-isoform genes (both strands; isoform pairs that differ by exactly one SE / A5SS /
A3SS / MXE / RI event, plus unrelated isoforms) are written as GTF + FASTA by c11's writers, the
events as rMATS text rows (23 / 25 columns as in test/files/alternative_splicing).  The REAL code
runs two ways: `RMATSParser.parse` + `<X>Record.convert_to_variant_records` row by row on the real
`GenomicAnnotationOnDisk`, and the real `cli.parse_rmats` on the five files (its GVF is parsed back
and must be the per-transcript union of the row results).

Streams (real code vs native Lean driver; protocol lines are built from the generator's truth):
  event   one line per rMATS row -> set of emitted records                  (Model/Rmats.lean)
  aln     align_to_transcript + interjacent / spanning exons + records      (internal)
  novel   SpliceJunction.is_novel                                           (internal)
  apply   Lean `applyAS` (Layer S) vs the harness' own record application    (spec cross-check)
  bad     near-valid / out-of-gene rows (crash classes must agree)           (internal)
Direct predicates on the real output, no model involved:
  * every record emitted for a transcript whose exons coincide with the event, applied to the
    real transcript sequence under the documented Deletion / Insertion / Substitution semantics,
    equals the chromosome sequence of the alternative exon list;
  * no record towards a form whose junctions an annotated isoform already has;
  * no record towards a form whose read count is below its threshold;
  * CLI GVF == union of the row results;
  * junction level, for EVERY transcript of the gene (also those that match only part of the
    event, e.g. carriers of several cassette exons inside the event's introns): each record a
    junction of the event yields, applied to the transcript, gives the transcript using that
    junction (`junction_alt`); get_interjacent_exons = the exons inside the junction, ascending.
"""
from __future__ import annotations
import argparse
import json
import os
import shutil
import sys
import tempfile
from pathlib import Path

from . import common
from . import c11

COMP = c11.COMP
KF_RI1 = 'ri-retained-form-with-1-base-downstream-part-not-recognised'
HDR = {
    'SE': 'ID\tGeneID\tgeneSymbol\tchr\tstrand\texonStart_0base\texonEnd\tupstreamES\tupstreamEE\t'
          'downstreamES\tdownstreamEE',
    'A5SS': 'ID\tGeneID\tgeneSymbol\tchr\tstrand\tlongExonStart_0base\tlongExonEnd\tshortES\t'
            'shortEE\tflankingES\tflankingEE',
    'A3SS': 'ID\tGeneID\tgeneSymbol\tchr\tstrand\tlongExonStart_0base\tlongExonEnd\tshortES\t'
            'shortEE\tflankingES\tflankingEE',
    'MXE': 'ID\tGeneID\tgeneSymbol\tchr\tstrand\t1stExonStart_0base\t1stExonEnd\t'
           '2ndExonStart_0base\t2ndExonEnd\tupstreamES\tupstreamEE\tdownstreamES\tdownstreamEE',
    'RI': 'ID\tGeneID\tgeneSymbol\tchr\tstrand\triExonStart_0base\triExonEnd\tupstreamES\t'
          'upstreamEE\tdownstreamES\tdownstreamEE',
}
TAIL = '\tID\tIJC_SAMPLE_1\tSJC_SAMPLE_1\tIJC_SAMPLE_2\tSJC_SAMPLE_2\tIncFormLen\tSkipFormLen\t' \
       'PValue\tFDR\tIncLevel1\tIncLevel2\tIncLevelDifference'
TYPES = ['SE', 'A5SS', 'A3SS', 'MXE', 'RI']
ARG = {'SE': 'skipped_exon', 'A5SS': 'alternative_5_splicing', 'A3SS': 'alternative_3_splicing',
       'MXE': 'mutually_exclusive_exons', 'RI': 'retained_intron'}
STREAMS = ['event', 'aln', 'novel', 'apply', 'bad']


# ------------------------------------------------------------------ generator
class Event:
    def __init__(self, typ, gene, coords, ijc, sjc, tag):
        self.typ, self.gene, self.coords, self.ijc, self.sjc, self.tag = \
            typ, gene, list(coords), ijc, sjc, tag
        self.idx = 0

    def row(self):
        g = self.gene
        quote = '"' if self.idx % 3 == 0 else ''
        f = [str(self.idx), f'{quote}{g.id}{quote}', f'{quote}{g.name}{quote}', g.chrom, g.strand]
        f += [str(c) for c in self.coords]
        f += [str(self.idx), str(self.ijc), str(self.sjc), '', '', '148', '74', 'NA', 'NA',
              'NA', '', 'NA']
        return '\t'.join(f)

    def line_args(self):
        return ','.join(str(c) for c in self.coords + [self.ijc, self.sjc])

    def desc(self):
        return {'type': self.typ, 'gene': self.gene.id, 'strand': self.gene.strand,
                'row': self.row(), 'tag': self.tag}


def mk_tx(g, ti, exons, rng):
    t = c11.Tx()
    base = g.id.split('.')[0].replace('ENSG', 'ENST')
    t.id = base + f'{ti}' + ('.2' if '.' in g.id else '')
    t.gene, t.chrom, t.strand = g.id, g.chrom, g.strand
    t.exons = list(exons)
    t.order = rng.choice(['tx', 'tx', 'genomic', 'rev'])
    if rng.random() < 0.5:
        t.tags.append('basic')
    return t


def gen_case(rng, case):
    """annotation + events; every gene carries one planted event of a random type"""
    a = c11.Anno()
    a.style = rng.choice(['GENCODE', 'ENSEMBL'])
    names = ['chr1', 'chrX'] if a.style == 'GENCODE' else ['1', '17']
    cursor = {c: rng.randint(0, 5) for c in names}
    events = []
    for gi in range(rng.choice([1, 1, 2, 3])):
        g = c11.Gene()
        g.id = (f'ENSG{case % 1000:03d}{gi:04d}.{rng.randint(1, 9)}' if a.style == 'GENCODE'
                else f'ENSG{case % 1000:03d}{gi:04d}')
        g.name = f'GN{gi}'
        g.chrom = rng.choice(names)
        g.strand = rng.choice('+-')
        g.biotype = rng.choice(['protein_coding', 'lncRNA'])
        pad_l, pad_r = rng.choice([0, 0, 1, 3]), rng.choice([0, 0, 2, 4])
        pos = cursor[g.chrom] + rng.randint(1, 5) + pad_l
        nex = rng.choice([3, 4, 4, 5, 5, 6, 7, 8])
        typ = rng.choice(TYPES)
        if typ == 'MXE' and nex < 4:
            typ = 'SE'
        # the region of the event: consecutive pool exons j .. j+w-1, all in the base isoform
        w = {'SE': 3, 'MXE': 4, 'RI': 2, 'A5SS': 2, 'A3SS': 2}[typ]
        j = rng.randint(0, nex - w)
        # "wide" genes: the introns of the event region carry 2-3 cassette exons each that belong
        # to none of the two forms of the event but to carrier isoforms (several exons interjacent
        # to the event's junctions, reached by the forward and the backward scan)
        wide = rng.random() < 0.4
        pool = []
        cass = {}                      # region intron (index of its left pool exon) -> cassettes
        for x in range(nex):
            ln = rng.choice([1, 2, 3, 4, 5, 7, 9, 12, 15, 20])
            pool.append((pos, pos + ln))
            pos += ln
            if wide and j <= x < j + w - 1:
                pos += rng.choice([1, 1, 2, 3, 5])
                cs = []
                for _ in range(rng.choice([2, 2, 3])):
                    cl = rng.choice([1, 2, 3, 4, 6])
                    cs.append((pos, pos + cl))
                    pos += cl + rng.choice([1, 1, 2, 3, 5])
                cass[x] = cs
            else:
                pos += rng.choice([1, 1, 2, 3, 5, 8, 13])
        others = [x for x in range(nex) if not j <= x < j + w]
        keep = sorted(rng.sample(others, rng.randint(0, len(others))) + list(range(j, j + w)))
        base = [pool[x] for x in keep]
        p0 = keep.index(j)
        ijc, sjc = rng.choice([0, 1, 1, 2, 3, 5]), rng.choice([0, 1, 1, 2, 3, 5])
        if typ == 'SE':
            U, E, D = base[p0:p0 + 3]
            inc, skp = base, base[:p0 + 1] + base[p0 + 2:]
            coords = [E[0], E[1], U[0], U[1], D[0], D[1]]
        elif typ == 'MXE':
            U, F1, F2, D = base[p0:p0 + 4]
            inc = base[:p0 + 2] + base[p0 + 3:]
            skp = base[:p0 + 1] + base[p0 + 2:]
            coords = [F1[0], F1[1], F2[0], F2[1], U[0], U[1], D[0], D[1]]
        elif typ == 'RI':
            U, D = base[p0:p0 + 2]
            skp = base
            inc = base[:p0] + [(U[0], D[1])] + base[p0 + 2:]
            coords = [U[0], D[1], U[0], U[1], D[0], D[1]]
        else:
            # the variable exon X and its flanking neighbour F; which side varies depends on
            # type x strand: A5SS varies the 3' end (in transcript direction) of the upstream
            # (transcript order) exon, A3SS the 5' end of the downstream one
            lo, hi = base[p0], base[p0 + 1]
            vary_hi_end_of_lo = (typ == 'A5SS') == (g.strand == '+')
            if vary_hi_end_of_lo:
                X, F = lo, hi
                gap = (cass[j][0][0] if cass.get(j) else F[0]) - X[1]
                if X[1] - X[0] >= 2 and (gap < 2 or rng.random() < 0.5):
                    long_, short = X, (X[0], X[1] - rng.randint(1, X[1] - X[0] - 1))
                elif gap >= 2:
                    short, long_ = X, (X[0], X[1] + rng.randint(1, gap - 1))
                else:
                    short, long_ = X, X      # degenerate: nothing to vary (1-base exon, 1-base gap)
            else:
                F, X = lo, hi
                gap = X[0] - (cass[j][-1][1] if cass.get(j) else F[1])
                if X[1] - X[0] >= 2 and (gap < 2 or rng.random() < 0.5):
                    long_, short = X, (X[0] + rng.randint(1, X[1] - X[0] - 1), X[1])
                elif gap >= 2:
                    short, long_ = X, (X[0] - rng.randint(1, gap - 1), X[1])
                else:
                    short, long_ = X, X
            if vary_hi_end_of_lo:
                inc = base[:p0] + [long_] + base[p0 + 1:]
                skp = base[:p0] + [short] + base[p0 + 1:]
            else:
                inc = base[:p0 + 1] + [long_] + base[p0 + 2:]
                skp = base[:p0 + 1] + [short] + base[p0 + 2:]
            coords = [long_[0], long_[1], short[0], short[1], F[0], F[1]]
        mode = rng.choice(['inc', 'inc', 'skp', 'skp', 'both', 'both', 'neither'])
        isoforms = []
        if mode in ('inc', 'both'):
            isoforms.append(inc)
        if mode in ('skp', 'both'):
            isoforms.append(skp)
        # unrelated / partially related isoforms
        for _ in range(rng.choice([0, 0, 1, 1, 2])):
            kk = rng.randint(1, nex)
            ex = [pool[x] for x in sorted(rng.sample(range(nex), kk))]
            if rng.random() < 0.3 and len(ex) >= 1:       # perturb one boundary
                q = rng.randrange(len(ex))
                s, e = ex[q]
                if e - s > 1:
                    if rng.random() < 0.5:
                        s += 1
                    else:
                        e -= 1
                ex[q] = (s, e)
            isoforms.append(ex)
        if rng.random() < 0.25 and len(isoforms) >= 1:    # a second copy of a form, other outer exons
            src = list(rng.choice(isoforms))
            if len(src) > 2 and rng.random() < 0.5:
                src = src[1:]
            isoforms.append(src)
        if not isoforms:
            isoforms.append(base)
        if cass:
            allc = [c for cs in cass.values() for c in cs]
            r_lo, r_hi = pool[j][0], pool[j + w - 1][1]
            for _ in range(rng.choice([1, 2, 2, 3])):
                src = list(rng.choice([inc, skp]))
                add = [c for c in allc if all(c[1] < s_ or e_ < c[0] for s_, e_ in src)]
                if len(add) > 2 and rng.random() < 0.3:
                    add.pop(rng.randrange(len(add)))
                ex = sorted(src + add)
                reg = [q for q, iv in enumerate(ex) if iv in src and r_lo <= iv[0] and iv[1] <= r_hi]
                if reg and len(ex) > 2 and rng.random() < 0.5:
                    # lose or move one anchor of the event: the junction end is then not matched
                    q = rng.choice(reg)
                    s_, e_ = ex[q]
                    if e_ - s_ < 2 or rng.random() < 0.5:
                        del ex[q]
                    elif rng.random() < 0.5:
                        ex[q] = (s_ + 1, e_)
                    else:
                        ex[q] = (s_, e_ - 1)
                isoforms.append(ex)
        rng.shuffle(isoforms)
        for ti, ex in enumerate(isoforms):
            g.txs.append(mk_tx(g, ti, ex, rng))
        g.start = max(0, min(min(t.exons[0][0] for t in g.txs), pool[0][0]) - pad_l)
        g.end = max(max(t.exons[-1][1] for t in g.txs), pool[-1][1]) + pad_r
        if typ in ('A5SS', 'A3SS'):
            g.start = min(g.start, coords[0])
            g.end = max(g.end, coords[1])
        cursor[g.chrom] = g.end + rng.randint(0, 8)
        a.genes.append(g)
        if not (typ in ('A5SS', 'A3SS') and coords[0:2] == coords[2:4]):
            events.append(Event(typ, g, coords, ijc, sjc, f'planted:{mode}'))
        # a second event of another type on the same gene, from pool exons (often partial match)
        if rng.random() < 0.5 and nex >= 3:
            j2 = rng.randint(0, nex - 3)
            U, E, D = pool[j2:j2 + 3]
            t2 = rng.choice(['SE', 'RI', 'MXE'] if nex >= 4 and j2 + 4 <= nex else ['SE', 'RI'])
            if t2 == 'SE':
                c2 = [E[0], E[1], U[0], U[1], D[0], D[1]]
            elif t2 == 'RI':
                c2 = [U[0], E[1], U[0], U[1], E[0], E[1]]
            else:
                D2 = pool[j2 + 3]
                c2 = [E[0], E[1], D[0], D[1], U[0], U[1], D2[0], D2[1]]
            events.append(Event(t2, g, c2, rng.choice([0, 1, 2, 4]), rng.choice([0, 1, 2, 4]),
                                'pool'))
    for c in names:
        n = cursor[c] + rng.randint(0, 8)
        a.chroms[c] = ''.join(rng.choice('ACGT') for _ in range(n))
    for i, ev in enumerate(events):
        ev.idx = i
    mins = (rng.choice([0, 1, 1, 1, 2, 3]), rng.choice([0, 1, 1, 1, 2, 3]))
    return a, events, mins


def perturb(rng, ev: Event, a):
    """near-valid rows: shift one coordinate, or move a coordinate out of the gene"""
    c = list(ev.coords)
    g = ev.gene
    r = rng.random()
    i = rng.randrange(len(c))
    if r < 0.6:
        c[i] = max(0, c[i] + rng.choice([-3, -2, -1, 1, 2, 3]))
    elif r < 0.8:
        c[i] = max(0, g.start - rng.randint(1, 3)) if rng.random() < 0.5 else g.end + rng.randint(0, 3)
    else:
        k = rng.randrange(len(c))
        c[i], c[k] = c[k], c[i]
    e = Event(ev.typ, g, c, ev.ijc, ev.sjc, 'perturbed')
    return e


# ------------------------------------------------------------------ expectations
def revcomp(s):
    return ''.join(COMP[x] for x in reversed(s))


def seq_of(chrom, strand, exons):
    s = ''.join(chrom[a:b] for a, b in exons)
    return s if strand == '+' else revcomp(s)


def junctions(exons):
    return {(exons[i][1], exons[i + 1][0]) for i in range(len(exons) - 1)}


def expected_forms(ev: Event, exons):
    """[(alternative exon list, towards 'inc'|'skp', strict?)] when the transcript's exons
    coincide with one form of the event; [] otherwise.  `strict` = every exon of the event that
    the form contains is an exon of the transcript (otherwise only the junction ends match)."""
    ex = list(exons)
    out = []
    t, c = ev.typ, ev.coords
    n = len(ex)
    if t == 'SE':
        es, ee, us, ue, ds, de = c
        if not (us < ue < es < ee < ds < de):
            return []
        for i in range(n - 2):
            if ex[i][1] == ue and ex[i + 1] == (es, ee) and ex[i + 2][0] == ds:
                out.append((ex[:i + 1] + ex[i + 2:], 'skp',
                            ex[i] == (us, ue) and ex[i + 2] == (ds, de)))
        for i in range(n - 1):
            if ex[i][1] == ue and ex[i + 1][0] == ds:
                out.append((ex[:i + 1] + [(es, ee)] + ex[i + 1:], 'inc',
                            ex[i] == (us, ue) and ex[i + 1] == (ds, de)))
    elif t == 'RI':
        _rs, _re, us, ue, ds, de = c
        if not (us < ue < ds < de):
            return []
        for i in range(n - 1):
            if ex[i][1] == ue and ex[i + 1][0] == ds:
                out.append((ex[:i] + [(ex[i][0], ex[i + 1][1])] + ex[i + 2:], 'inc',
                            ex[i] == (us, ue) and ex[i + 1] == (ds, de)))
        for i in range(n):
            if ex[i][0] < ue and ds < ex[i][1]:
                out.append((ex[:i] + [(ex[i][0], ue), (ds, ex[i][1])] + ex[i + 1:], 'skp',
                            ex[i] == (us, de)))
    elif t in ('A5SS', 'A3SS'):
        ls, le, ss, se, fs, fe = c
        hi_end_varies = (t == 'A5SS') == (ev.gene.strand == '+')
        if hi_end_varies:
            if not (ls == ss and ss < se < le < fs < fe):
                return []
            for i in range(n - 1):
                if ex[i + 1][0] == fs and ex[i][0] < se and ex[i][1] in (le, se):
                    tgt = se if ex[i][1] == le else le
                    out.append((ex[:i] + [(ex[i][0], tgt)] + ex[i + 1:],
                                'skp' if tgt == se else 'inc',
                                ex[i][0] == ls and ex[i + 1] == (fs, fe)))
        else:
            if not (le == se and fs < fe < ls < ss < se):
                return []
            for i in range(n - 1):
                if ex[i][1] == fe and ex[i + 1][1] > ss and ex[i + 1][0] in (ls, ss):
                    tgt = ss if ex[i + 1][0] == ls else ls
                    out.append((ex[:i + 1] + [(tgt, ex[i + 1][1])] + ex[i + 2:],
                                'skp' if tgt == ss else 'inc',
                                ex[i + 1][1] == le and ex[i] == (fs, fe)))
    elif t == 'MXE':
        f1s, f1e, f2s, f2e, us, ue, ds, de = c
        if not (us < ue < f1s < f1e < f2s < f2e < ds < de):
            return []
        for i in range(n - 2):
            if ex[i][1] == ue and ex[i + 2][0] == ds and ex[i + 1] in ((f1s, f1e), (f2s, f2e)):
                first = ex[i + 1] == (f1s, f1e)
                other = (f2s, f2e) if first else (f1s, f1e)
                out.append((ex[:i + 1] + [other] + ex[i + 2:], 'skp' if first else 'inc',
                            ex[i] == (us, ue) and ex[i + 2] == (ds, de)))
    return out


def form_known(ev: Event, towards, all_exons):
    """does ONE annotated isoform already have all the junctions of the form `towards`?"""
    t, c = ev.typ, ev.coords
    for ex in all_exons:
        js = junctions(ex)
        if t == 'SE':
            es, ee, us, ue, ds, de = c
            need = {(ue, ds)} if towards == 'skp' else {(ue, es), (ee, ds)}
        elif t == 'RI':
            _a, _b, us, ue, ds, de = c
            if towards == 'inc':
                if any(s < ue and ds < e for s, e in ex):
                    return True
                continue
            need = {(ue, ds)}
        elif t in ('A5SS', 'A3SS'):
            ls, le, ss, se, fs, fe = c
            hi = (t == 'A5SS') == (ev.gene.strand == '+')
            if hi:
                need = {(le if towards == 'inc' else se, fs)}
            else:
                need = {(fe, ls if towards == 'inc' else ss)}
        else:
            f1s, f1e, f2s, f2e, us, ue, ds, de = c
            need = {(ue, f1s), (f1e, ds)} if towards == 'inc' else {(ue, f2s), (f2e, ds)}
        if need <= js:
            return True
    return False


def all_junctions_known(ev: Event, all_exons):
    """the rule the code implements: every junction it looks at is annotated somewhere"""
    js = set()
    for ex in all_exons:
        js |= junctions(ex)
    t, c = ev.typ, ev.coords
    if t == 'SE':
        es, ee, us, ue, ds, de = c
        return {(ue, ds), (ue, es), (ee, ds)} <= js
    if t in ('A5SS', 'A3SS'):
        ls, le, ss, se, fs, fe = c
        if (t == 'A5SS') == (ev.gene.strand == '+'):
            return {(le, fs), (se, fs)} <= js
        return {(fe, ls), (fe, ss)} <= js
    if t == 'MXE':
        f1s, f1e, f2s, f2e, us, ue, ds, de = c
        return {(f1e, ds), (ue, f2s)} <= js
    return None


def apply_documented(rec, tx_exons, strand, gstart, gend, tx_seq, gene_seq):
    """Deletion / Insertion / Substitution as docs/file-format.md defines them, on the transcript
    sequence; every transcript base is tagged with its gene coordinate.  Returns (sequence, note)."""
    tags = []
    for s, e in tx_exons:
        tags += list(range(s, e))
    if strand == '+':
        tags = [p - gstart for p in tags]
    else:
        tags = [gend - 1 - p for p in reversed(tags)]
    assert len(tags) == len(tx_seq)
    kind, start, stop, d0, d1 = rec
    note = None
    if kind == 'D':
        keep = [b for gc, b in zip(tags, tx_seq) if not start <= gc < stop]
        return ''.join(keep), note
    donor = gene_seq[d0:d1]
    if kind == 'I':
        if start not in tags:
            return None, 'insert-position-not-exonic'
        k = tags.index(start) + 1
        return tx_seq[:k] + donor + tx_seq[k:], note
    k = sum(1 for gc in tags if gc < start)
    keep_l = tx_seq[:k]
    keep_r = ''.join(b for gc, b in zip(tags[k:], tx_seq[k:]) if not gc < stop)
    return keep_l + donor + keep_r, note


# ------------------------------------------------------------------ real side
def rec_tuple(v):
    t = {'Deletion': 'D', 'Insertion': 'I', 'Substitution': 'S'}[v.type]
    if t == 'D':
        d0 = d1 = 0
        if int(v.attrs['START']) != int(v.location.start) or int(v.attrs['END']) != int(v.location.end):
            return ('attr-mismatch', str(v.attrs))
    else:
        d0, d1 = int(v.attrs['DONOR_START']), int(v.attrs['DONOR_END'])
        if t == 'S' and (int(v.attrs['START']) != int(v.location.start)
                         or int(v.attrs['END']) != int(v.location.end)):
            return ('attr-mismatch', str(v.attrs))
    return (t, int(v.location.start), int(v.location.end), d0, d1)


def canon(recs):
    """[(txidx, (K,start,stop,d0,d1))] -> protocol string"""
    if not recs:
        return '-'
    return ','.join(sorted(f'{i}:{r[0]}:{r[1]}:{r[2]}:{r[3]}:{r[4]}' for i, r in recs))


class World:
    pass


def load_world(a, tmp):
    from moPepGen import gtf, dna
    W = World()
    W.gtf_path = os.path.join(tmp, 'anno.gtf')
    W.fa_path = os.path.join(tmp, 'genome.fa')
    with open(W.gtf_path, 'w') as fh:
        fh.write(a.gtf_text())
    with open(W.fa_path, 'w') as fh:
        fh.write(a.fasta_text())
    W.anno = gtf.GenomicAnnotationOnDisk()
    W.anno.generate_index(W.gtf_path)
    W.genome = dna.DNASeqDict()
    W.genome.dump_fasta(W.fa_path)
    return W


def write_rows(tmp, events, name):
    paths = {}
    for t in TYPES:
        evs = [e for e in events if e.typ == t]
        if not evs:
            continue
        p = os.path.join(tmp, f'{name}_{t}.MATS.JC.txt')
        with open(p, 'w') as fh:
            fh.write(HDR[t] + TAIL + '\n')
            for e in evs:
                fh.write(e.row() + '\n')
        paths[t] = p
    return paths


def real_rows(W, paths, mins):
    """[(type, k-th row of that type, records | 'X:Type')] through the real parser classes"""
    from moPepGen.parser import RMATSParser
    out = {}
    for t, p in paths.items():
        for k, record in enumerate(RMATSParser.parse(p, t)):
            try:
                vs = record.convert_to_variant_records(anno=W.anno, genome=W.genome,
                                                       min_ijc=mins[0], min_sjc=mins[1])
                out[(t, k)] = list(vs)
            except Exception as e:     # noqa
                out[(t, k)] = 'X:' + type(e).__name__
    return out


def run_cli(W, paths, mins, tmp):
    from moPepGen import cli, seqvar
    args = argparse.Namespace()
    args.command = 'parseRMATS'
    args.source = 'AlternativeSplicing'
    for t in TYPES:
        setattr(args, ARG[t], Path(paths[t]) if t in paths else None)
    args.min_ijc, args.min_sjc = mins
    args.index_dir = None
    args.genome_fasta = Path(W.fa_path)
    args.annotation_gtf = Path(W.gtf_path)
    args.proteome_fasta = None
    args.reference_source = None
    args.output_path = Path(tmp) / 'out.gvf'
    args.quiet = True
    args.debug_level = 0
    cli.parse_rmats(args)
    if not args.output_path.exists():
        return set()
    got = set()
    with open(args.output_path) as fh:
        for v in seqvar.io.parse(fh):
            got.add((v.attrs['TRANSCRIPT_ID'],) + rec_tuple(v))
    return got


def tx_line(g, order):
    by = {t.id: t for t in g.txs}
    return ';'.join(c11.ivs(by[i].exons) for i in order)


def process_case(ctx, case_id, S, a, events, mins, do_cli=True, bad=False):
    tmp = tempfile.mkdtemp(prefix='c16_')
    W = None
    try:
        W = load_world(a, tmp)
        base = a.desc()
        base['min_ijc'], base['min_sjc'] = mins
        paths = write_rows(tmp, events, 'ev')
        rows = real_rows(W, paths, mins)
        union = set()
        any_crash = False
        counters = {t: 0 for t in TYPES}
        for ev in events:
            k = counters[ev.typ]
            counters[ev.typ] += 1
            res = rows[(ev.typ, k)]
            g = ev.gene
            gm = W.anno.genes[g.id]
            order = list(gm.transcripts)
            real_ex = {i: [(int(x.location.start), int(x.location.end))
                           for x in W.anno.transcripts[i].exon] for i in order}
            line = '\t'.join(['C16', ev.typ.lower(), g.strand, f'{g.start}-{g.end}',
                              tx_line(g, order), ev.line_args(), str(mins[0]), str(mins[1])])
            d = {'event': ev.desc(), 'case': case_id}

            def viol(what, extra, key=None, d=d):
                r = dict(base)
                r.update(d)
                r.update(extra)
                ctx.add_violation(what, r, finding_key=key)
            if isinstance(res, str):
                any_crash = True
                S['bad' if bad else 'event'].append((line, res, (case_id, ev.desc(), mins)))
                if not bad:
                    forms = [f for i in order for f in expected_forms(ev, real_ex[i])]
                    if forms:
                        viol('the real code raised on an event whose exons coincide with an '
                             'annotated transcript', {'exception': res})
                continue
            recs = []
            for v in res:
                rt = rec_tuple(v)
                ti = order.index(v.attrs['TRANSCRIPT_ID'])
                if rt[0] == 'attr-mismatch':
                    viol('START/END attributes differ from the record location', {'attrs': rt[1]})
                    continue
                recs.append((ti, rt))
                union.add((v.attrs['TRANSCRIPT_ID'],) + rt)
            S['bad' if bad else 'event'].append((line, canon(recs), (case_id, ev.desc(), mins)))
            ctx.count('event', 'type_' + ev.typ + g.strand)
            ctx.count('event', 'records', len(recs))
            if bad:
                continue
            check_semantics(ctx, a, W, ev, g, order, real_ex, recs, mins, viol, S, case_id)
        if do_cli and not any_crash and not bad:
            got = run_cli(W, paths, mins, tmp)
            ctx.count('cli', 'runs')
            ctx.count('cli', 'records', len(got))
            if got != union:
                r = dict(base)
                r.update({'rows': [e.desc() for e in events],
                          'only_cli': sorted(map(str, got - union)),
                          'only_rows': sorted(map(str, union - got))})
                ctx.add_violation('GVF written by the parseRMATS CLI is not the union of the '
                                  'records of its rows', r)
        if not bad:
            aln_stream(ctx, a, W, events, S, case_id)
    finally:
        if W is not None:
            try:
                if W.anno.handle:
                    W.anno.handle.close()
            except Exception:   # noqa
                pass
        shutil.rmtree(tmp, ignore_errors=True)


def check_semantics(ctx, a, W, ev, g, order, real_ex, recs, mins, viol, S, case_id):
    chrom = a.chroms[g.chrom]
    gm = W.anno.genes[g.id]
    gene_seq = str(gm.get_gene_sequence(W.genome[g.chrom]).seq)
    gs, ge = int(gm.location.start), int(gm.location.end)
    all_ex = [real_ex[i] for i in order]
    # rule as implemented: all junctions annotated -> nothing
    known = all_junctions_known(ev, all_ex)
    if known and recs:
        viol('records emitted although every junction of the event is annotated in some isoform',
             {'records': canon(recs)})
    if ev.ijc < mins[0] and ev.sjc < mins[1] and recs:
        viol('records emitted although both read counts are below their thresholds',
             {'records': canon(recs)})
    by_tx = {}
    for ti, r in recs:
        by_tx.setdefault(ti, []).append(r)
    for ti, tid in enumerate(order):
        forms = expected_forms(ev, real_ex[tid])
        rs = by_tx.get(ti, [])
        if not forms:
            if rs:
                ctx.count('event', 'records_on_noncoinciding_tx', len(rs))
            continue
        ctx.count('event', 'coinciding_tx')
        if len(forms) > 1:
            ctx.count('event', 'ambiguous_forms')
            continue
        alt, towards, strict = forms[0]
        ctx.count('event', f'form_{ev.typ}_{towards}_{"strict" if strict else "junction"}')
        if not rs:
            ctx.count('event', 'coinciding_tx_without_record')
            continue
        tm = W.anno.transcripts[tid]
        tx_seq = str(tm.get_transcript_sequence(W.genome[g.chrom]).seq)
        want = seq_of(chrom, g.strand, alt)
        for r in rs:
            ctx.count('event', f'checked_{ev.typ}{g.strand}_{r[0]}')
            got, note = apply_documented(r, real_ex[tid], g.strand, gs, ge, tx_seq, gene_seq)
            extra = {'transcript': tid, 'exons': real_ex[tid], 'record': list(r),
                     'alternative_exons': alt, 'towards': towards, 'strict': strict}
            # the consumer (VariantRecord.to_transcript_variant) maps START and END-1 (POS for an
            # insertion) through coordinate_gene_to_transcript: they must be exonic positions
            gcs = set()
            for s_, e_ in real_ex[tid]:
                for p_ in range(s_, e_):
                    gcs.add(p_ - gs if g.strand == '+' else ge - 1 - p_)
            ends = [r[1]] if r[0] == 'I' else [r[1], r[2] - 1]
            if any(x not in gcs for x in ends):
                viol('record boundary (START / END-1 / insert position) is not an exonic position '
                     'of its transcript: the record cannot be applied to the transcript', extra)
            if got != want:
                extra.update({'applied': got, 'expected': want, 'note': note})
                viol('record applied to the transcript sequence under the documented semantics '
                     'does not give the sequence of the alternative isoform', extra)
            # read support of the form the record creates
            cnt, mn = (ev.ijc, mins[0]) if towards == 'inc' else (ev.sjc, mins[1])
            if cnt < mn:
                viol('record emitted for a form whose read count is below the threshold', extra)
            if form_known(ev, towards, all_ex):
                key = None
                if ev.typ == 'RI' and towards == 'inc':
                    _a, _b, us, ue, ds, de = ev.coords
                    if all(not (s < ue and ds + 1 < e) for ex in all_ex for s, e in ex):
                        key = KF_RI1
                viol('record emitted for a form that an annotated isoform already has', extra,
                     key)
            # Layer S cross-check: Lean applyAS on the same record
            if got is not None:
                line = '\t'.join(['C16', 'apply', g.strand, f'{gs}-{ge}', c11.ivs(real_ex[tid]),
                                  chrom, ':'.join(str(x) for x in r)])
                S['apply'].append((line, got, (case_id, ev.desc(), mins)))


def used_junctions(ev):
    """(junction, upstream_novel, downstream_novel) exactly as the record class of the event
    aligns them"""
    c, plus = ev.coords, ev.gene.strand == '+'
    if ev.typ == 'SE':
        es, ee, us, ue, ds, de = c
        return [((us, ue, ds, de), False, False), ((us, ue, es, ee), False, True),
                ((es, ee, ds, de), True, False)]
    if ev.typ == 'MXE':
        f1s, f1e, f2s, f2e, us, ue, ds, de = c
        return [((f1s, f1e, ds, de), True, False), ((us, ue, f2s, f2e), False, True)]
    if ev.typ in ('A5SS', 'A3SS'):
        ls, le, ss, se, fs, fe = c
        if (ev.typ == 'A5SS') == plus:
            return [((ls, le, fs, fe), True, False), ((ss, se, fs, fe), True, False)]
        return [((fs, fe, ls, le), False, True), ((fs, fe, ss, se), False, True)]
    return []


def junction_alt(ex, j):
    """the exon list of a transcript that uses the junction `ue -> ds`, written down from the
    junction alone: everything of the transcript inside [ue, ds) is gone; a side of the
    junction the transcript does not cover is supplied by the junction's own exon, cut back to
    the neighbouring exon of the transcript"""
    us, ue, ds, de = j
    lower = [(s, min(e, ue)) for s, e in ex if s < ue]
    upper = [(max(s, ds), e) for s, e in ex if e > ds]
    mid = []
    if not any(s <= ue - 1 < e for s, e in ex):
        lo = max([e for _s, e in lower] + [us])
        if lo >= ue:
            return None
        mid.append((lo, ue))
    if not any(s <= ds < e for s, e in ex):
        hi = min([s for s, _e in upper] + [de])
        if hi <= ds:
            return None
        mid.append((ds, hi))
    return lower + mid + upper


def aln_stream(ctx, a, W, events, S, case_id):
    """internal: alignment indices, interjacent / spanning exons and the records of single
    junctions, every (junction, transcript, flags) combination of the events"""
    from moPepGen import seqvar
    for ev in events:
        g = ev.gene
        gm = W.anno.genes[g.id]
        c = ev.coords
        if ev.typ == 'SE':
            js = [(c[2], c[3], c[4], c[5]), (c[2], c[3], c[0], c[1]), (c[0], c[1], c[4], c[5])]
        elif ev.typ == 'MXE':
            js = [(c[0], c[1], c[6], c[7]), (c[4], c[5], c[2], c[3])]
        elif ev.typ == 'RI':
            js = [(c[2], c[3], c[4], c[5])]
        else:
            js = [(c[0], c[1], c[4], c[5]), (c[2], c[3], c[4], c[5]),
                  (c[4], c[5], c[0], c[1]), (c[4], c[5], c[2], c[3])]
        order = list(gm.transcripts)
        gene_seq = gm.get_gene_sequence(W.genome[g.chrom])
        junction_check(ctx, a, W, ev, g, gm, order, gene_seq, case_id)
        for j in js:
            if not (j[1] < j[2]):
                continue
            sj = seqvar.SpliceJunction(j[0], j[1], j[2], j[3], g.id, g.chrom)
            nv = '1' if sj.is_novel(W.anno) else '0'
            S['novel'].append(('\t'.join(['C16', 'novel', tx_line(g, order), str(j[1]), str(j[2])]),
                               nv, (case_id, ev.desc(), None)))
            for tid in order:
                tm = W.anno.transcripts[tid]
                ex = [(int(x.location.start), int(x.location.end)) for x in tm.exon]
                for un, dn in ((False, False), (True, False), (False, True)):
                    line = '\t'.join(['C16', 'aln', g.strand, f'{g.start}-{g.end}', c11.ivs(ex),
                                      ','.join(map(str, j)), '1' if un else '0', '1' if dn else '0'])
                    aln = sj.align_to_transcript(tm, un, dn)
                    if aln is None:
                        real = 'none'
                    else:
                        idx = f'{aln.upstream_start_index},{aln.upstream_end_index},' \
                              f'{aln.downstream_start_index},{aln.downstream_end_index}'
                        try:
                            inter = ','.join(map(str, aln.get_interjacent_exons()))
                        except Exception as e:     # noqa
                            inter = 'X:' + type(e).__name__
                        try:
                            vs = aln.convert_to_variant_records(W.anno, gene_seq, 'ID')
                            rs = ','.join(':'.join(map(str, rec_tuple(v))) for v in vs) or '-'
                        except Exception as e:     # noqa
                            rs = 'X:' + type(e).__name__
                        real = '|'.join([idx, inter, str(aln.get_upstream_end_spanning()),
                                         str(aln.get_downstream_start_spanning()), rs])
                    S['aln'].append((line, real, (case_id, ev.desc(), None)))


def junction_check(ctx, a, W, ev, g, gm, order, gene_seq, case_id):
    """direct predicate on EVERY transcript of the gene (not only the ones whose exons coincide
    with a whole form of the event): each record that one junction of the event produces for a
    transcript, applied to the transcript sequence under the documented semantics, gives the
    sequence of that transcript using the junction (`junction_alt`)"""
    from moPepGen import seqvar
    chrom = a.chroms[g.chrom]
    gs, ge = int(gm.location.start), int(gm.location.end)
    gseq = str(gene_seq.seq)
    for j, un, dn in used_junctions(ev):
        us, ue, ds, de = j
        if not (us < ue < ds < de):
            continue
        sj = seqvar.SpliceJunction(us, ue, ds, de, g.id, g.chrom)
        for tid in order:
            tm = W.anno.transcripts[tid]
            ex = [(int(x.location.start), int(x.location.end)) for x in tm.exon]
            aln = sj.align_to_transcript(tm, un, dn)
            if aln is None:
                continue
            base = {'case': case_id, 'event': ev.desc(), 'junction': list(j),
                    'upstream_novel': un, 'downstream_novel': dn, 'transcript': tid,
                    'exons': ex}
            base.update(a.desc())
            try:
                inter = aln.get_interjacent_exons()
                vs = aln.convert_to_variant_records(W.anno, gene_seq, 'ID')
            except Exception as e:     # noqa
                base['exception'] = f'{type(e).__name__}: {e}'
                ctx.add_violation('aligning a junction of the event to an annotated transcript '
                                  'raised', base)
                continue
            ninter = sum(1 for s, e in ex if ue <= s and e <= ds)
            ctx.count('junction', f'interjacent_{min(ninter, 3)}'
                      + ('_bwd' if aln.upstream_end_index == -1 else '_fwd'))
            if list(inter) != [i for i, (s, e) in enumerate(ex) if ue <= s and e <= ds] \
                    and (aln.upstream_end_index > -1 or aln.downstream_start_index > -1):
                base['interjacent'] = list(inter)
                ctx.add_violation('get_interjacent_exons does not return, in transcript-list '
                                  'order (the record builders take [0] and [-1]), the exons of '
                                  'the transcript that lie inside the junction', base)
            if not vs:
                continue
            alt = junction_alt(ex, j)
            if alt is None:
                ctx.count('junction', 'undefined_alt')
                continue
            want = seq_of(chrom, g.strand, alt)
            tx_seq = str(tm.get_transcript_sequence(W.genome[g.chrom]).seq)
            gcs = set()
            for s_, e_ in ex:
                for p_ in range(s_, e_):
                    gcs.add(p_ - gs if g.strand == '+' else ge - 1 - p_)
            for v in vs:
                r = rec_tuple(v)
                if r[0] == 'attr-mismatch':
                    continue
                ctx.count('junction', f'checked_{r[0]}{g.strand}_inter{min(ninter, 3)}')
                got, note = apply_documented(r, ex, g.strand, gs, ge, tx_seq, gseq)
                extra = dict(base)
                extra.update({'record': list(r), 'alternative_exons': alt})
                ends = [r[1]] if r[0] == 'I' else [r[1], r[2] - 1]
                if any(x not in gcs for x in ends):
                    ctx.add_violation('record boundary (START / END-1 / insert position) is not an '
                                      'exonic position of its transcript', extra)
                if got != want:
                    extra.update({'applied': got, 'expected': want, 'note': note})
                    ctx.add_violation('record of one junction of the event, applied to the '
                                      'transcript sequence under the documented semantics, does '
                                      'not give the sequence of the transcript using that junction',
                                      extra)


# ------------------------------------------------------------------ driver
def flush(ctx, S, annos):
    def describe(o):
        d = {'case': o[0], 'event': o[1]}
        if o[2] is not None:
            d['min_ijc'], d['min_sjc'] = o[2]
        a = annos.get(o[0])
        if a is not None:
            d.update(a.desc())
            d['regenerate'] = 'harness.c16.gen_case(ctx.rng("case", case), case)'
        return d
    what = {
        'event': 'records emitted by the real rMATS record classes differ from the Lean model of '
                 'convert_to_variant_records',
    }
    for s in STREAMS:
        if S[s]:
            if s in ('event', 'bad'):
                nt = lambda o: o != '-'
            elif s == 'aln':
                nt = lambda o: o != 'none' and not o.endswith('|-')
            else:
                nt = lambda o: True
            ctx.diff_stream(s, S[s], False, describe, nt, what.get(s, ''))
            S[s] = []


def run(ctx: common.Ctx):
    sys.path.insert(0, common.REPO)
    ctx.coverage['rule'] = (
        'genes of 3-8 pool exons (1-20 nt, introns 1-13 nt) on both strands, GENCODE / ENSEMBL '
        'ids, exon records in transcript / genomic / reverse order; one planted event per gene '
        '(SE, A5SS, A3SS, MXE, RI uniformly) realised as an isoform pair that differs by exactly '
        'that event, annotated as inclusion form only / skip form only / both / neither, plus 0-2 '
        'unrelated or boundary-perturbed isoforms and copies with other outer exons; in 40% of the '
        'genes the introns of the event region carry 2-3 cassette exons each and 1-3 carrier '
        'isoforms (a form of the event + the cassettes, half of them with one anchor exon of the '
        'event dropped or moved by 1 nt) so that 2+ exons are interjacent to the event junctions '
        'on the forward and on the backward scan; a second '
        'event from pool exons (often a partial match) on half of the genes; IJC, SJC in '
        '{0,1,2,3,5}, --min-ijc / --min-sjc in {0,1,2,3}; every row through the real record '
        'classes and the real CLI; near-valid rows (one coordinate shifted / swapped / moved out '
        'of the gene) as a separate stream.  Non-trivial = at least one record emitted (event), '
        'alignment that produced a record (aln)')
    ctx.coverage['exhaustive'] = False
    S = {s: [] for s in STREAMS}
    annos = {}
    n = ctx.n(700, 12000)
    for i in range(n):
        rng = ctx.rng('case', i)
        a, events, mins = gen_case(rng, i)
        annos[i] = a
        ctx.count('case', 'annotations')
        ctx.count('case', 'transcripts', sum(len(g.txs) for g in a.genes))
        process_case(ctx, i, S, a, events, mins, do_cli=(i % 2 == 0))
        if i % 100 == 99:
            flush(ctx, S, annos)
            annos.clear()
    flush(ctx, S, annos)
    annos.clear()
    nb = ctx.n(150, 2500)
    for i in range(nb):
        rng = ctx.rng('bad', i)
        a, events, mins = gen_case(rng, 500000 + i)
        evs = [perturb(rng, e, a) for e in events]
        for k, e in enumerate(evs):
            e.idx = k
        annos[500000 + i] = a
        ctx.count('bad', 'annotations')
        process_case(ctx, 500000 + i, S, a, evs, mins, do_cli=False, bad=True)
        if i % 100 == 99:
            flush(ctx, S, annos)
            annos.clear()
    flush(ctx, S, annos)
    ctx.assumptions += [
        'the transcript record of the GTF spans exactly its exons (tx_model.transcript.location = '
        'first exon start .. last exon end), as in every GTF the harness writes',
        'Bio.Seq slicing / reverse_complement on ACGT (modelled by List.drop/take and `complement`)',
        'REF base, record id string and GENOMIC_POSITION are not part of the model; '
        'create_variant_id is modelled only through its ValueError',
        'rows whose retained-intron insertion position would be gene coordinate -1 are outside the '
        'model (Nat coordinates) and not generated',
        'A record whose START or END-1 is intronic is given the meaning "remove the gene region '
        'from the transcript" (basesBefore); whether callVariant can consume it is C01-C03 territory',
    ]


def replay(ctx, data):
    """re-run one stored case: GTF + genome + row (or the whole case by number)"""
    sys.path.insert(0, common.REPO)
    common.prepare(ctx)
    rp = data.get('replay', data)
    case = rp.get('case')
    if isinstance(case, dict):
        case = case.get('case')
    if not isinstance(case, int):
        print('replay file has no case number')
        return 2
    bad = case >= 500000
    rng = ctx.rng('bad' if bad else 'case', case - 500000 if bad else case)
    a, events, mins = gen_case(rng, case)
    if bad:
        events = [perturb(rng, e, a) for e in events]
        for k, e in enumerate(events):
            e.idx = k
    S = {s: [] for s in STREAMS}
    process_case(ctx, case, S, a, events, mins, do_cli=not bad, bad=bad)
    flush(ctx, S, {case: a})
    print(json.dumps({'what': data.get('what'), 'case': case,
                      'violations': [v.what for v in ctx.violations],
                      'broken': [b.to_json() for b in ctx.broken]}, indent=1)[:4000])
    return 1 if (ctx.violations or ctx.broken) else 0
