"""C10 — canonical pool = exact in-silico digest; rule semantics.

Correspondence streams (real code in-process vs native Lean driver):
  sites   exhaustive strings over each rule's class-quotient alphabet
          real: AminoAcidSeqRecord.find_all_enzymatic_cleave_sites
          model: cleaveSites (scan) — and the positional spec isSite
  ranges  same strings, iter_enzymatic_cleave_sites_with_range
  pranges same strings + planted pattern instances, against the positional pairing
          statement rangeSpec (Props.C10.range_pairing)
  wings   same strings, iter_enzymatic_cleave_sites_with_range_local (EXPASY_RULES_WINGS_SIZE)
  ilocal  same strings (+ trypsin_exception), iter_enzymatic_cleave_sites_with_range_local against
          its function-level model cleaveSitesWithRangeLocal (Model/WingsLocal.lean), output for
          output incl. the position named in "Cannot extract matched pattern at position …"
  glocal  same strings + random longer proteins, the static get_local_matched_range at EVERY
          position 0..|s|+1 with the table's wings entry and a drawn one, against
          getLocalMatchedRange (Props.C10.local_range_sound / local_range_first / …)
  pcleave the cleave cases (proteins <= 30) against the positional digest posDigest
          (Props.C10.cleave_spec_positional)
  cstop   strings with '*', find_all_cleave_and_stop_sites
  cleave  random proteins x configurations, enzymatic_cleave
  pool    random proteomes (+ malformed stream), create_unique_peptide_pool
"""
from __future__ import annotations
import itertools
import json
import os
import sys
from decimal import Decimal

from . import common

AA = 'ACDEFGHIKLMNPQRSTVWY'


def load_tables():
    man = json.load(open(os.path.join(common.LEAN_DIR, 'MoPepGen', 'Generated',
                                      'manifest.json')))
    return man['Expasy.lean']['meta']


def quotient_alphabet(rule_text: str, exc_text: str | None) -> str:
    """One representative per class of letters that the rule (+exception)
    cannot distinguish, always keeping every letter mentioned literally."""
    import re as _re
    mentioned = set(_re.findall(r'[A-Z]', rule_text + (exc_text or '')))
    # letters mentioned are all kept (membership vectors of mentioned letters can
    # differ); all unmentioned letters behave identically: keep one.
    other = [a for a in AA if a not in mentioned]
    reps = sorted(mentioned & set(AA))
    if other:
        reps.append(other[0])
    return ''.join(reps)


def real_sites(rec_cls, seq, rule, exc):
    from Bio.Seq import Seq
    r = rec_cls(Seq(seq))
    return ','.join(str(x) for x in r.find_all_enzymatic_cleave_sites(rule, exc))


def real_ranges(rec_cls, seq, rule, exc):
    from Bio.Seq import Seq
    r = rec_cls(Seq(seq))
    try:
        out = r.find_all_enzymatic_cleave_sites_with_ranges(rule, exc)
    except ValueError as e:
        if 'Inconsistent cleavage sites' in str(e):
            return 'reject:inconsistent'
        return 'crash:ValueError'
    return ','.join(f'{s}:{a}-{b}' for s, (a, b) in out)


def real_ranges_local(rec_cls, seq, rule):
    """iter_enzymatic_cleave_sites_with_range_local (the EXPASY_RULES_WINGS_SIZE consumer)"""
    from Bio.Seq import Seq
    r = rec_cls(Seq(seq))
    try:
        out = list(r.iter_enzymatic_cleave_sites_with_range_local(rule))
    except ValueError as e:
        if 'Cannot extract matched pattern' in str(e):
            return 'reject:wings'
        if 'size being 0 for both wings' in str(e):
            return 'reject:wings-zero'
        return 'crash:ValueError'
    return ','.join(f'{s}:{a}-{b}' for s, (a, b) in out)


WINGS_PALETTE = [(0, 0), (0, 1), (1, 0), (1, 1), (1, 2), (2, 1), (2, 2), (3, 1), (4, 1), (4, 2),
                 (3, 2), (2, 3), (4, 0), (0, 3), (5, 3), (3, 3), (1, 4)]


def real_iter_local(rec_cls, seq, rule, exc):
    """iter_enzymatic_cleave_sites_with_range_local, output for output (the raising site included)"""
    import re as _re
    from Bio.Seq import Seq
    r = rec_cls(Seq(seq))
    try:
        out = list(r.iter_enzymatic_cleave_sites_with_range_local(rule, exc))
    except ValueError as e:
        m = _re.match(r'Cannot extract matched pattern at position (-?\d+) from ', str(e))
        if m:
            return f'reject:cannot-extract@{m.group(1)}'
        if 'size being 0 for both wings' in str(e):
            return 'reject:wings-zero'
        return 'crash:ValueError'
    except Exception as e:   # noqa
        return f'crash:{type(e).__name__}'
    return ','.join(f'{s}:{a}-{b}' for s, (a, b) in out)


def real_get_local(rec_cls, pat, seq, wings):
    """the static get_local_matched_range at every position 0..len+1"""
    out = []
    for site in range(len(seq) + 2):
        try:
            a, b = rec_cls.get_local_matched_range(seq=seq, site=site, p=pat, wings_size=wings,
                                                   seq_len=len(seq))
            out.append(f'{a}-{b}')
        except ValueError as e:
            out.append('reject:cannot-extract' if 'Cannot extract matched pattern' in str(e)
                       else 'crash:ValueError')
        except Exception as e:   # noqa
            out.append(f'crash:{type(e).__name__}')
    return ';'.join(out)


def planted_strings(rule2_text: str, rng, per_alt: int):
    """Instances of every alternative of a flattened rule (EXPASY_RULES2 text), with random
    flanks: strings that are guaranteed to contain a full pattern window, also for the
    5- and 6-residue rules no short exhaustive string reaches."""
    import re as _re
    alts, depth, cur = [], 0, ''
    for ch in rule2_text:
        if ch == '(':
            depth += 1
        elif ch == ')':
            depth -= 1
        elif ch == '|' and depth <= 1:
            alts.append(cur)
            cur = ''
        else:
            cur += ch
    alts.append(cur)
    out = []
    for alt in alts:
        toks = _re.findall(r'(\[\^?[A-Z]+\]|\\w|[A-Z])(?:\{(\d+)\})?', alt)
        for _ in range(per_alt):
            body = []
            for tok, rep in toks:
                for _k in range(int(rep) if rep else 1):
                    if tok == '\\w':
                        body.append(rng.choice(AA))
                    elif tok.startswith('[^'):
                        body.append(rng.choice([a for a in AA if a not in tok[2:-1]]))
                    elif tok.startswith('['):
                        body.append(rng.choice(tok[1:-1]))
                    else:
                        body.append(tok)
            letters = sorted(set(_re.findall(r'[A-Z]', rule2_text))) + ['A', 'G', 'P']
            left = ''.join(rng.choice(letters) for _ in range(rng.randint(0, 4)))
            right = ''.join(rng.choice(letters) for _ in range(rng.randint(0, 4)))
            s = left + ''.join(body) + right
            if rng.random() < 0.3:      # two windows, possibly overlapping
                s = s[:rng.randint(1, len(s))] + ''.join(body) + right
            out.append(s)
    return out


def real_cstop(rec_cls, seq, rule, exc):
    from Bio.Seq import Seq
    r = rec_cls(Seq(seq))
    return ','.join(str(x) for x in r.find_all_cleave_and_stop_sites(rule, exc))


def mw_int(x: float) -> int:
    """min_mw (a float given with <= 4 decimals) in 1e-4 Da"""
    return int(Decimal(repr(x)) * 10000)


def real_cleave(rec_cls, seq, rule, exc, misc, min_mw, min_len, max_len, nf):
    from Bio.Seq import Seq
    r = rec_cls(Seq(seq))
    try:
        peps = r.enzymatic_cleave(rule=rule, exception=exc, miscleavage=misc,
                                  min_mw=min_mw, min_length=min_len,
                                  max_length=max_len, cds_start_nf=nf)
    except ValueError:
        return 'crash:ValueError'
    return ','.join(sorted({str(p.seq) for p in peps}))


def near_boundary(seq_set_source, min_mw):
    return False


def gen_protein(rng, rule_text, malformed=False, maxlen=60):
    import re as _re
    n = rng.randint(0, maxlen)
    hot = ''.join(sorted(set(_re.findall(r'[A-Z]', rule_text)))) or 'KR'
    s = []
    for _ in range(n):
        x = rng.random()
        if x < 0.45:
            s.append(rng.choice(hot))
        else:
            s.append(rng.choice(AA))
    if rng.random() < 0.6:
        s.insert(0, 'M')
    seq = ''.join(s)
    if malformed:
        k = rng.random()
        if k < 0.25:
            seq = 'X' * rng.randint(1, 3) + seq
        elif k < 0.5 and seq:
            i = rng.randrange(len(seq))
            seq = seq[:i] + '*' + seq[i:]
        elif k < 0.7 and seq:
            i = rng.randrange(len(seq))
            seq = seq[:i] + 'X' + seq[i:]
        elif k < 0.85 and seq:
            i = rng.randrange(len(seq))
            seq = seq[:i] + rng.choice('BZJUO') + seq[i:]
        else:
            seq = seq + '*'
    return seq


def make_anno(nf_map):
    """A GenomicAnnotation-like object with the real TranscriptAnnotationModel
    so that is_cds_start_nf() is the repository's own tag logic."""
    from moPepGen.gtf.TranscriptAnnotationModel import TranscriptAnnotationModel
    from moPepGen.gtf.GTFSeqFeature import GTFSeqFeature
    from moPepGen.SeqFeature import FeatureLocation

    class Anno:
        transcripts = {}
    a = Anno()
    a.transcripts = {}
    for tx, nf in nf_map.items():
        attrs = {'transcript_id': tx, 'gene_id': 'G'}
        if nf is True:
            attrs['tag'] = ['basic', 'cds_start_NF']
        elif nf == 'other':
            attrs['tag'] = ['mRNA_end_NF']
        feat = GTFSeqFeature(chrom='chr1', attributes=attrs,
                             location=FeatureLocation(start=0, end=10, strand=1),
                             type='transcript')
        a.transcripts[tx] = TranscriptAnnotationModel(transcript=feat)
    return a


def firsts_stream(ctx: common.Ctx, rules, names):
    """the FIRST-site helpers of the peptide graph (find_first_cleave_or_stop_site[_with_range],
    find_first_enzymatic_cleave_site) against the full enumerations, which the sites / ranges / cstop
    streams tie to the model: the first reported site is the first ExPASy site that is not an
    exception site (or the first stop), with the range paired to it"""
    from moPepGen.aa.AminoAcidSeqRecord import AminoAcidSeqRecord
    from Bio.Seq import Seq
    rng = ctx.rng('firsts')
    motifs = ['CKD', 'DKD', 'CKH', 'CKY', 'CRK', 'RRH', 'RRR', 'KP', 'RP', 'WKP', 'MRP']
    nbad = 0
    for i in range(ctx.n(2500, 40000)):
        name = rng.choice(names) if rng.random() < 0.4 else 'trypsin'
        exc = rng.choice(['trypsin_exception', 'trypsin_exception', None]) if name == 'trypsin' else None
        s = gen_protein(rng, rules[name], malformed=False, maxlen=18)
        if name == 'trypsin' and rng.random() < 0.7:
            # an exception motif as the FIRST K/R context of the string
            s = ''.join(rng.choice('ADEFGHILNQSTVWY') for _ in range(rng.randint(0, 3))) + rng.choice(motifs) + s
        if rng.random() < 0.35:
            s = ''.join('*' if rng.random() < 0.1 else c for c in s)
        if not s:
            continue
        rec = AminoAcidSeqRecord(Seq(s))
        try:
            sites = rec.find_all_enzymatic_cleave_sites(name, exc)
            pairs = dict(rec.find_all_enzymatic_cleave_sites_with_ranges(name, exc))
            stops = [k for k, c in enumerate(s) if c == '*']
            cand = []
            if sites:
                cand.append((sites[0], pairs.get(sites[0])))
            special = False
            if stops:
                if stops[0] == 0:
                    if len(s) == 1:
                        special = True
                    else:
                        cand.append((1, None))
                else:
                    cand.append((stops[0], None))
            want_r = (-1, None) if (special or not cand) else min(cand, key=lambda x: x[0])
            want = want_r[0]
            got = rec.find_first_cleave_or_stop_site(name, exc)
            got_r = rec.find_first_cleave_or_stop_site_with_range(name, exc)
            got_r = (got_r[0], tuple(got_r[1]) if got_r[1] is not None else None)
            want_r = (want_r[0], tuple(want_r[1]) if want_r[1] is not None else None)
            st = rng.randrange(len(s))
            suf = AminoAcidSeqRecord(Seq(s[st:])).find_all_enzymatic_cleave_sites(name, exc)
            want_f = suf[0] + st if suf else -1
            got_f = rec.find_first_enzymatic_cleave_site(name, exc, st)
        except Exception as e:   # noqa
            ctx.evaluated('firsts', f'{name}|{exc}|{s}', True, None)
            if nbad < 3:
                ctx.add_violation(f'a first-site helper raises {type(e).__name__}: {e}',
                                  {'stream': 'firsts', 'rule': name, 'exception': exc, 'seq': s})
            nbad += 1
            continue
        ctx.evaluated('firsts', f'{name}|{exc}|{s}', bool(sites or stops),
                      {'rule': name, 'exception': exc, 'seq': s} if i < 2 else None)
        for what, g, w in (('find_first_cleave_or_stop_site', got, want),
                           ('find_first_cleave_or_stop_site_with_range', got_r, want_r),
                           (f'find_first_enzymatic_cleave_site(start={st})', got_f, want_f)):
            if g != w:
                nbad += 1
                if nbad <= 3:
                    ctx.add_violation(
                        f'{what} = {g}, but the first entry of the full enumeration (first ExPASy site that '
                        f'is not an exception site, or the first stop) is {w}',
                        {'stream': 'firsts', 'rule': name, 'exception': exc, 'seq': s, 'got': repr(g),
                         'expected': repr(w)})


def cli_pool_stream(ctx: common.Ctx, rules):
    """The pool as the COMMANDS build it: generateIndex, updateIndex and the on-the-fly
    reference loader, with the CLI spelling of the exception ('auto' included), against the
    Lean pool under the documented resolution of 'auto'."""
    import argparse
    import pickle
    import shutil
    from pathlib import Path
    from . import gen_ref
    gen_ref._imports()
    from moPepGen.cli.generate_index import generate_index
    from moPepGen.cli.update_index import update_index
    from moPepGen.cli import common as cli_common
    from moPepGen import params
    from moPepGen.index import IndexDir
    rng = ctx.rng('cli_pool')
    cases = []
    motifs = ['ACKDA', 'GCKHA', 'TCKYA', 'ACRKA', 'ARRHA', 'ARRRA', 'AWKPA', 'AMRPA']
    for i in range(ctx.n(12, 80)):
        case = gen_ref.Case(gen_ref.work_dir('c10cli'))
        try:
            with gen_ref.quiet():
                _g, anno, prot = gen_ref.make_reference(case, rng.randrange(1 << 30), rng.choice([1, 2, 3]))
            # plant exception / look-around motifs into the proteome file
            recs = []
            for tx, rec in prot.items():
                seq = str(rec.seq)
                for _ in range(rng.randint(1, 4)):
                    j = rng.randrange(1, max(2, len(seq)))
                    seq = seq[:j] + rng.choice(motifs) + seq[j:]
                # a translation with a stop codon inside / at its end (digested up to the first
                # stop; the entry leaves the proteome only under --invalid-protein-as-noncoding)
                k = rng.random()
                if k < 0.25 and len(seq) > 12:
                    j = rng.randrange(8, len(seq))
                    seq = seq[:j] + '*' + seq[j:]
                elif k < 0.35:
                    seq = seq + '*'
                recs.append((rec.description, tx, seq))
            if not recs:
                continue
            with open(case.proteome, 'wt') as fh:
                for d, _tx, seq in recs:
                    fh.write(f'>{d}\n{seq}\n')
            nfmap = {tx: anno.transcripts[tx].is_cds_start_nf() for _d, tx, _s in recs}
            for spelling in ['auto', 'trypsin_exception', None]:
                as_noncoding = rng.random() < 0.3
                enzyme = 'trypsin' if rng.random() < 0.8 else rng.choice(['lysc', 'arg-c'])
                misc = rng.choice([0, 1, 2])
                base = dict(cleavage_rule=enzyme, cleavage_exception=spelling, miscleavage=misc,
                            min_mw=500., min_length=7, max_length=25)
                exc = spelling
                if exc == 'auto':
                    exc = 'trypsin_exception' if enzyme == 'trypsin' else None
                enc = ';'.join(f'{int(bool(nfmap[tx]))}:{seq}' for _d, tx, seq in recs
                               if not (as_noncoding and '*' in seq))
                line = (f'C10\tpool\t{enzyme}\t{exc or "-"}\t{misc}\t{mw_int(500.)}\t7\t25\t{enc}')

                def ns(**kw):
                    a = argparse.Namespace(
                        genome_fasta=case.genome, annotation_gtf=case.gtf,
                        proteome_fasta=case.proteome, gtf_symlink=False, reference_source=None,
                        invalid_protein_as_noncoding=as_noncoding, quiet=True, force=False,
                        debug_level=1, index_dir=None, **base)
                    for k, v in kw.items():
                        setattr(a, k, v)
                    return a
                cp = params.CleavageParams(enzyme=enzyme, exception=spelling, miscleavage=misc,
                                           min_mw=500., min_length=7, max_length=25)
                # (1) on the fly
                with gen_ref.quiet():
                    _a, _b, _c, canon = cli_common.load_references(
                        args=ns(command='callVariant'), cleavage_params=cp,
                        invalid_protein_as_noncoding=as_noncoding)   # as cli.call_variant_peptide passes it
                cases.append((line, ','.join(sorted(canon)), {'path': 'on-the-fly', 'as_noncoding': as_noncoding, **base,
                              'proteins': [s for _d, _t, s in recs]}))
                # (2) generateIndex, (3) updateIndex with other miscleavage
                idx = case.dir / f'index_{spelling}'
                shutil.rmtree(idx, ignore_errors=True)
                with gen_ref.quiet():
                    generate_index(ns(command='generateIndex', output_dir=idx))
                    pool = IndexDir(idx).load_canonical_peptides(cp)
                cases.append((line, ','.join(sorted(pool)), {'path': 'generateIndex', **base,
                              'proteins': [s for _d, _t, s in recs]}))
                # (3) updateIndex with parameters that differ from the first pool in exactly ONE field
                # (a pool must be found by ALL its parameters), then both pools are loaded
                field, val = rng.choice([('miscleavage', (misc + 1) % 3), ('min_mw', 900.), ('min_mw', 1500.),
                                         ('min_length', 9), ('max_length', 18), ('max_length', 30)])
                base2 = dict(base, **{field: val})
                cp2 = params.CleavageParams(enzyme=enzyme, exception=spelling,
                                            miscleavage=base2['miscleavage'], min_mw=base2['min_mw'],
                                            min_length=base2['min_length'], max_length=base2['max_length'])
                a2 = ns(command='updateIndex', index_dir=idx)
                setattr(a2, field, val)
                line2 = (f'C10\tpool\t{enzyme}\t{exc or "-"}\t{base2["miscleavage"]}\t'
                         f'{mw_int(base2["min_mw"])}\t{base2["min_length"]}\t{base2["max_length"]}\t{enc}')
                try:
                    with gen_ref.quiet():
                        update_index(a2)
                        pool2 = IndexDir(idx).load_canonical_peptides(cp2)
                    real2 = ','.join(sorted(pool2))
                except BaseException as e:   # noqa  SystemExit ("already exists") included
                    if isinstance(e, KeyboardInterrupt):
                        raise
                    real2 = f'crash:{type(e).__name__}'
                cases.append((line2, real2, {'path': 'updateIndex', **base2, 'differs_in': field,
                              'proteins': [s for _d, _t, s in recs]}))
                try:
                    with gen_ref.quiet():
                        pool1 = IndexDir(idx).load_canonical_peptides(cp)
                    real1 = ','.join(sorted(pool1))
                except BaseException as e:   # noqa
                    if isinstance(e, KeyboardInterrupt):
                        raise
                    real1 = f'crash:{type(e).__name__}'
                cases.append((line, real1, {'path': 'first pool after updateIndex', **base,
                              'update_differs_in': field, 'proteins': [s for _d, _t, s in recs]}))
            # "release 2" of the SAME annotation in the same process: the cds_start_NF tag of one
            # transcript whose protein starts with M is toggled (ids unchanged) — the pools of the new
            # release follow the new tags (no state of the first annotation may leak into it)
            mtx = [tx for _d, tx, seq in recs if seq.startswith('M')]
            if mtx:
                tgl = rng.choice(mtx)
                lines2 = []
                for ln in open(case.gtf).read().split('\n'):
                    f = ln.split('\t')
                    if len(f) > 8 and f'transcript_id {tgl};' in f[8]:
                        if 'tag cds_start_NF;' in f[8]:
                            ln = ln.replace(' tag cds_start_NF;', '', 1)
                        elif ' gene_type ' in ln:
                            ln = ln.replace(' gene_type ', ' tag cds_start_NF; gene_type ', 1)
                        else:
                            ln = ln + ' tag cds_start_NF;'
                    lines2.append(ln)
                gtf2 = case.dir / 'release2.gtf'
                gtf2.write_text('\n'.join(lines2))
                nfmap2 = dict(nfmap)
                nfmap2[tgl] = not nfmap[tgl]
                enc2 = ';'.join(f'{int(bool(nfmap2[tx]))}:{seq}' for _d, tx, seq in recs)
                line3 = f'C10\tpool\ttrypsin\t-\t2\t{mw_int(500.)}\t7\t25\t{enc2}'
                a3 = argparse.Namespace(
                    genome_fasta=case.genome, annotation_gtf=gtf2, proteome_fasta=case.proteome,
                    gtf_symlink=False, reference_source=None, invalid_protein_as_noncoding=False, quiet=True,
                    force=False, debug_level=1, index_dir=None, cleavage_rule='trypsin',
                    cleavage_exception=None, miscleavage=2, min_mw=500., min_length=7, max_length=25,
                    command='generateIndex', output_dir=case.dir / 'index_release2')
                cp3 = params.CleavageParams(enzyme='trypsin', exception=None, miscleavage=2, min_mw=500.,
                                            min_length=7, max_length=25)
                try:
                    with gen_ref.quiet():
                        generate_index(a3)
                        pool3 = IndexDir(a3.output_dir).load_canonical_peptides(cp3)
                    real3 = ','.join(sorted(pool3))
                except BaseException as e:   # noqa
                    if isinstance(e, KeyboardInterrupt):
                        raise
                    real3 = f'crash:{type(e).__name__}'
                cases.append((line3, real3, {'path': 'generateIndex on release 2 (cds_start_NF of one transcript '
                                                     'toggled) after release 1 in the same process',
                                             'toggled': tgl, 'now_cds_start_NF': nfmap2[tgl],
                                             'proteins': [s_ for _d, _t, s_ in recs]}))
        finally:
            case.cleanup()
    ctx.diff_stream('cli_pool', cases, True, lambda o: o, lambda o: o != '',
                    'the canonical pool built by generateIndex / updateIndex / on the fly is not '
                    'the digest of the proteome under the requested cleavage parameters')
    shutil.rmtree(gen_ref.WORK, ignore_errors=True)


def run(ctx: common.Ctx):
    sys.path.insert(0, common.REPO)
    from moPepGen.aa.AminoAcidSeqRecord import AminoAcidSeqRecord
    from moPepGen.aa.AminoAcidSeqDict import AminoAcidSeqDict
    from moPepGen.aa import expasy_rules as er
    from Bio.Seq import Seq

    tabs = load_tables()
    rules = tabs['rules']
    # the real tables as imported must be what the translator read from disk
    if dict(er.EXPASY_RULES) != rules or dict(er.EXPASY_RULES2) != tabs['rules2']:
        ctx.add_broken('translation', 'expasy tables',
                       'imported moPepGen.aa.expasy_rules differs from the text the translator read')
    ctx.coverage['rule'] = (
        'sites/ranges: ALL strings up to length L over the class-quotient alphabet of each '
        'rule (+exception, + "*"), L per tier; cleave/pool: seeded random proteins, biased to '
        'rule letters, with a separate malformed stream (leading X, internal *, X, non-weight '
        'letters); non-trivial = real output non-empty (>=1 site / >=1 peptide) or an error class')
    names = [n for n in rules if n != 'trypsin_exception']
    L = ctx.n(4, 6)
    budget = ctx.n(6000, 400000)   # max strings per (rule, exc)
    total_exh = 0
    total_planted = 0
    wings_hit = {}
    # ---- sites / ranges, exhaustive
    for name in names:
        excs = [None, 'trypsin_exception'] if name == 'trypsin' else [None]
        if ctx.tier == 'thorough' and name in ('lysc', 'arg-c', 'chymotrypsin high specificity'):
            excs = [None, 'trypsin_exception']
        for exc in excs:
            alpha = quotient_alphabet(rules[name], rules.get(exc) if exc else None)
            cases_s, cases_r, cases_i, cases_p, cases_w = [], [], [], [], []
            cases_il, cases_gl = [], []
            import re as _re
            pat = _re.compile(rules[name])
            tw = tuple(tabs['wings'][name])
            wrng = ctx.rng('glocal-wings:' + name)
            cnt = 0
            done = False

            def one(s):
                e = exc or '-'
                real = real_sites(AminoAcidSeqRecord, s, name, exc)
                cases_s.append((f'C10\tsites\t{name}\t{e}\t{s}', real, (name, exc, s)))
                cases_i.append((f'C10\tissite\t{name}\t{e}\t{s}', real, (name, exc, s)))
                rr = real_ranges(AminoAcidSeqRecord, s, name, exc)
                cases_r.append((f'C10\tranges\t{name}\t{e}\t{s}', rr, (name, exc, s)))
                cases_p.append((f'C10\tpranges\t{name}\t{e}\t{s}', rr, (name, exc, s)))
                cases_il.append((f'C10\tilocal\t{name}\t{e}\t{s}',
                                 real_iter_local(AminoAcidSeqRecord, s, name, exc), (name, exc, s)))
                if exc is None:
                    for w in (tw, wrng.choice(WINGS_PALETTE)):
                        cases_gl.append((f'C10\tglocal\t{name}\t{w[0]}\t{w[1]}\t{s}',
                                         real_get_local(AminoAcidSeqRecord, pat, s, w), (name, w, s)))
                    rl = real_ranges_local(AminoAcidSeqRecord, s, name)
                    cases_w.append((f'C10\twings\t{name}\t{s}', rl, (name, None, s)))
                    if rl == 'reject:wings' and name not in wings_hit:
                        wings_hit[name] = s

            for ln in range(0, L + 1):
                if done:
                    break
                for tup in itertools.product(alpha, repeat=ln):
                    if cnt >= budget:
                        done = True
                        break
                    cnt += 1
                    one(''.join(tup))
            total_exh += cnt
            # planted instances of every alternative (reach the 5/6-residue windows)
            prng = ctx.rng('planted:' + name + ':' + (exc or '-'))
            for s in planted_strings(tabs['rules2'][name], prng, ctx.n(12, 120)):
                one(s)
                total_planted += 1
            if exc is None:
                # random longer proteins (windows clipped at neither end, several sites per string)
                lrng = ctx.rng('glocal-long:' + name)
                for _ in range(ctx.n(40, 600)):
                    s = gen_protein(lrng, rules[name], malformed=False, maxlen=40)
                    if lrng.random() < 0.5:
                        s = lrng.choice(planted_strings(tabs['rules2'][name], lrng, 1)) + s
                    cases_il.append((f'C10\tilocal\t{name}\t-\t{s}',
                                     real_iter_local(AminoAcidSeqRecord, s, name, None), (name, None, s)))
                    for w in (tw, lrng.choice(WINGS_PALETTE)):
                        cases_gl.append((f'C10\tglocal\t{name}\t{w[0]}\t{w[1]}\t{s}',
                                         real_get_local(AminoAcidSeqRecord, pat, s, w), (name, w, s)))
            d = lambda o: {'rule': o[0], 'exception': o[1], 'seq': o[2]}
            nt = lambda o: o != ''
            ctx.diff_stream('ilocal', cases_il, True, d, nt,
                            'iter_enzymatic_cleave_sites_with_range_local differs from its function-level '
                            'model (cleaveSitesWithRangeLocal: sites, ranges, raising site)')
            ctx.diff_stream('glocal', cases_gl, True,
                            lambda o: {'rule': o[0], 'wings_size': list(o[1]), 'seq': o[2],
                                       'sites': f'0..{len(o[2]) + 1}'},
                            lambda o: any(c.isdigit() for c in o),
                            'get_local_matched_range differs from its model (getLocalMatchedRange: cursor '
                            'schedule, window, returned range / ValueError)')
            ctx.diff_stream('sites', cases_s, True, d, nt,
                            'cleavage sites differ from the ExPASy rule (scan model)')
            ctx.diff_stream('issite', cases_i, True, d, nt,
                            'cleavage sites differ from the positional ExPASy definition')
            ctx.diff_stream('ranges', cases_r, True, d, nt,
                            'site/range pattern pairing differs')
            ctx.diff_stream('pranges', cases_p, True, d, nt,
                            'a site is not paired with the window of the alternative matching '
                            'there (positional pairing statement, Props.C10.range_pairing)')
            ctx.diff_stream('wings', cases_w, True, d, nt,
                            'iter_enzymatic_cleave_sites_with_range_local differs from the '
                            'positional pairing statement / from what EXPASY_RULES_WINGS_SIZE allows')
    # EXPASY_RULES_WINGS_SIZE entries that do not cover their rule (Lean: wingsCover = false,
    # Props.C10.wings_cover_partial): the local range search cannot succeed at any site.
    for name, s in sorted(wings_hit.items()):
        ctx.add_violation(
            'EXPASY_RULES_WINGS_SIZE entry shorter than the look-behind + consumed residue of the '
            'rule: iter_enzymatic_cleave_sites_with_range_local raises on every sequence with a site',
            {'rule': name, 'seq': s, 'wings': tabs['wings'][name], 'pattern': rules[name],
             'real': 'ValueError: Cannot extract matched pattern'},
            finding_key='wings-size-too-small')
    ctx.coverage['exhaustive'] = True
    ctx.coverage['exhaustive_strings'] = total_exh
    ctx.coverage['exhaustive_max_len'] = L
    ctx.coverage['planted_strings'] = total_planted

    # ---- cstop
    rng = ctx.rng('cstop')
    cases = []
    for i in range(ctx.n(1500, 20000)):
        name = rng.choice(names)
        exc = 'trypsin_exception' if (name == 'trypsin' and rng.random() < 0.5) else None
        s = gen_protein(rng, rules[name], malformed=False, maxlen=25)
        # plant stops
        s = ''.join('*' if rng.random() < 0.12 else c for c in s)
        cases.append((f'C10\tcstop\t{name}\t{exc or "-"}\t{s}',
                      real_cstop(AminoAcidSeqRecord, s, name, exc), (name, exc, s)))
    ctx.diff_stream('cstop', cases, False,
                    lambda o: {'rule': o[0], 'exception': o[1], 'seq': o[2]}, lambda o: o != '')

    # ---- cleave
    rng = ctx.rng('cleave')
    cases = []
    mw_choices = [0.0, 18.0153, 300.0, 500.0, 700.5, 1000.0]
    for i in range(ctx.n(2500, 40000)):
        name = rng.choice(names) if rng.random() < 0.7 else 'trypsin'
        exc = 'trypsin_exception' if (name == 'trypsin' and rng.random() < 0.5) else None
        mal = rng.random() < 0.15
        s = gen_protein(rng, rules[name], malformed=mal, maxlen=50)
        misc = rng.choice([0, 0, 1, 2, 2, 3, 5])
        min_len = rng.choice([0, 1, 3, 5, 7])
        max_len = rng.choice([5, 10, 25, 40])
        min_mw = rng.choice(mw_choices)
        nf = rng.random() < 0.3
        real = real_cleave(AminoAcidSeqRecord, s, name, exc, misc, min_mw, min_len, max_len, nf)
        line = (f'C10\tcleave\t{name}\t{exc or "-"}\t{misc}\t{mw_int(min_mw)}\t{min_len}'
                f'\t{max_len}\t{int(nf)}\t{s}')
        cases.append((line, real, (name, exc, misc, min_mw, min_len, max_len, nf, s)))
    keys = ['rule', 'exception', 'miscleavage', 'min_mw', 'min_length', 'max_length',
            'cds_start_nf', 'seq']
    ctx.diff_stream('cleave', cases, True, lambda o: dict(zip(keys, o)), lambda o: o != '',
                    'enzymatic_cleave output is not the set of digestion products')
    # the same real outputs against the positional statement (every pair of positions tried)
    pc = [(ln.replace('C10\tcleave\t', 'C10\tpcleave\t', 1), real, obj)
          for ln, real, obj in cases if len(obj[-1]) <= 30]
    ctx.diff_stream('pcleave', pc, True, lambda o: dict(zip(keys, o)), lambda o: o != '',
                    'enzymatic_cleave output is not the positional set of digestion products '
                    '(Props.C10.cleave_spec_positional)')

    # ---- pool
    rng = ctx.rng('pool')
    cases = []
    for i in range(ctx.n(300, 5000)):
        name = rng.choice(names) if rng.random() < 0.5 else 'trypsin'
        exc = 'trypsin_exception' if (name == 'trypsin' and rng.random() < 0.5) else None
        nprot = rng.randint(0, 6)
        prots, nfmap = [], {}
        for k in range(nprot):
            tx = f'TX{k}'
            mal = rng.random() < 0.3
            s = gen_protein(rng, rules[name], malformed=mal, maxlen=45)
            # non-weight letters make the whole pool raise; keep them rare
            if any(c in s for c in 'BZJ') and rng.random() < 0.8:
                s = s.replace('B', 'A').replace('Z', 'A').replace('J', 'A')
            x = rng.random()
            nf = True if x < 0.3 else ('other' if x < 0.4 else (None if x < 0.5 else False))
            prots.append((tx, s))
            if nf is not None:
                nfmap[tx] = nf
        misc = rng.choice([0, 1, 2, 3])
        min_len = rng.choice([1, 3, 5, 7])
        max_len = rng.choice([10, 25, 40])
        min_mw = rng.choice(mw_choices)
        d = AminoAcidSeqDict()
        for tx, s in prots:
            d[tx] = AminoAcidSeqRecord(Seq(s), _id=tx, transcript_id=tx)
        anno = make_anno(nfmap)
        try:
            pool = d.create_unique_peptide_pool(anno=anno, rule=name, exception=exc,
                                                miscleavage=misc, min_mw=min_mw,
                                                min_length=min_len, max_length=max_len)
            real = ','.join(sorted(pool))
        except ValueError:
            real = 'crash:ValueError'
        enc = ';'.join(f'{int(nfmap.get(tx) is True)}:{s}' for tx, s in prots)
        line = (f'C10\tpool\t{name}\t{exc or "-"}\t{misc}\t{mw_int(min_mw)}\t{min_len}'
                f'\t{max_len}\t{enc}')
        cases.append((line, real, {'rule': name, 'exception': exc, 'miscleavage': misc,
                                   'min_mw': min_mw, 'min_length': min_len,
                                   'max_length': max_len,
                                   'proteins': [(tx, s, nfmap.get(tx)) for tx, s in prots]}))
    ctx.diff_stream('pool', cases, True, lambda o: o, lambda o: o != '',
                    'canonical pool is not the digest of the proteome')
    from . import rule_ref
    rule_ref.check_rule_tables(ctx)
    firsts_stream(ctx, rules, names)
    cli_pool_stream(ctx, rules)
    ctx.assumptions += [
        'Python re / regex engines (validated exhaustively against Re.matchAt on the bounded strings above)',
        'float summation in Bio.SeqUtils.molecular_weight vs exact 1e-4 Da integers '
        '(min_mw choices are never within 1e-6 of an attainable mass sum except 18.0153 = empty peptide, '
        'which is compared with strict >)',
    ]
