"""C06 — peptide set independent of threads, file layout, indexing, hashing."""
from . import common, pipe_checks, pipe_explore


def run(ctx: common.Ctx):
    ctx.coverage['rule'] = (
        'generated references (3-6 genes), records over several transcripts (in 75 % of the inputs '
        'plus planted I->L SNVs: variant peptides that only the GLOBAL canonical pool removes), optionally '
        '--noncanonical-transcripts (creates skipped transcripts); baseline threads=1 single GVF; '
        'variations: threads {2,3} quick / {2,3,4,7} thorough, random partitions of the records '
        'into 2-3 GVF files in shuffled order with/without .idx, .idx on the original files, '
        'reference via generateIndex directory and via the same directory after ONE updateIndex with '
        'other cleavage parameters (miscleavage 0/1/3, min length 9, lysc) read with the original '
        'parameters, PYTHONHASHSEED in subprocesses; the set of output '
        'sequences must equal the baseline; batches/table/FASTA/tally of thread runs compared '
        'with the Lean model. non-trivial = run with >= 1 peptide')
    stats = pipe_checks.run_workers(ctx, pipe_explore.c06_worker, ctx.n(28, 300))
    ctx.assumptions += [
        'hash seed and pathos process scheduling are runtime behaviour: covered by paired real runs only',
        'file-partition independence is proved in C13 (pointer_scan_equiv), index equivalence in C11/C12']
